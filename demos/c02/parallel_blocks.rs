//! C02: a PA-Zip payload of 1 MiB or more, compressed with multithreading enabled on the non-reference encoder,
//! must still round-trip. compress_parallel() encodes 64 KiB blocks through compress_sequential_legacy(), which
//! appends to the scratch buffer `output_buffer` and copies the whole buffer out: without a clear per block every
//! block's output repeats the tokens of all earlier blocks.

use zipora::compression::dict_zip::{
    DictionaryBuilder, DictionaryBuilderConfig, PaZipCompressor, PaZipCompressorConfig,
};
use zipora::memory::{SecureMemoryPool, SecurePoolConfig};

fn make_compressor(config: PaZipCompressorConfig) -> PaZipCompressor {
    let training: Vec<u8> = b"the quick brown fox jumps over the lazy dog. ".repeat(8);
    let dict_config = DictionaryBuilderConfig {
        target_dict_size: 8192,
        max_dict_size: 32768,
        validate_result: true,
        ..Default::default()
    };
    let dictionary = DictionaryBuilder::with_config(dict_config).build(&training).unwrap();
    let pool = SecureMemoryPool::new(SecurePoolConfig::new(4096, 1024, 8)).unwrap();
    PaZipCompressor::new(dictionary, config, pool).unwrap()
}

fn payload(n: usize) -> Vec<u8> {
    // deterministic, mildly compressible
    let mut s = 0x2545F4914F6CDD1Du64;
    (0..n)
        .map(|i| {
            s ^= s << 13;
            s ^= s >> 7;
            s ^= s << 17;
            if i % 7 < 4 { b"the quick brown fox "[i % 20] } else { (s >> 33) as u8 }
        })
        .collect()
}

fn run(multithreading: bool, n: usize) {
    let mut config = PaZipCompressorConfig::default();
    config.use_reference_encoding = false;
    config.enable_multithreading = multithreading;
    config.multithreading_threshold = 64 * 1024;
    let mut c = make_compressor(config);
    let p = payload(n);
    let mut compressed = Vec::new();
    c.compress(&p, &mut compressed).unwrap();
    let mut restored = Vec::new();
    c.decompress(&compressed, &mut restored).unwrap();
    assert!(restored == p, "multithreading={multithreading} n={n}: {} bytes came back as {} bytes", p.len(), restored.len());
}

#[test]
fn sequential_control() {
    run(false, 1024 * 1024 + 12345);
}

#[test]
fn parallel_blocks_roundtrip() {
    run(true, 1024 * 1024 + 12345);
}
