//! C03: "stores built in bulk return record i equal to input i". ZipOffsetBlobStoreBuilder::finish() builds an empty
//! store: the records handed to add_record() are never moved into what it returns.

use zipora::blob_store::{BlobStore, ZipOffsetBlobStoreBuilder};

#[test]
fn built_store_returns_its_records() {
    let records: [&[u8]; 3] = [b"Hello, world!", b"This is a test record", b"Another record for testing"];
    let mut builder = ZipOffsetBlobStoreBuilder::new().unwrap();
    for r in records {
        builder.add_record(r).unwrap();
    }
    let store = builder.finish().unwrap();
    assert_eq!(store.len(), records.len(), "number of records in the built store");
    for (i, r) in records.iter().enumerate() {
        assert_eq!(store.get(i as u32).unwrap(), r.to_vec(), "record {i}");
    }
}
