//! RankSelectInterleaved256 built without the select cache must answer
//! select1 exactly like the naive definition (and like the cached build).

use zipora::{
    BitVector,
    succinct::rank_select::{RankSelectInterleaved256, RankSelectOps},
};

fn build(bits: &[bool]) -> BitVector {
    let mut bv = BitVector::new();
    for &b in bits {
        bv.push(b).unwrap();
    }
    bv
}

fn naive_select1(bits: &[bool], k: usize) -> Option<usize> {
    bits.iter()
        .enumerate()
        .filter(|(_, b)| **b)
        .map(|(i, _)| i)
        .nth(k)
}

fn check_against_naive(bits: &[bool], enable_select_cache: bool) {
    let rs = RankSelectInterleaved256::with_options(build(bits), enable_select_cache, 512).unwrap();
    let ones = bits.iter().filter(|b| **b).count();
    assert_eq!(rs.count_ones(), ones);

    let mut rank = 0;
    for i in 0..=bits.len() {
        assert_eq!(rs.rank1(i), rank, "rank1({})", i);
        assert_eq!(rs.rank0(i), i - rank, "rank0({})", i);
        if i < bits.len() && bits[i] {
            rank += 1;
        }
    }

    for k in 0..ones {
        let expected = naive_select1(bits, k).unwrap();
        match rs.select1(k) {
            Ok(pos) => assert_eq!(
                pos, expected,
                "select1({}) with select cache {}", k, enable_select_cache
            ),
            Err(e) => panic!(
                "select1({}) with select cache {}: expected Ok({}), got Err({})",
                k, enable_select_cache, expected, e
            ),
        }
    }
    assert!(rs.select1(ones).is_err());
    assert!(rs.select1(ones + 1).is_err());
}

fn patterns() -> Vec<Vec<bool>> {
    let mut sparse_ends = vec![false; 2048];
    sparse_ends[10] = true;
    sparse_ends[2047] = true;

    vec![
        (0..5000).map(|i| i % 7 == 0).collect(),
        sparse_ends,
        vec![true; 300],
        (0..1000).map(|i| (i * i + i / 3) % 5 < 2).collect(),
        vec![true],
        vec![false, true],
    ]
}

#[test]
fn select1_without_select_cache_matches_naive() {
    for bits in patterns() {
        check_against_naive(&bits, false);
    }
}

#[test]
fn select1_with_select_cache_matches_naive() {
    for bits in patterns() {
        check_against_naive(&bits, true);
    }
}

#[test]
fn select1_without_select_cache_first_one() {
    let bits: Vec<bool> = (0..5000).map(|i| i % 7 == 0).collect();
    let rs = RankSelectInterleaved256::with_options(build(&bits), false, 512).unwrap();
    assert_eq!(rs.select1(0).unwrap(), 0);
    assert_eq!(rs.select1(1).unwrap(), 7);
}
