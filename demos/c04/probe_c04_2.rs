//! A BitVector shrunk with resize() must behave exactly like a freshly built
//! bit vector of the same content, also when handed to rank/select builders.

use zipora::{
    BitVector,
    succinct::rank_select::{
        RankSelectInterleaved256, RankSelectOps, RankSelectSE256, RankSelectSE512,
        RankSelectSimple,
    },
};

const OLD_LEN: usize = 1000;

/// All-ones vector of OLD_LEN bits truncated to `new_len`.
fn shrunk(new_len: usize) -> BitVector {
    let mut bv = BitVector::new();
    for _ in 0..OLD_LEN {
        bv.push(true).unwrap();
    }
    bv.resize(new_len, false).unwrap();
    bv
}

fn check_ops<R: RankSelectOps>(name: &str, rs: &R, new_len: usize) {
    // every remaining bit is a one
    assert_eq!(rs.len(), new_len, "{} len", name);
    assert_eq!(rs.count_ones(), new_len, "{} count_ones after resize to {}", name, new_len);
    for i in 0..=new_len {
        assert_eq!(rs.rank1(i), i, "{} rank1({}) after resize to {}", name, i, new_len);
        assert_eq!(rs.rank0(i), 0, "{} rank0({}) after resize to {}", name, i, new_len);
    }
    for k in 0..new_len {
        assert_eq!(rs.select1(k).unwrap(), k, "{} select1({})", name, k);
    }
    assert!(rs.select1(new_len).is_err(), "{} select1 past the last one", name);
    assert!(rs.select0(0).is_err(), "{} select0(0) on all-ones", name);
}

const NEW_LENS: [usize; 7] = [0, 1, 10, 64, 100, 256, 700];

#[test]
fn resize_shrink_leaves_no_set_bits_behind_len() {
    for new_len in NEW_LENS {
        let bv = shrunk(new_len);
        assert_eq!(bv.len(), new_len);
        assert_eq!(bv.count_ones(), new_len);
        let in_blocks: usize = bv.blocks().iter().map(|w| w.count_ones() as usize).sum();
        assert_eq!(in_blocks, new_len, "set bits in blocks() after resize to {}", new_len);
    }
}

#[test]
fn resize_shrink_then_grow_does_not_resurrect_bits() {
    let mut bv = shrunk(10);
    bv.ensure_set1(500).unwrap();
    assert_eq!(bv.len(), 501);
    assert_eq!(bv.count_ones(), 11);
    for i in 10..500 {
        assert_eq!(bv.get(i), Some(false), "bit {}", i);
    }
}

#[test]
fn resize_shrink_then_simple() {
    for new_len in NEW_LENS {
        let rs = RankSelectSimple::new(shrunk(new_len)).unwrap();
        check_ops("RankSelectSimple", &rs, new_len);
    }
}

#[test]
fn resize_shrink_then_se256() {
    for new_len in NEW_LENS {
        let rs = RankSelectSE256::new(shrunk(new_len)).unwrap();
        check_ops("RankSelectSE256", &rs, new_len);
    }
}

#[test]
fn resize_shrink_then_se512() {
    for new_len in NEW_LENS {
        let rs = RankSelectSE512::new(shrunk(new_len)).unwrap();
        check_ops("RankSelectSE512", &rs, new_len);
    }
}

#[test]
fn resize_shrink_then_interleaved256() {
    for new_len in NEW_LENS {
        let rs = RankSelectInterleaved256::new(shrunk(new_len)).unwrap();
        check_ops("RankSelectInterleaved256", &rs, new_len);
    }
}
