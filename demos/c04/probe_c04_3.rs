//! bulk_select1_simd must return the position of the k-th set bit (0-based)
//! for every k, on whatever SIMD tier the host selects.

use zipora::succinct::rank_select::bulk_select1_simd;

fn naive_select1_all(words: &[u64]) -> Vec<usize> {
    let mut positions = Vec::new();
    for (w, &word) in words.iter().enumerate() {
        for b in 0..64 {
            if (word >> b) & 1 == 1 {
                positions.push(w * 64 + b);
            }
        }
    }
    positions
}

fn check(words: &[u64]) {
    let expected = naive_select1_all(words);
    let indices: Vec<usize> = (0..expected.len()).collect();
    let got = bulk_select1_simd(words, &indices).unwrap();
    assert_eq!(got.len(), expected.len(), "one result per index for {:x?}", words);
    for k in 0..expected.len() {
        assert_eq!(got[k], expected[k], "select1({}) over {:x?}", k, words);
    }
    assert!(bulk_select1_simd(words, &[expected.len()]).is_err());
}

#[test]
fn bulk_select1_second_one_of_a_word() {
    // ones at bit 0 and bit 1
    let got = bulk_select1_simd(&[0b11u64], &[0, 1]).unwrap();
    assert_eq!(got, vec![0, 1]);
}

#[test]
fn bulk_select1_matches_naive() {
    check(&[0b1011u64]);
    check(&[0x8000000000000001u64]);
    check(&[0xAAAAAAAAAAAAAAAAu64, 0x5555555555555555u64]);
    check(&[0u64, 0xF0F0u64, 0u64, 1u64 << 63, 0u64]);
    check(&[
        0xAAAAAAAAAAAAAAAAu64,
        0x5555555555555555u64,
        0xFFFFFFFFFFFFFFFFu64,
        0x0000000000000000u64,
        0x8000000000000001u64,
    ]);
}

#[test]
fn bulk_select1_full_word() {
    // 64 ones in one word: the last one needs the full in-word rank of 64
    check(&[u64::MAX]);
    check(&[0u64, u64::MAX, 7u64]);
}

#[test]
fn bulk_select1_pseudo_random() {
    let mut state = 0x9E3779B97F4A7C15u64;
    let words: Vec<u64> = (0..40)
        .map(|_| {
            state ^= state << 13;
            state ^= state >> 7;
            state ^= state << 17;
            state
        })
        .collect();
    check(&words);
}
