//! bulk_rank1_simd must agree with the naive rank1 for every position in
//! [0, 64 * words], including the position just past the last bit.

use zipora::succinct::rank_select::{bulk_popcount_simd, bulk_rank1_simd};

fn naive_rank1(words: &[u64], pos: usize) -> usize {
    (0..pos)
        .filter(|&i| (words[i / 64] >> (i % 64)) & 1 == 1)
        .count()
}

fn check(words: &[u64]) {
    let total_bits = words.len() * 64;
    let positions: Vec<usize> = (0..=total_bits).collect();
    let got = bulk_rank1_simd(words, &positions);
    assert_eq!(got.len(), positions.len());
    for &pos in &positions {
        assert_eq!(got[pos], naive_rank1(words, pos), "rank1({}) over {} words", pos, words.len());
    }
}

#[test]
fn bulk_rank1_at_end_is_total_ones() {
    let words = [u64::MAX, 0xAAAAAAAAAAAAAAAAu64];
    let total: usize = bulk_popcount_simd(&words).iter().sum();
    assert_eq!(total, 96);
    assert_eq!(bulk_rank1_simd(&words, &[127, 128]), vec![95, 96]);
}

#[test]
fn bulk_rank1_matches_naive_everywhere() {
    check(&[0b1011u64]);
    check(&[u64::MAX]);
    check(&[
        0xAAAAAAAAAAAAAAAAu64,
        0x5555555555555555u64,
        0xFFFFFFFFFFFFFFFFu64,
        0x0000000000000000u64,
        0x8000000000000001u64,
    ]);
    // enough words to go through the vectorised chunks as well
    let words: Vec<u64> = (0..19u64).map(|i| i.wrapping_mul(0x9E3779B97F4A7C15) | 1).collect();
    check(&words);
}
