//! RankSelectMixedIL256: rank at pos == len must be the total number of ones
//! for every length, including lengths that are a multiple of 256.

use zipora::{
    BitVector,
    succinct::rank_select::{RankSelectMixedIL256, RankSelectOps},
};

fn build(bits: &[bool]) -> BitVector {
    let mut bv = BitVector::new();
    for &b in bits {
        bv.push(b).unwrap();
    }
    bv
}

fn check_dim<R: RankSelectOps>(name: &str, view: &R, bits: &[bool]) {
    assert_eq!(view.len(), bits.len(), "{} len", name);
    let mut rank = 0;
    for i in 0..=bits.len() {
        assert_eq!(view.rank1(i), rank, "{} rank1({}) of {}", name, i, bits.len());
        assert_eq!(view.rank0(i), i - rank, "{} rank0({}) of {}", name, i, bits.len());
        if i < bits.len() && bits[i] {
            rank += 1;
        }
    }
    assert_eq!(view.count_ones(), rank, "{} count_ones", name);

    let ones: Vec<usize> = (0..bits.len()).filter(|&i| bits[i]).collect();
    for (k, &pos) in ones.iter().enumerate() {
        assert_eq!(view.select1(k).unwrap(), pos, "{} select1({})", name, k);
    }
    assert!(view.select1(ones.len()).is_err());
}

fn check(len0: usize, len1: usize) {
    let p0: Vec<bool> = (0..len0).map(|i| i % 3 == 0).collect();
    let p1: Vec<bool> = (0..len1).map(|i| i % 5 != 0).collect();
    let rs = RankSelectMixedIL256::new(build(&p0), build(&p1)).unwrap();
    check_dim("dim0", &rs.dim0(), &p0);
    check_dim("dim1", &rs.dim1(), &p1);
}

#[test]
fn rank_at_len_when_len_is_multiple_of_256() {
    let bits = vec![true; 256];
    let rs = RankSelectMixedIL256::new(build(&bits), build(&bits)).unwrap();
    assert_eq!(rs.rank1_dim(0, 256), 256);
    assert_eq!(rs.rank0_dim(1, 256), 0);
    assert_eq!(rs.dim0().rank1(256), rs.dim0().count_ones());
}

#[test]
fn matches_naive_for_line_aligned_lengths() {
    check(256, 256);
    check(512, 512);
    check(1024, 300);
    check(300, 1024);
}

#[test]
fn matches_naive_for_unaligned_lengths() {
    check(0, 0);
    check(1, 1);
    check(255, 257);
    check(1000, 1000);
}
