//! Demonstrations: storage strategies of `ZiporaTrie` whose back ends are stubs.
//!
//! One `#[test]` per reported (operation, strategy) pair.  Every test builds the trie with the
//! configuration preset that selects the strategy, checks that the preset really selected it,
//! runs a short history through the public API only, and asserts what a set of byte strings
//! (and the automaton view of it) must do.  All violations seen in the history are collected
//! and reported in one assertion message that names the operation and the strategy.
//!
//! `control_patricia_passes_every_history` runs the very same histories on the default
//! (Patricia) strategy, to show that the expectations are the ones the library itself meets
//! where the back end is implemented.

use zipora::fsa::{FiniteStateAutomaton, Trie, TrieStrategy, ZiporaTrie, ZiporaTrieConfig};
use zipora::memory::{SecureMemoryPool, SecurePoolConfig};

type T = ZiporaTrie; // default rank/select parameter

// ---------------------------------------------------------------------------------------------
// construction: preset -> strategy
// ---------------------------------------------------------------------------------------------

/// `ZiporaTrieConfig::string_specialized()` selects `TrieStrategy::CriticalBit`.
fn critical_bit() -> T {
    let t: T = ZiporaTrie::with_config(ZiporaTrieConfig::string_specialized());
    assert!(
        matches!(t.config().trie_strategy, TrieStrategy::CriticalBit { .. }),
        "precondition: string_specialized() must select CriticalBit, got {:?}",
        t.config().trie_strategy
    );
    t
}

/// `ZiporaTrieConfig::concurrent_high_performance(pool)` selects `TrieStrategy::DoubleArray`.
fn double_array() -> T {
    let pool = SecureMemoryPool::new(SecurePoolConfig::small_secure())
        .expect("precondition: SecureMemoryPool::new(small_secure())");
    let t: T = ZiporaTrie::with_config(ZiporaTrieConfig::concurrent_high_performance(pool));
    assert!(
        matches!(t.config().trie_strategy, TrieStrategy::DoubleArray { .. }),
        "precondition: concurrent_high_performance() must select DoubleArray, got {:?}",
        t.config().trie_strategy
    );
    t
}

/// `ZiporaTrieConfig::space_optimized()` selects `TrieStrategy::Louds`.
fn louds() -> T {
    let t: T = ZiporaTrie::with_config(ZiporaTrieConfig::space_optimized());
    assert!(
        matches!(t.config().trie_strategy, TrieStrategy::Louds { .. }),
        "precondition: space_optimized() must select Louds, got {:?}",
        t.config().trie_strategy
    );
    t
}

/// `ZiporaTrieConfig::sparse_optimized()` selects `TrieStrategy::CompressedSparse`.
fn compressed_sparse() -> T {
    let t: T = ZiporaTrie::with_config(ZiporaTrieConfig::sparse_optimized());
    assert!(
        matches!(t.config().trie_strategy, TrieStrategy::CompressedSparse { .. }),
        "precondition: sparse_optimized() must select CompressedSparse, got {:?}",
        t.config().trie_strategy
    );
    t
}

/// Default configuration: `TrieStrategy::Patricia` (the implemented reference).
fn patricia() -> T {
    let t: T = ZiporaTrie::new();
    assert!(matches!(t.config().trie_strategy, TrieStrategy::Patricia { .. }));
    t
}

fn s(k: &[u8]) -> String {
    format!("{:?}", String::from_utf8_lossy(k))
}

fn sorted(mut v: Vec<Vec<u8>>) -> Vec<Vec<u8>> {
    v.sort();
    v
}

fn show(v: &[Vec<u8>]) -> String {
    let parts: Vec<String> = v.iter().map(|k| s(k)).collect();
    format!("[{}]", parts.join(", "))
}

fn verdict(op: &str, strategy: &str, violations: Vec<String>) {
    for v in &violations {
        println!("  VIOLATION {op} / {strategy}: {v}");
    }
    assert!(
        violations.is_empty(),
        "{op} / {strategy}: {} violation(s) of the set contract:\n  - {}",
        violations.len(),
        violations.join("\n  - ")
    );
}

// ---------------------------------------------------------------------------------------------
// histories (shared by the demonstrations and by the Patricia control)
// ---------------------------------------------------------------------------------------------

/// insert: a key whose insertion succeeded must be recorded *somewhere*.  The check does not
/// rely on `contains` alone: any one of contains / keys / accepts / lookup_node_id is enough,
/// and the trie must own at least one state.
fn history_insert(t: &mut T) -> Vec<String> {
    let mut v = Vec::new();
    let mut ids = Vec::new();
    for k in [&b"alpha"[..], &b"beta"[..]] {
        match <T as Trie>::insert(t, k) {
            Ok(id) => ids.push(id),
            Err(e) => v.push(format!("insert({}) returned Err({e})", s(k))),
        }
    }
    println!("  Trie::insert returned state ids {ids:?}; len() = {}; state_count() = {}", t.len(), t.state_count());
    if t.len() != 2 {
        v.push(format!("len() = {} after inserting 2 distinct keys, expected 2", t.len()));
    }
    for k in [&b"alpha"[..], &b"beta"[..]] {
        let seen = [
            ("contains", t.contains(k)),
            ("keys", t.keys().iter().any(|x| x == k)),
            ("accepts", t.accepts(k)),
            ("lookup_node_id", t.lookup_node_id(k).is_some()),
        ];
        println!("  after insert({}): {:?}", s(k), seen);
        if !seen.iter().any(|(_, b)| *b) {
            v.push(format!(
                "insert({}) returned Ok and len() counted it, but the key is not observable through any of contains/keys/accepts/lookup_node_id: the key was dropped",
                s(k)
            ));
        }
    }
    if t.state_count() == 0 {
        v.push(format!(
            "state_count() = 0 after {} successful inserts: nothing was stored",
            ids.len()
        ));
    }
    v
}

/// contains: true for an inserted key, false for others, and (through `insert`, which asks
/// `contains` whether the key is new) re-inserting a key must not grow `len()`.
fn history_contains(t: &mut T) -> Vec<String> {
    let mut v = Vec::new();
    t.insert(b"alpha").expect("insert must not fail");
    println!("  insert(\"alpha\") -> Ok, len() = {}", t.len());
    if !t.contains(b"alpha") {
        v.push(format!(
            "contains(\"alpha\") = false right after insert(\"alpha\") returned Ok (len() = {})",
            t.len()
        ));
    }
    if t.contains(b"alp") {
        v.push("contains(\"alp\") = true for a proper prefix that was never inserted".into());
    }
    if t.contains(b"zeta") {
        v.push("contains(\"zeta\") = true for a key that was never inserted".into());
    }
    t.insert(b"alpha").expect("insert must not fail");
    println!("  insert(\"alpha\") again -> Ok, len() = {}", t.len());
    if t.len() != 1 {
        v.push(format!(
            "len() = {} after inserting the same key twice, expected 1 (insert consults contains to detect duplicates)",
            t.len()
        ));
    }
    v
}

/// remove: removing a present key returns Ok(true), the key is gone, len() shrinks, other keys
/// stay; removing it again returns Ok(false).
fn history_remove(t: &mut T) -> Vec<String> {
    let mut v = Vec::new();
    t.insert(b"alpha").expect("insert must not fail");
    t.insert(b"beta").expect("insert must not fail");
    let before = (t.contains(b"alpha"), t.contains(b"beta"), t.len());
    println!("  before remove: contains(alpha)={}, contains(beta)={}, len()={}", before.0, before.1, before.2);
    let r = t.remove(b"alpha");
    let after = (t.contains(b"alpha"), t.contains(b"beta"), t.len());
    println!("  remove(\"alpha\") -> {:?}; contains(alpha)={}, contains(beta)={}, len()={}", r, after.0, after.1, after.2);
    match r {
        Ok(true) => {}
        Ok(false) => v.push(format!(
            "remove(\"alpha\") returned Ok(false) although the key was inserted (contains before = {}, len() before = {})",
            before.0, before.2
        )),
        Err(e) => v.push(format!("remove(\"alpha\") returned Err({e})")),
    }
    if after.0 {
        v.push("contains(\"alpha\") is still true after remove(\"alpha\")".into());
    }
    if after.2 != before.2 - 1 {
        v.push(format!("len() = {} after remove, expected {}", after.2, before.2 - 1));
    }
    if after.1 != before.1 {
        v.push("remove(\"alpha\") changed the membership of \"beta\"".into());
    }
    v
}

/// keys: exactly the inserted keys.
fn history_keys(t: &mut T) -> Vec<String> {
    let mut v = Vec::new();
    let want: Vec<Vec<u8>> = vec![b"car".to_vec(), b"cat".to_vec(), b"dog".to_vec()];
    for k in &want {
        t.insert(k).expect("insert must not fail");
    }
    let got = sorted(t.keys());
    println!("  len() = {}, keys() = {}", t.len(), show(&got));
    if got != want {
        v.push(format!(
            "keys() = {} after inserting {} (len() = {})",
            show(&got),
            show(&want),
            t.len()
        ));
    }
    v
}

/// keys_with_prefix: exactly the inserted keys that start with the prefix.
fn history_keys_with_prefix(t: &mut T) -> Vec<String> {
    let mut v = Vec::new();
    for k in [&b"car"[..], &b"cat"[..], &b"dog"[..]] {
        t.insert(k).expect("insert must not fail");
    }
    let want: Vec<Vec<u8>> = vec![b"car".to_vec(), b"cat".to_vec()];
    let got = sorted(t.keys_with_prefix(b"ca"));
    println!("  len() = {}, keys_with_prefix(\"ca\") = {}", t.len(), show(&got));
    if got != want {
        v.push(format!(
            "keys_with_prefix(\"ca\") = {}, expected {} (len() = {})",
            show(&got),
            show(&want),
            t.len()
        ));
    }
    let none = t.keys_with_prefix(b"x");
    if !none.is_empty() {
        v.push(format!("keys_with_prefix(\"x\") = {}, expected []", show(&none)));
    }
    v
}

/// is_final: (a) the state id `Trie::insert` hands back for a key is an accepting state;
/// (b) with the empty key in the set the root is accepting -- `accepts(b"")` performs no
/// transition at all, so it isolates `is_final` from `transition`.
fn history_is_final(t: &mut T) -> Vec<String> {
    let mut v = Vec::new();
    <T as Trie>::insert(t, b"x").expect("insert must not fail");
    let id = <T as Trie>::insert(t, b"ab").expect("insert must not fail");
    let member = t.contains(b"ab");
    println!("  Trie::insert(\"ab\") -> state {id}; contains(\"ab\") = {member}; is_final({id}) = {}", t.is_final(id));
    if member && !t.is_final(id) {
        v.push(format!(
            "is_final({id}) = false for the state id Trie::insert(\"ab\") returned, while contains(\"ab\") = true"
        ));
    }
    t.insert(b"").expect("insert of the empty key must not fail");
    let empty_member = t.contains(b"");
    let root = t.root();
    println!(
        "  insert(\"\") -> Ok; contains(\"\") = {empty_member}; is_final(root={root}) = {}; accepts(\"\") = {}",
        t.is_final(root),
        t.accepts(b"")
    );
    if empty_member && !t.is_final(root) {
        v.push("is_final(root) = false although contains(\"\") = true".into());
    }
    if t.accepts(b"") != empty_member {
        v.push(format!(
            "accepts(\"\") = {} disagrees with contains(\"\") = {} (accepts(\"\") is is_final(root), no transition involved)",
            t.accepts(b""),
            empty_member
        ));
    }
    v
}

/// transition: with "ab" in the set there is an edge labelled 'a' out of the root; the derived
/// default methods accepts / longest_prefix then agree with contains.
fn history_transition(t: &mut T) -> Vec<String> {
    let mut v = Vec::new();
    t.insert(b"ab").expect("insert must not fail");
    let member = t.contains(b"ab");
    let root = t.root();
    let step = t.transition(root, b'a');
    println!("  contains(\"ab\") = {member}; transition(root={root}, 'a') = {step:?}");
    if member && step.is_none() {
        v.push("transition(root, 'a') = None although contains(\"ab\") = true".into());
    }
    if let Some(s1) = step {
        if t.transition(s1, b'b').is_none() {
            v.push(format!("transition({s1}, 'b') = None although contains(\"ab\") = true"));
        }
    }
    if t.transition(root, b'z').is_some() {
        v.push("transition(root, 'z') = Some(_) although no key starts with 'z'".into());
    }
    println!(
        "  accepts(\"ab\") = {}; longest_prefix(\"abc\") = {:?}",
        t.accepts(b"ab"),
        t.longest_prefix(b"abc")
    );
    if t.accepts(b"ab") != member {
        v.push(format!(
            "derived: accepts(\"ab\") = {} disagrees with contains(\"ab\") = {}",
            t.accepts(b"ab"),
            member
        ));
    }
    if member && t.longest_prefix(b"abc") != Some(2) {
        v.push(format!(
            "derived: longest_prefix(\"abc\") = {:?}, expected Some(2)",
            t.longest_prefix(b"abc")
        ));
    }
    v
}

/// transitions: the outgoing edges of the root are the first bytes of the stored keys, and
/// every edge `transition` knows must be enumerated by `transitions`.
fn history_transitions(t: &mut T) -> Vec<String> {
    let mut v = Vec::new();
    for k in [&b"a"[..], &b"b"[..], &b"bc"[..]] {
        t.insert(k).expect("insert must not fail");
    }
    let root = t.root();
    let mut got: Vec<u8> = t.transitions(root).map(|(sym, _)| sym).collect();
    got.sort();
    let via_transition: Vec<u8> = (0u8..=255).filter(|&c| t.transition(root, c).is_some()).collect();
    println!(
        "  len() = {}; contains(a,b,bc) = ({}, {}, {}); transitions(root) symbols = {:?}; symbols with transition(root, c) = Some: {:?}",
        t.len(),
        t.contains(b"a"),
        t.contains(b"b"),
        t.contains(b"bc"),
        got.iter().map(|&c| c as char).collect::<Vec<_>>(),
        via_transition.iter().map(|&c| c as char).collect::<Vec<_>>()
    );
    if got != vec![b'a', b'b'] {
        v.push(format!(
            "transitions(root) yields symbols {:?} after inserting \"a\", \"b\", \"bc\" (len() = {}), expected ['a', 'b']",
            got.iter().map(|&c| c as char).collect::<Vec<_>>(),
            t.len()
        ));
    }
    for c in via_transition {
        if !got.contains(&c) {
            v.push(format!(
                "transition(root, {:?}) = Some(_) but transitions(root) does not list that edge",
                c as char
            ));
        }
    }
    v
}

// ---------------------------------------------------------------------------------------------
// control: the same histories on the implemented strategy
// ---------------------------------------------------------------------------------------------

#[test]
fn control_patricia_passes_every_history() {
    let mut all = Vec::new();
    let histories: [(&str, fn(&mut T) -> Vec<String>); 8] = [
        ("insert", history_insert),
        ("contains", history_contains),
        ("remove", history_remove),
        ("keys", history_keys),
        ("keys_with_prefix", history_keys_with_prefix),
        ("is_final", history_is_final),
        ("transition", history_transition),
        ("transitions", history_transitions),
    ];
    for (op, h) in histories {
        println!("control {op} / Patricia");
        for x in h(&mut patricia()) {
            all.push(format!("{op}: {x}"));
        }
    }
    verdict("control (all histories)", "Patricia", all);
}

// ---------------------------------------------------------------------------------------------
// demonstrations: one per reported (operation, strategy) pair
// ---------------------------------------------------------------------------------------------

#[test]
fn insert_critical_bit_drops_the_key() {
    let v = history_insert(&mut critical_bit());
    verdict("insert", "CriticalBit", v);
}

#[test]
fn contains_critical_bit_is_always_false() {
    let v = history_contains(&mut critical_bit());
    verdict("contains", "CriticalBit", v);
}

#[test]
fn remove_critical_bit_is_a_noop() {
    let v = history_remove(&mut critical_bit());
    verdict("remove", "CriticalBit", v);
}

#[test]
fn remove_double_array_is_a_noop() {
    let v = history_remove(&mut double_array());
    verdict("remove", "DoubleArray", v);
}

#[test]
fn remove_louds_is_a_noop() {
    let v = history_remove(&mut louds());
    verdict("remove", "Louds", v);
}

#[test]
fn remove_compressed_sparse_is_a_noop() {
    let v = history_remove(&mut compressed_sparse());
    verdict("remove", "CompressedSparse", v);
}

#[test]
fn keys_critical_bit_is_empty() {
    let v = history_keys(&mut critical_bit());
    verdict("keys", "CriticalBit", v);
}

#[test]
fn keys_with_prefix_critical_bit_is_empty() {
    let v = history_keys_with_prefix(&mut critical_bit());
    verdict("keys_with_prefix", "CriticalBit", v);
}

#[test]
fn is_final_louds_ignores_the_storage() {
    let v = history_is_final(&mut louds());
    verdict("FiniteStateAutomaton::is_final", "Louds", v);
}

#[test]
fn transition_louds_ignores_the_storage() {
    let v = history_transition(&mut louds());
    verdict("FiniteStateAutomaton::transition", "Louds", v);
}

#[test]
fn transitions_critical_bit_yields_nothing() {
    let v = history_transitions(&mut critical_bit());
    verdict("FiniteStateAutomaton::transitions", "CriticalBit", v);
}

#[test]
fn transitions_louds_yields_nothing() {
    let v = history_transitions(&mut louds());
    verdict("FiniteStateAutomaton::transitions", "Louds", v);
}

#[test]
fn transitions_compressed_sparse_yields_nothing() {
    let v = history_transitions(&mut compressed_sparse());
    verdict("FiniteStateAutomaton::transitions", "CompressedSparse", v);
}
