//! C06: SmallMap<u8, V>::get_fast(&0) on an inline map with 5..8 entries that does not contain key 0. The SSE2 helper
//! copies the `len` keys into a zero-filled 8-byte scratch array, compares all 16 lanes of the register with the search
//! key and takes the first matching lane: for key 0 that is a padding lane, so a value of another key (or an
//! uninitialised / out-of-bounds slot) is returned instead of None.

use zipora::containers::specialized::SmallMap;

#[test]
fn present_keys_control() {
    let mut m: SmallMap<u8, u32> = SmallMap::new();
    for k in 1..=6u8 {
        m.insert(k, k as u32 * 100).unwrap();
    }
    for k in 1..=6u8 {
        assert_eq!(m.get_fast(&k), Some(&(k as u32 * 100)));
    }
}

#[test]
fn absent_key_zero() {
    let mut m: SmallMap<u8, u32> = SmallMap::new();
    for k in 1..=6u8 {
        m.insert(k, k as u32 * 100).unwrap();
    }
    assert_eq!(m.get(&0), None, "generic lookup");
    let r = std::panic::catch_unwind(std::panic::AssertUnwindSafe(|| m.get_fast(&0).copied()));
    assert_eq!(r.ok(), Some(None), "get_fast(&0) on a map without key 0");
}
