//! Demonstrations: storage strategies of `ZiporaHashMap` whose back ends are stubs.
//!
//! One `#[test]` per reported (operation, storage) pair: insert / get / get_mut / remove for the
//! SmallInline, CacheOptimized and StringOptimized storages.  Every test builds the map with
//! the configuration preset that selects the storage, checks that the preset really selected
//! it, runs a short history through the public API only, and asserts what a map must do.  All
//! violations seen in the history are collected and reported in one assertion message that
//! names the operation and the storage.
//!
//! `control_standard_passes_every_history` runs the very same histories on the default
//! (Standard) storage.

use zipora::hash_map::{StorageStrategy, ZiporaHashMap, ZiporaHashMapConfig};

type M = ZiporaHashMap<String, i32>;

// ---------------------------------------------------------------------------------------------
// construction: preset -> storage
// ---------------------------------------------------------------------------------------------

fn build(cfg: ZiporaHashMapConfig, expect: &str) -> M {
    let selected = match &cfg.storage_strategy {
        StorageStrategy::Standard { .. } => "Standard",
        StorageStrategy::SmallInline { .. } => "SmallInline",
        StorageStrategy::CacheOptimized { .. } => "CacheOptimized",
        StorageStrategy::StringOptimized { .. } => "StringOptimized",
        StorageStrategy::PoolAllocated { .. } => "PoolAllocated",
    };
    assert_eq!(selected, expect, "precondition: the preset must select the {expect} storage");
    let m: M = ZiporaHashMap::with_config(cfg)
        .unwrap_or_else(|e| panic!("precondition: with_config for {expect} failed: {e}"));
    assert!(m.is_empty(), "precondition: a fresh map is empty");
    m
}

/// `ZiporaHashMapConfig::small_inline(4)` selects `StorageStrategy::SmallInline`.
fn small_inline() -> M {
    build(ZiporaHashMapConfig::small_inline(4), "SmallInline")
}

/// `ZiporaHashMapConfig::cache_optimized()` selects `StorageStrategy::CacheOptimized`.
fn cache_optimized() -> M {
    build(ZiporaHashMapConfig::cache_optimized(), "CacheOptimized")
}

/// `ZiporaHashMapConfig::string_optimized()` selects `StorageStrategy::StringOptimized`.
fn string_optimized() -> M {
    build(ZiporaHashMapConfig::string_optimized(), "StringOptimized")
}

/// `ZiporaHashMapConfig::default()` selects `StorageStrategy::Standard` (the implemented one).
fn standard() -> M {
    build(ZiporaHashMapConfig::default(), "Standard")
}

fn k(s: &str) -> String {
    s.to_string()
}

fn verdict(op: &str, storage: &str, violations: Vec<String>) {
    for v in &violations {
        println!("  VIOLATION {op} / {storage}: {v}");
    }
    assert!(
        violations.is_empty(),
        "{op} / {storage}: {} violation(s) of the map contract:\n  - {}",
        violations.len(),
        violations.join("\n  - ")
    );
}

// ---------------------------------------------------------------------------------------------
// histories (shared by the demonstrations and by the Standard control)
// ---------------------------------------------------------------------------------------------

/// insert: judged without `get` -- through `len()`, `iter()` and the value the second insert of
/// the same key hands back.
fn history_insert(m: &mut M) -> Vec<String> {
    let mut v = Vec::new();
    let r1 = m.insert(k("one"), 1);
    println!("  insert(\"one\", 1) -> {:?}; len() = {}; iter().count() = {}", r1, m.len(), m.iter().count());
    match r1 {
        Ok(None) => {}
        other => v.push(format!("first insert(\"one\", 1) returned {other:?}, expected Ok(None)")),
    }
    if m.len() != 1 {
        v.push(format!("len() = {} after insert(\"one\", 1) returned Ok, expected 1: the entry was not stored", m.len()));
    }
    if m.is_empty() {
        v.push("is_empty() = true after a successful insert".into());
    }
    if m.iter().count() != 1 {
        v.push(format!("iter() yields {} entries after one successful insert, expected 1", m.iter().count()));
    }
    let r2 = m.insert(k("one"), 11);
    println!("  insert(\"one\", 11) -> {:?}; len() = {}", r2, m.len());
    match r2 {
        Ok(Some(1)) => {}
        other => v.push(format!(
            "insert(\"one\", 11) over an existing key returned {other:?}, expected Ok(Some(1)) (the previous value)"
        )),
    }
    let r3 = m.insert(k("two"), 2);
    println!("  insert(\"two\", 2) -> {:?}; len() = {}", r3, m.len());
    if m.len() != 2 {
        v.push(format!("len() = {} after inserting 2 distinct keys, expected 2", m.len()));
    }
    v
}

/// get: the value of an inserted key, None for an absent one.
fn history_get(m: &mut M) -> Vec<String> {
    let mut v = Vec::new();
    let r1 = m.insert(k("one"), 1);
    let r2 = m.insert(k("two"), 2);
    println!("  insert(\"one\", 1) -> {r1:?}; insert(\"two\", 2) -> {r2:?}");
    println!(
        "  get(\"one\") = {:?}; get(\"two\") = {:?}; get(\"three\") = {:?}; contains_key(\"one\") = {}",
        m.get("one"),
        m.get("two"),
        m.get("three"),
        m.contains_key("one")
    );
    if r1.is_err() || r2.is_err() {
        v.push(format!("precondition: insert failed ({r1:?}, {r2:?})"));
    }
    if m.get("one") != Some(&1) {
        v.push(format!("get(\"one\") = {:?} after insert(\"one\", 1) returned Ok, expected Some(1)", m.get("one")));
    }
    if m.get("two") != Some(&2) {
        v.push(format!("get(\"two\") = {:?} after insert(\"two\", 2) returned Ok, expected Some(2)", m.get("two")));
    }
    if !m.contains_key("one") {
        v.push("contains_key(\"one\") = false after insert(\"one\", 1) returned Ok (contains_key is get().is_some())".into());
    }
    if m.get("three").is_some() {
        v.push(format!("get(\"three\") = {:?} for a key never inserted", m.get("three")));
    }
    v
}

/// get_mut: a handle on the stored value; a write through it is seen by the next lookup.
fn history_get_mut(m: &mut M) -> Vec<String> {
    let mut v = Vec::new();
    let r1 = m.insert(k("one"), 1);
    println!("  insert(\"one\", 1) -> {r1:?}");
    if r1.is_err() {
        v.push(format!("precondition: insert failed ({r1:?})"));
    }
    match m.get_mut("one") {
        Some(slot) => {
            println!("  get_mut(\"one\") = Some({slot})");
            if *slot != 1 {
                v.push(format!("get_mut(\"one\") points at {slot}, expected 1"));
            }
            *slot += 10;
        }
        None => {
            println!("  get_mut(\"one\") = None");
            v.push("get_mut(\"one\") = None after insert(\"one\", 1) returned Ok, expected Some(&mut 1)".into());
        }
    }
    let again = m.get_mut("one").map(|x| *x);
    println!("  after `*slot += 10`: get_mut(\"one\") = {again:?}");
    if again != Some(11) {
        v.push(format!("second get_mut(\"one\") = {again:?}, expected Some(11) after writing through the first handle"));
    }
    if m.get_mut("three").is_some() {
        v.push("get_mut(\"three\") = Some(_) for a key never inserted".into());
    }
    v
}

/// remove: hands back the stored value, the entry is gone, len() shrinks, other entries stay.
fn history_remove(m: &mut M) -> Vec<String> {
    let mut v = Vec::new();
    let r1 = m.insert(k("one"), 1);
    let r2 = m.insert(k("two"), 2);
    println!("  insert(\"one\", 1) -> {r1:?}; insert(\"two\", 2) -> {r2:?}; len() = {}", m.len());
    if r1.is_err() || r2.is_err() {
        v.push(format!("precondition: insert failed ({r1:?}, {r2:?})"));
    }
    let removed = m.remove("one");
    println!("  remove(\"one\") -> {:?}; len() = {}", removed, m.len());
    if removed != Some(1) {
        v.push(format!("remove(\"one\") = {removed:?} after insert(\"one\", 1) returned Ok, expected Some(1)"));
    }
    if m.len() != 1 {
        v.push(format!("len() = {} after inserting 2 keys and removing 1, expected 1", m.len()));
    }
    let other = m.remove("two");
    println!("  remove(\"two\") -> {:?}; len() = {}", other, m.len());
    if other != Some(2) {
        v.push(format!("remove(\"two\") = {other:?}, expected Some(2) (the entry of \"two\" must survive remove(\"one\"))"));
    }
    let again = m.remove("one");
    if again.is_some() {
        v.push(format!("second remove(\"one\") = {again:?}, expected None"));
    }
    v
}

// ---------------------------------------------------------------------------------------------
// control: the same histories on the implemented storage
// ---------------------------------------------------------------------------------------------

#[test]
fn control_standard_passes_every_history() {
    let mut all = Vec::new();
    let histories: [(&str, fn(&mut M) -> Vec<String>); 4] = [
        ("insert", history_insert),
        ("get", history_get),
        ("get_mut", history_get_mut),
        ("remove", history_remove),
    ];
    for (op, h) in histories {
        println!("control {op} / Standard");
        for x in h(&mut standard()) {
            all.push(format!("{op}: {x}"));
        }
    }
    verdict("control (all histories)", "Standard", all);
}

// ---------------------------------------------------------------------------------------------
// demonstrations: one per reported (operation, storage) pair
// ---------------------------------------------------------------------------------------------

#[test]
fn insert_small_inline_stores_nothing() {
    let v = history_insert(&mut small_inline());
    verdict("insert", "SmallInline", v);
}

#[test]
fn get_small_inline_returns_none() {
    let v = history_get(&mut small_inline());
    verdict("get", "SmallInline", v);
}

#[test]
fn get_mut_small_inline_returns_none() {
    let v = history_get_mut(&mut small_inline());
    verdict("get_mut", "SmallInline", v);
}

#[test]
fn remove_small_inline_returns_none() {
    let v = history_remove(&mut small_inline());
    verdict("remove", "SmallInline", v);
}

#[test]
fn insert_cache_optimized_stores_nothing() {
    let v = history_insert(&mut cache_optimized());
    verdict("insert", "CacheOptimized", v);
}

#[test]
fn get_cache_optimized_returns_none() {
    let v = history_get(&mut cache_optimized());
    verdict("get", "CacheOptimized", v);
}

#[test]
fn get_mut_cache_optimized_returns_none() {
    let v = history_get_mut(&mut cache_optimized());
    verdict("get_mut", "CacheOptimized", v);
}

#[test]
fn remove_cache_optimized_returns_none() {
    let v = history_remove(&mut cache_optimized());
    verdict("remove", "CacheOptimized", v);
}

#[test]
fn insert_string_optimized_stores_nothing() {
    let v = history_insert(&mut string_optimized());
    verdict("insert", "StringOptimized", v);
}

#[test]
fn get_string_optimized_returns_none() {
    let v = history_get(&mut string_optimized());
    verdict("get", "StringOptimized", v);
}

#[test]
fn get_mut_string_optimized_returns_none() {
    let v = history_get_mut(&mut string_optimized());
    verdict("get_mut", "StringOptimized", v);
}

#[test]
fn remove_string_optimized_returns_none() {
    let v = history_remove(&mut string_optimized());
    verdict("remove", "StringOptimized", v);
}
