// Demonstration for C06 (R-TAINT-S): ZiporaHashMap stores the raw hash as occupancy marker
// (0 = empty, u64::MAX = deleted). With a caller-supplied hasher that can return those values
// the entry becomes invisible.
use std::hash::{BuildHasher, Hasher};
use zipora::hash_map::{ZiporaHashMap, ZiporaHashMapConfig};

#[derive(Default, Clone)]
struct IdentityBuild;
struct Identity(u64);
impl Hasher for Identity {
    fn finish(&self) -> u64 {
        self.0
    }
    fn write(&mut self, bytes: &[u8]) {
        for (i, b) in bytes.iter().enumerate().take(8) {
            self.0 |= (*b as u64) << (8 * i);
        }
    }
    fn write_u64(&mut self, v: u64) {
        self.0 = v;
    }
}
impl BuildHasher for IdentityBuild {
    type Hasher = Identity;
    fn build_hasher(&self) -> Identity {
        Identity(0)
    }
}

#[test]
fn keys_hashing_to_sentinels_behave_like_any_other_key() {
    let mut m: ZiporaHashMap<u64, &'static str, IdentityBuild> =
        ZiporaHashMap::with_config_and_hasher(ZiporaHashMapConfig::default(), IdentityBuild).unwrap();
    m.insert(0u64, "zero").unwrap(); // hash 0 == "empty slot"
    m.insert(u64::MAX, "max").unwrap(); // hash MAX == "tombstone"
    m.insert(7u64, "seven").unwrap();
    let got = (m.get(&0).copied(), m.get(&u64::MAX).copied(), m.get(&7).copied(), m.len());
    assert_eq!(got, (Some("zero"), Some("max"), Some("seven"), 3));
    assert_eq!(m.remove(&0), Some("zero"));
    assert_eq!(m.get(&0), None);
    assert_eq!(m.len(), 2);
}
