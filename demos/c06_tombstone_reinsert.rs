// Demonstration for C06: ZiporaHashMap::insert takes the first tombstone on the probe path without looking
// further, so updating a key that lives behind a removed colliding key inserts a second copy of it.
use std::hash::{BuildHasher, Hasher};
use zipora::hash_map::{ZiporaHashMap, ZiporaHashMapConfig};

#[derive(Default, Clone)]
struct IdentityBuild;
struct Identity(u64);
impl Hasher for Identity {
    fn finish(&self) -> u64 {
        self.0
    }
    fn write(&mut self, bytes: &[u8]) {
        for (i, b) in bytes.iter().enumerate().take(8) {
            self.0 |= (*b as u64) << (8 * i);
        }
    }
    fn write_u64(&mut self, v: u64) {
        self.0 = v;
    }
}
impl BuildHasher for IdentityBuild {
    type Hasher = Identity;
    fn build_hasher(&self) -> Identity {
        Identity(0)
    }
}

#[test]
fn update_of_a_key_behind_a_tombstone_does_not_duplicate_it() {
    let mut m: ZiporaHashMap<u64, &'static str, IdentityBuild> =
        ZiporaHashMap::with_config_and_hasher(ZiporaHashMapConfig::default(), IdentityBuild).unwrap();
    let a = 1u64;
    let b = 1u64 + (1u64 << 32); // same slot as `a` for every power-of-two table up to 2^32
    assert_eq!(m.insert(a, "a1").unwrap(), None);
    assert_eq!(m.insert(b, "b1").unwrap(), None); // probes past a
    assert_eq!(m.remove(&a), Some("a1")); // leaves a tombstone in front of b
    assert_eq!(m.insert(b, "b2").unwrap(), Some("b1"), "put on an existing key returns the old value");
    assert_eq!(m.len(), 1);
    assert_eq!(m.get(&b).copied(), Some("b2"));
    assert_eq!(m.remove(&b), Some("b2"));
    assert_eq!(m.get(&b), None, "a removed key must be gone");
    assert_eq!(m.len(), 0);
}
