//! C07 item 5: BumpAllocator::alloc_bytes computes `current + align - 1` and
//! `aligned_offset + size` unchecked.  A huge `size` panics with 'attempt to add
//! with overflow' where overflow checks are on (test/dev profile) and wraps
//! below `capacity` where they are off (release profile): the request is
//! "granted", the cursor moves BACKWARDS and later allocations overlap live ones.
//! Either way the pool does not refuse with an Err.
//!
//! The calls run in a child process (this test binary re-executed with
//! DEMO_C07_CHILD set) so that both the panic and the release-mode behaviour
//! are reported uniformly.  Single threaded, public API only.
//!
//!   cargo test --offline --test demo_c07_bump             (overflow checks on)
//!   cargo test --offline --release --test demo_c07_bump   (overflow checks off)

use std::process::Command;
use zipora::memory::BumpAllocator;

const ENV: &str = "DEMO_C07_CHILD";

fn run_child(test: &str, mode: &str) -> std::process::Output {
    let out = Command::new(std::env::current_exe().unwrap())
        .args(["--exact", test, "--nocapture", "--test-threads=1"])
        .env(ENV, mode)
        .output()
        .unwrap();
    println!("--- child `{test}` status: {:?}", out.status);
    println!("--- child stdout:\n{}", String::from_utf8_lossy(&out.stdout));
    println!("--- child stderr:\n{}", String::from_utf8_lossy(&out.stderr));
    out
}

fn is_child(mode: &str) -> bool {
    std::env::var(ENV).map(|v| v == mode).unwrap_or(false)
}

fn profile() -> &'static str {
    if cfg!(debug_assertions) { "overflow checks ON (test/dev profile)" } else { "overflow checks OFF (release profile)" }
}

#[test]
fn child_alloc_bytes() {
    if !is_child("alloc_bytes") {
        return;
    }
    println!("profile: {}", profile());
    let bump = BumpAllocator::new(1024).unwrap();

    // A live 16-byte allocation at offset 0..16.
    let first = bump.alloc_bytes(16, 8).unwrap();
    unsafe { std::ptr::write_bytes(first.as_ptr(), 0xAB, 16) };

    // 16 + (usize::MAX - 7) wraps to 8 <= capacity.
    let huge = usize::MAX - 7;
    let r = bump.alloc_bytes(huge, 8);
    println!("alloc_bytes({huge:#x}, 8) on a 1024-byte allocator -> {:?}", r.as_ref().map(|p| p.as_ptr()));
    println!(
        "allocated_bytes() = {:#x}, remaining_bytes() = {}, capacity() = {}",
        bump.allocated_bytes(),
        bump.remaining_bytes(),
        bump.capacity()
    );

    // Whatever happened above, `first` is still live: the next block must be disjoint from it.
    let next = bump.alloc_bytes(16, 8).unwrap();
    unsafe { std::ptr::write_bytes(next.as_ptr(), 0xCD, 16) };
    let first_now = unsafe { std::slice::from_raw_parts(first.as_ptr(), 16).to_vec() };
    println!("first = {:p}..+16 (live), next = {:p}..+16", first.as_ptr(), next.as_ptr());
    println!("first content after writing next: {:02x?}", first_now);

    assert!(r.is_err(), "a request of {huge:#x} bytes was granted by a pool of 1024 bytes");
    let (f, n) = (first.as_ptr() as usize, next.as_ptr() as usize);
    assert!(n >= f + 16 || f >= n + 16, "live allocations overlap");
    assert_eq!(first_now, vec![0xAB; 16]);
}

#[test]
fn huge_alloc_bytes_is_refused_with_err() {
    if std::env::var(ENV).is_ok() {
        return;
    }
    println!("profile: {}", profile());
    let out = run_child("child_alloc_bytes", "alloc_bytes");
    assert!(out.status.success(), "child failed: {:?}", out.status);
}

#[test]
fn child_alloc_slice() {
    if !is_child("alloc_slice") {
        return;
    }
    println!("profile: {}", profile());
    let bump = BumpAllocator::new(1024).unwrap();
    // size_of::<u64>() * count wraps to 8.
    let count = usize::MAX / 8 + 2;
    let r = bump.alloc_slice::<u64>(count);
    println!(
        "alloc_slice::<u64>({count:#x}) on a 1024-byte allocator -> {:?}, allocated_bytes() = {}",
        r.as_ref().map(|p| (p.as_ptr() as *mut u64, p.len())),
        bump.allocated_bytes()
    );
    assert!(r.is_err(), "a slice of {count:#x} u64 was granted by a pool of 1024 bytes");
}

#[test]
fn huge_alloc_slice_is_refused_with_err() {
    if std::env::var(ENV).is_ok() {
        return;
    }
    println!("profile: {}", profile());
    let out = run_child("child_alloc_slice", "alloc_slice");
    assert!(out.status.success(), "child failed: {:?}", out.status);
}
