//! C07 item 7: FixedCapacityAllocation holds `pool: *const FixedCapacityMemoryPool`
//! (no lifetime, no Arc) and calls `(*self.pool).deallocate(..)` in Drop.
//! Safe code can drop the pool while an allocation is alive; the allocation's
//! slice views and its Drop then touch freed memory.
//!
//! This file contains NO `unsafe`.  The dangerous part runs in a child process
//! (this test binary re-executed with DEMO_C07_CHILD set).  The pool is sized
//! 64 MiB so that glibc backs it with its own mmap region, which is unmapped
//! when the pool is dropped: the use-after-free is a deterministic SIGSEGV.

use std::process::Command;
use zipora::memory::{FixedCapacityAllocation, FixedCapacityMemoryPool, FixedCapacityPoolConfig};

const ENV: &str = "DEMO_C07_CHILD";

fn config() -> FixedCapacityPoolConfig {
    FixedCapacityPoolConfig {
        max_block_size: 64 * 1024,
        total_blocks: 1024, // 64 MiB backing region
        alignment: 16,
        enable_stats: true,
        eager_allocation: true,
        secure_clear: false,
    }
}

fn run_child(test: &str, mode: &str) -> std::process::Output {
    let out = Command::new(std::env::current_exe().unwrap())
        .args(["--exact", test, "--nocapture", "--test-threads=1"])
        .env(ENV, mode)
        .output()
        .unwrap();
    println!("--- child `{test}` status: {:?}", out.status);
    println!("--- child stdout:\n{}", String::from_utf8_lossy(&out.stdout));
    println!("--- child stderr:\n{}", String::from_utf8_lossy(&out.stderr));
    out
}

fn is_child(mode: &str) -> bool {
    std::env::var(ENV).map(|v| v == mode).unwrap_or(false)
}

/// Entirely safe code: the allocation escapes the scope of its pool.
fn allocation_outliving_its_pool() -> FixedCapacityAllocation {
    let pool = FixedCapacityMemoryPool::new(config()).unwrap();
    let mut a = pool.allocate(64).unwrap();
    a.as_mut_slice().fill(0xAB);
    println!("allocated {} bytes at {:p}, pool capacity {} bytes", a.size(), a.as_ptr(), pool.total_capacity());
    a
    // `pool` dropped here: backing memory deallocated, `a.pool` dangles
}

#[test]
fn child_read_after_pool_drop() {
    if !is_child("read") {
        return;
    }
    use std::io::Write;
    let a = allocation_outliving_its_pool();
    println!("pool dropped; reading the allocation through as_slice()");
    std::io::stdout().flush().unwrap();
    let v = a.as_slice().to_vec();
    println!("read {:02x?}...", &v[..8]);
    assert_eq!(v, vec![0xAB; 64]);
    std::mem::forget(a); // isolate the read from the Drop
}

#[test]
fn allocation_stays_readable_after_pool_is_dropped() {
    if std::env::var(ENV).is_ok() {
        return;
    }
    let out = run_child("child_read_after_pool_drop", "read");
    assert!(out.status.success(), "child failed: {:?}", out.status);
}

#[test]
fn child_drop_after_pool_drop() {
    if !is_child("drop") {
        return;
    }
    use std::io::Write;
    let a = allocation_outliving_its_pool();
    // Some unrelated stack/heap activity where the pool used to live.
    let noise: Vec<Vec<u8>> = (0..32).map(|i| vec![i as u8; 256]).collect();
    println!("pool dropped; dropping the allocation ({} noise vecs)", noise.len());
    std::io::stdout().flush().unwrap();
    drop(a); // (*self.pool).deallocate(..) on a dead pool
    println!("allocation dropped");
}

#[test]
fn allocation_can_be_dropped_after_pool_is_dropped() {
    if std::env::var(ENV).is_ok() {
        return;
    }
    let out = run_child("child_drop_after_pool_drop", "drop");
    assert!(out.status.success(), "child failed: {:?}", out.status);
}
