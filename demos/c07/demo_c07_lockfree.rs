//! C07 item 1: LockFreeMemoryPool carves the 8-byte-aligned *request* on a
//! free-list miss but files freed blocks under the *size class*.  A block that
//! was carved for a small request of a class is later handed out for a larger
//! request of the same class and overlaps its neighbour.
//!
//! Single threaded, public API only.

use std::ptr::NonNull;
use zipora::memory::{LockFreeMemoryPool, LockFreePoolConfig};

fn pool(memory_size: usize) -> LockFreeMemoryPool {
    let mut cfg = LockFreePoolConfig::compact();
    cfg.memory_size = memory_size;
    LockFreeMemoryPool::new(cfg).unwrap()
}

fn fill(p: NonNull<u8>, len: usize, byte: u8) {
    unsafe { std::ptr::write_bytes(p.as_ptr(), byte, len) }
}

fn read(p: NonNull<u8>, len: usize) -> Vec<u8> {
    unsafe { std::slice::from_raw_parts(p.as_ptr(), len).to_vec() }
}

/// allocate(130), allocate(8), free the first, allocate(144): the 144-byte
/// allocation is live together with the 8-byte neighbour and must not overlap it.
#[test]
fn same_class_reuse_must_not_overlap_live_neighbour() {
    let pool = pool(64 * 1024);

    let a = pool.allocate(130).unwrap(); // class 144
    let b = pool.allocate(8).unwrap(); // the neighbour
    fill(a, 130, 0xA1);
    fill(b, 8, 0xB2);

    pool.deallocate(a, 130).unwrap(); // filed under class 144

    let c = pool.allocate(144).unwrap(); // class 144: gets a's block back
    let (b_lo, b_hi) = (b.as_ptr() as usize, b.as_ptr() as usize + 8);
    let (c_lo, c_hi) = (c.as_ptr() as usize, c.as_ptr() as usize + 144);
    println!("a     = {:#x}..{:#x} (requested 130)", a.as_ptr() as usize, a.as_ptr() as usize + 130);
    println!("b     = {:#x}..{:#x} (requested 8, live)", b_lo, b_hi);
    println!("c     = {:#x}..{:#x} (requested 144, live)", c_lo, c_hi);

    // c is entitled to 144 bytes: use them.
    fill(c, 144, 0xC3);
    let b_now = read(b, 8);
    println!("b content after writing c's 144 bytes: {:02x?}", b_now);

    let overlap = c_lo < b_hi && b_lo < c_hi;
    assert!(
        !overlap,
        "live allocations overlap: b={:#x}..{:#x} c={:#x}..{:#x} (b starts {} bytes into c)",
        b_lo, b_hi, c_lo, c_hi, b_lo - c_lo
    );
    assert_eq!(b_now, vec![0xB2; 8], "neighbour lost the bytes written to it");

    pool.deallocate(b, 8).unwrap();
    pool.deallocate(c, 144).unwrap();
}
