//! C07 item 1 (side note): `LockFreeMemoryPool::allocate_new_block` advances
//! the u32 cursor `next_offset` with `fetch_add` BEFORE the capacity test, so a
//! refused request still consumes address space, and refused requests can wrap
//! the cursor back onto live blocks.
//!
//! Single threaded, public API only.

use std::ptr::NonNull;
use zipora::memory::{LockFreeMemoryPool, LockFreePoolConfig};

fn pool(memory_size: usize) -> LockFreeMemoryPool {
    let mut cfg = LockFreePoolConfig::compact();
    cfg.memory_size = memory_size;
    LockFreeMemoryPool::new(cfg).unwrap()
}

fn fill(p: NonNull<u8>, len: usize, byte: u8) {
    unsafe { std::ptr::write_bytes(p.as_ptr(), byte, len) }
}

/// Observability of `next_offset.fetch_add` happening BEFORE the capacity test
/// in `allocate_new_block`: a refused request still consumes address space.
#[test]
fn refused_request_must_not_consume_capacity() {
    let pool = pool(64 * 1024);

    let first = pool.allocate(64).unwrap();
    // 1 MiB does not fit in a 64 KiB pool: must be refused ...
    assert!(pool.allocate(1024 * 1024).is_err());
    // ... and a refusal must leave the pool usable: 64 bytes still fit easily.
    let after = pool.allocate(64);
    println!("allocate(64) after a refused 1 MiB request: {:?}", after.as_ref().map(|p| p.as_ptr()));
    assert!(
        after.is_ok(),
        "pool with ~64 KiB free refuses 64 bytes after one refused oversized request: {:?}",
        after.err()
    );
    pool.deallocate(first, 64).unwrap();
}

/// Same root cause, worse outcome: the cursor is a u32 that keeps advancing on
/// refused requests, so two refused ~2 GiB requests (together 2^32 - 16384)
/// wrap it back to the start and the next allocation is handed the bytes of a
/// live allocation.
#[test]
fn refused_requests_must_not_wrap_cursor_onto_live_block() {
    let pool = pool(64 * 1024);

    let live = pool.allocate(16384).unwrap(); // above fast bins: always carved
    fill(live, 16384, 0x5A);

    assert!(pool.allocate(1usize << 31).is_err());
    assert!(pool.allocate((1usize << 31) - 16384).is_err());

    match pool.allocate(16384) {
        Err(e) => println!("third request refused: {e}"),
        Ok(p) => {
            println!("live = {:p}, new = {:p}", live.as_ptr(), p.as_ptr());
            assert_ne!(
                p.as_ptr(),
                live.as_ptr(),
                "pool handed out the address of a block that is still live"
            );
        }
    }
}
