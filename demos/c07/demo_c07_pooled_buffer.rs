//! C07 item 6: PooledBuffer::new(size) takes ONE chunk from the global pool
//! chosen by size (small 1 KiB / medium 64 KiB / large 1 MiB chunks) and
//! builds a view with `len = size`.  For size > 1 MiB the large pool's chunk is
//! only 1 MiB, so `as_mut_slice()` extends past the block.
//!
//! The dangerous part runs in a child process (this test binary re-executed
//! with DEMO_C07_CHILD set).  Single threaded, public API only.

use std::process::Command;
use zipora::memory::{PoolConfig, PooledBuffer};

const ENV: &str = "DEMO_C07_CHILD";
const MIB: usize = 1024 * 1024;

fn run_child(test: &str, mode: &str) -> std::process::Output {
    let out = Command::new(std::env::current_exe().unwrap())
        .args(["--exact", test, "--nocapture", "--test-threads=1"])
        .env(ENV, mode)
        .output()
        .unwrap();
    println!("--- child `{test}` status: {:?}", out.status);
    println!("--- child stdout:\n{}", String::from_utf8_lossy(&out.stdout));
    println!("--- child stderr:\n{}", String::from_utf8_lossy(&out.stderr));
    out
}

fn is_child(mode: &str) -> bool {
    std::env::var(ENV).map(|v| v == mode).unwrap_or(false)
}

/// Safe to run in-process: only looks at the result and the reported length.
#[test]
fn oversized_buffer_is_refused() {
    if std::env::var(ENV).is_ok() {
        return;
    }
    let chunk = PoolConfig::large().chunk_size;
    println!("large pool chunk_size = {chunk} bytes");
    assert_eq!(chunk, MIB);

    // Exactly one chunk is fine.
    assert_eq!(PooledBuffer::new(chunk).unwrap().len(), chunk);

    let r = PooledBuffer::new(2 * MIB);
    println!("PooledBuffer::new(2 MiB) -> {:?}", r.as_ref().map(|b| b.len()).map_err(|e| e.to_string()));
    assert!(
        r.is_err(),
        "PooledBuffer::new(2 MiB) returned a {}-byte view over a {}-byte chunk",
        r.as_ref().unwrap().len(),
        chunk
    );
}

/// Two live 2 MiB buffers: fill the first, then fill the second through its safe
/// `as_mut_slice()`; the first must keep its bytes.
#[test]
fn child_two_buffers() {
    if !is_child("two") {
        return;
    }
    use std::io::Write;
    let (mut a, mut b) = match (PooledBuffer::new(2 * MIB), PooledBuffer::new(2 * MIB)) {
        (Ok(a), Ok(b)) => (a, b),
        (a, b) => {
            println!("refused: {:?} / {:?}", a.err().map(|e| e.to_string()), b.err().map(|e| e.to_string()));
            return; // correct behaviour
        }
    };
    let (a_lo, b_lo) = (a.as_slice().as_ptr() as usize, b.as_slice().as_ptr() as usize);
    println!("a = {:#x}..{:#x} (len {})", a_lo, a_lo + a.len(), a.len());
    println!("b = {:#x}..{:#x} (len {})", b_lo, b_lo + b.len(), b.len());
    let overlap = a_lo < b_lo + b.len() && b_lo < a_lo + a.len();
    println!("ranges of the two live buffers overlap: {overlap}");
    std::io::stdout().flush().unwrap();

    a.as_mut_slice()[..MIB].fill(0xAA); // stays inside a's real chunk
    b.as_mut_slice().fill(0xBB); // 2 MiB through a 1 MiB chunk
    let damaged = a.as_slice()[..MIB].iter().filter(|&&x| x != 0xAA).count();
    println!("bytes of a's first MiB changed by filling b: {damaged}");
    std::io::stdout().flush().unwrap();
    assert!(!overlap, "live buffers overlap");
    assert_eq!(damaged, 0, "buffer a lost bytes written to it");
}

#[test]
fn two_oversized_buffers_do_not_corrupt_each_other() {
    if std::env::var(ENV).is_ok() {
        return;
    }
    let out = run_child("child_two_buffers", "two");
    assert!(out.status.success(), "child failed: {:?}", out.status);
}

/// One 64 MiB buffer written end to end through the safe slice.
#[test]
fn child_write_all() {
    if !is_child("write_all") {
        return;
    }
    use std::io::Write;
    let mut buf = match PooledBuffer::new(64 * MIB) {
        Ok(b) => b,
        Err(e) => {
            println!("refused: {e}");
            return; // correct behaviour
        }
    };
    println!("PooledBuffer::new(64 MiB) -> Ok, len = {}", buf.len());
    std::io::stdout().flush().unwrap();
    buf.as_mut_slice().fill(0x77);
    println!("filled {} bytes", buf.len());
}

#[test]
fn writing_full_length_of_oversized_buffer_is_safe() {
    if std::env::var(ENV).is_ok() {
        return;
    }
    let out = run_child("child_write_all", "write_all");
    assert!(out.status.success(), "child failed: {:?}", out.status);
}
