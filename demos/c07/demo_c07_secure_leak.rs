//! C07 item 4: SecureMemoryPool::deallocate_internal does
//!   `if local_cache.try_push(chunk).is_err() { pop another chunk -> global }`
//! `try_push` returns `Err(chunk)` when the thread-local cache is full and
//! `.is_err()` throws that chunk away.  SecureChunk has no Drop, so the freed
//! chunk is neither reused nor released: "freeing returns the block for reuse"
//! is violated and memory grows without bound.
//!
//! Single threaded, public API only.

use std::collections::HashSet;
use zipora::memory::{SecureMemoryPool, SecurePoolConfig};

const N: usize = 10;

fn pool() -> std::sync::Arc<SecureMemoryPool> {
    let cfg = SecurePoolConfig::new(256, 100, 8).with_local_cache_size(2);
    SecureMemoryPool::new(cfg).unwrap()
}

/// Free N chunks, allocate N chunks again: every one of them must be served
/// from the chunks that were just freed (no new chunk may be created).
#[test]
fn freed_chunks_are_all_available_for_reuse() {
    let pool = pool();

    let round1: Vec<_> = (0..N).map(|_| pool.allocate().unwrap()).collect();
    let addrs1: HashSet<usize> = round1.iter().map(|p| p.as_ptr() as usize).collect();
    assert_eq!(addrs1.len(), N);
    let s1 = pool.stats();
    println!("round 1: pool_misses (new chunks) = {}, pool_hits = {}", s1.pool_misses, s1.pool_hits);
    drop(round1); // N frees
    let s1f = pool.stats();
    println!("after freeing: dealloc_count = {}", s1f.dealloc_count);
    assert_eq!(s1f.dealloc_count, N as u64);

    let round2: Vec<_> = (0..N).map(|_| pool.allocate().unwrap()).collect();
    let s2 = pool.stats();
    let fresh: Vec<usize> = round2
        .iter()
        .map(|p| p.as_ptr() as usize)
        .filter(|a| !addrs1.contains(a))
        .collect();
    println!(
        "round 2: pool_misses (new chunks) = {}, pool_hits = {}, chunks not seen in round 1 = {}",
        s2.pool_misses - s1.pool_misses,
        s2.pool_hits - s1.pool_hits,
        fresh.len()
    );
    assert_eq!(
        s2.pool_misses - s1.pool_misses,
        0,
        "{} chunks were freed but only {} could be reused; {} new chunks had to be created",
        N,
        s2.pool_hits - s1.pool_hits,
        s2.pool_misses - s1.pool_misses
    );
    assert!(fresh.is_empty());
}

/// With at most N chunks live at any time the pool must never own more than N
/// chunks, however many allocate/free rounds are run.
#[test]
fn chunk_count_is_bounded_across_rounds() {
    let pool = pool();
    let mut seen: HashSet<usize> = HashSet::new();
    for round in 0..50 {
        let live: Vec<_> = (0..N).map(|_| pool.allocate().unwrap()).collect();
        seen.extend(live.iter().map(|p| p.as_ptr() as usize));
        drop(live);
        if round % 10 == 9 {
            println!(
                "after round {:2}: chunks created so far = {}, distinct addresses = {}",
                round + 1,
                pool.stats().pool_misses,
                seen.len()
            );
        }
    }
    let created = pool.stats().pool_misses;
    assert!(
        created <= N as u64,
        "never more than {} chunks live, yet the pool created {} chunks ({} bytes of payload never released)",
        N,
        created,
        (created - N as u64) * 256
    );
}

/// Edge of the same statement: with `local_cache_size = 0` the push is always
/// rejected and the follow-up `try_pop().unwrap()` hits an empty cache.
#[test]
fn zero_sized_local_cache_still_recycles() {
    let cfg = SecurePoolConfig::new(256, 100, 8).with_local_cache_size(0);
    let pool = SecureMemoryPool::new(cfg).unwrap();
    let p = pool.allocate().unwrap();
    let addr = p.as_ptr() as usize;
    drop(p);
    let q = pool.allocate().unwrap();
    assert_eq!(q.as_ptr() as usize, addr, "freed chunk was not reused");
    assert_eq!(pool.stats().pool_misses, 1);
}
