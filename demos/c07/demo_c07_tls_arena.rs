//! C07 item 3: ThreadLocalCache::allocate_new_area_or_fallback replaces
//! `self.hot_area` with a fresh arena; the previous HotArea is dropped and its
//! Drop deallocates the arena although blocks carved from it are still live.
//!
//! The dangerous part runs in a child process (this test binary re-executed
//! with DEMO_C07_CHILD set); the parent asserts on the child's exit status.
//! Single threaded, public API only.

use std::process::Command;
use std::sync::atomic::Ordering;
use zipora::memory::{ThreadLocalAllocation, ThreadLocalMemoryPool, ThreadLocalPoolConfig};

const ENV: &str = "DEMO_C07_CHILD";

fn config(arena_size: usize) -> ThreadLocalPoolConfig {
    ThreadLocalPoolConfig {
        arena_size,
        max_threads: 4,
        enable_stats: true,
        sync_threshold: 1 << 30,
        max_cached_chunks: 8,
        use_secure_memory: false,
    }
}

fn run_child(test: &str, mode: &str) -> std::process::Output {
    let out = Command::new(std::env::current_exe().unwrap())
        .args(["--exact", test, "--nocapture", "--test-threads=1"])
        .env(ENV, mode)
        .output()
        .unwrap();
    println!("--- child `{test}` status: {:?}", out.status);
    println!("--- child stdout:\n{}", String::from_utf8_lossy(&out.stdout));
    println!("--- child stderr:\n{}", String::from_utf8_lossy(&out.stderr));
    out
}

fn is_child(mode: &str) -> bool {
    std::env::var(ENV).map(|v| v == mode).unwrap_or(false)
}

/// Allocate `block`-byte blocks (all kept alive) until the pool has created its
/// second arena.  Returns the live allocations; [0] comes from the first arena.
fn fill_first_arena(pool: &std::sync::Arc<ThreadLocalMemoryPool>, block: usize) -> Vec<ThreadLocalAllocation> {
    let stats = pool.stats().unwrap();
    let mut live = Vec::with_capacity(64); // never regrows: no heap traffic of our own
    loop {
        let mut a = pool.allocate(block).unwrap();
        a.as_mut_slice()[..64].fill(0xAB);
        live.push(a);
        if stats.arena_allocations.load(Ordering::Relaxed) >= 2 {
            return live;
        }
        assert!(live.len() < 64, "second arena never created");
    }
}

// ---------------------------------------------------------------- child: reuse
/// Small arena (4 KiB, served from the malloc heap).  After the arena has been
/// replaced, ordinary heap allocations of the arena size get the freed arena
/// and overwrite the still-live first allocation.
#[test]
fn child_reuse() {
    if !is_child("reuse") {
        return;
    }
    const ARENA: usize = 4096;
    let pool = ThreadLocalMemoryPool::new(config(ARENA)).unwrap();
    let live = fill_first_arena(&pool, 1024);
    let first = &live[0];
    let (lo, hi) = (first.as_ptr() as usize, first.as_ptr() as usize + first.size());
    println!("live allocations: {}, first = {:#x}..{:#x}", live.len(), lo, hi);

    // Unrelated heap traffic of the arena size.
    let mut others: Vec<Vec<u8>> = Vec::new();
    let mut hit = None;
    for i in 0..64 {
        let v = vec![0xEEu8; ARENA];
        let (vlo, vhi) = (v.as_ptr() as usize, v.as_ptr() as usize + v.len());
        if vlo < hi && lo < vhi && hit.is_none() {
            hit = Some((i, vlo, vhi));
        }
        others.push(v);
    }
    println!("first[..8] now = {:02x?}", &first.as_slice()[..8]);
    if let Some((i, vlo, vhi)) = hit {
        println!("heap Vec #{i} = {:#x}..{:#x} overlaps the live pool allocation", vlo, vhi);
    }
    assert!(
        hit.is_none(),
        "memory of a live pool allocation was handed to an unrelated Vec (arena was freed)"
    );
    assert_eq!(&first.as_slice()[..64], &[0xABu8; 64][..], "live allocation lost its bytes");
    drop(others);
}

#[test]
fn live_block_survives_arena_replacement_small_arena() {
    if std::env::var(ENV).is_ok() {
        return;
    }
    let out = run_child("child_reuse", "reuse");
    assert!(out.status.success(), "child failed: {:?}", out.status);
}

// ---------------------------------------------------------------- child: unmap
/// Large arena (64 MiB: always mmap-backed under glibc).  After the arena has
/// been replaced the old arena is unmapped; touching the first allocation is a
/// SIGSEGV.
#[test]
fn child_unmap() {
    if !is_child("unmap") {
        return;
    }
    const ARENA: usize = 64 << 20;
    let pool = ThreadLocalMemoryPool::new(config(ARENA)).unwrap();
    let live = fill_first_arena(&pool, ARENA / 4);
    let first = &live[0];
    println!("live allocations: {}, first = {:p}", live.len(), first.as_ptr());
    use std::io::Write;
    std::io::stdout().flush().unwrap();
    let head = first.as_slice()[..8].to_vec(); // reads freed (unmapped) memory
    println!("first[..8] = {:02x?}", head);
    assert_eq!(head, vec![0xAB; 8]);
}

#[test]
fn live_block_survives_arena_replacement_large_arena() {
    if std::env::var(ENV).is_ok() {
        return;
    }
    let out = run_child("child_unmap", "unmap");
    assert!(out.status.success(), "child failed: {:?}", out.status);
}
