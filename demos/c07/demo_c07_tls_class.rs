//! C07 item 2: ThreadLocalCache::allocate carves align8(size) from the hot
//! area but deallocate files the block under the range class
//! (TLS_SIZE_CLASSES = 16, 32, 48, 64, 96, ...).  A block carved for 40 bytes
//! is later handed out for a 48-byte request and overlaps its neighbour.
//!
//! Single threaded, public API only (ThreadLocalMemoryPool::allocate).

use zipora::memory::{ThreadLocalMemoryPool, ThreadLocalPoolConfig};

fn config() -> ThreadLocalPoolConfig {
    ThreadLocalPoolConfig {
        arena_size: 64 * 1024,
        max_threads: 4,
        enable_stats: true,
        sync_threshold: 1 << 20,
        max_cached_chunks: 8,
        use_secure_memory: false,
    }
}

#[test]
fn same_class_reuse_must_not_overlap_live_neighbour() {
    let pool = ThreadLocalMemoryPool::new(config()).unwrap();

    let mut a = pool.allocate(40).unwrap(); // class 48, carved as 40 bytes
    let mut b = pool.allocate(16).unwrap(); // the neighbour right behind it
    a.as_mut_slice().fill(0xA1);
    b.as_mut_slice().fill(0xB2);
    let a_lo = a.as_ptr() as usize;
    println!("a = {:#x}..{:#x} (requested 40)", a_lo, a_lo + a.size());

    drop(a); // filed under class 48

    let mut c = pool.allocate(48).unwrap(); // class 48: gets a's block back
    let (b_lo, b_hi) = (b.as_ptr() as usize, b.as_ptr() as usize + b.size());
    let (c_lo, c_hi) = (c.as_ptr() as usize, c.as_ptr() as usize + c.size());
    println!("b = {:#x}..{:#x} (requested 16, live)", b_lo, b_hi);
    println!("c = {:#x}..{:#x} (requested 48, live)", c_lo, c_hi);

    // c is entitled to 48 bytes: use them through the safe slice view.
    c.as_mut_slice().fill(0xC3);
    println!("b content after filling c: {:02x?}", b.as_slice());

    let overlap = c_lo < b_hi && b_lo < c_hi;
    assert!(
        !overlap,
        "live allocations overlap: b={:#x}..{:#x} c={:#x}..{:#x} (b starts {} bytes into c)",
        b_lo, b_hi, c_lo, c_hi, b_lo.wrapping_sub(c_lo)
    );
    assert_eq!(b.as_slice(), &[0xB2u8; 16][..], "neighbour lost the bytes written to it");
}
