#!/bin/bash
# usage: run.sh <test-name> <log-suffix> [extra cargo args...]
t=$1; suf=$2; shift 2
cd /tmp/zw07
CARGO_TARGET_DIR=/tmp/zw07-target CARGO_NET_OFFLINE=true RUST_BACKTRACE=0 cargo test --offline "$@" --test "$t" -- --nocapture --test-threads=1 > /tmp/zw07_out/logs/${t}_${suf}.log 2>&1
echo "exit=$?" >> /tmp/zw07_out/logs/${t}_${suf}.log
grep -v '^warning\|^ *|\|^ *=\|^ *-->\|^$\|^ *[0-9]* |' /tmp/zw07_out/logs/${t}_${suf}.log | tail -${TAILN:-40}
