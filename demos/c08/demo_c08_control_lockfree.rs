//! C08 positive control: lockfree_pool::LockFreeMemoryPool.
//!
//! Its fast-bin head is a packed (generation:u32, offset:u32) AtomicU64 and the
//! generation is incremented on every successful CAS, so the A->B->A scenario that
//! breaks the other three pools must NOT be observable here.  Same harness as the
//! other demonstrations: N threads allocate `BATCH` blocks of one size class, fill
//! the whole block with a (thread, iteration, slot) pattern, re-check it just before
//! freeing, free.  After the join the bin is drained and compared with the number of
//! blocks ever carved from the backing region.
//!
//! Environment knobs (optional):
//!   C08_THREADS  comma list, default "2,4,8,16"
//!   C08_SECS     seconds per thread count, default 4
//!   C08_BATCH    blocks held per iteration, default 4
//!   C08_SIZE     block size (multiple of 8), default 64
//!   C08_BACKOFF  "none" (default: immediate CAS retry, hardest setting) or "default"
//!                (the pool's default exponential sleep backoff, max_cas_retries=1000)

use std::collections::HashSet;
use std::ptr::NonNull;
use std::sync::atomic::{AtomicBool, AtomicU64, AtomicUsize, Ordering};
use std::sync::{Arc, Mutex};
use std::time::{Duration, Instant};
use zipora::memory::{BackoffStrategy, LockFreeMemoryPool, LockFreePoolConfig};

fn env_usize(name: &str, default: usize) -> usize {
    std::env::var(name).ok().and_then(|v| v.parse().ok()).unwrap_or(default)
}

fn thread_counts() -> Vec<usize> {
    std::env::var("C08_THREADS")
        .unwrap_or_else(|_| "2,4,8,16".to_string())
        .split(',')
        .filter_map(|s| s.trim().parse().ok())
        .collect()
}

#[inline]
fn word(tid: usize, iter: u64, slot: usize, w: usize) -> u64 {
    let seed = ((tid as u64 + 1) << 56) ^ (iter << 8) ^ (slot as u64);
    seed.wrapping_mul(0x9E37_79B9_7F4A_7C15) ^ (w as u64).wrapping_mul(0xD6E8_FEB8_6659_FD93)
}

unsafe fn fill(ptr: *mut u8, size: usize, tid: usize, iter: u64, slot: usize) {
    let p = ptr as *mut u64;
    for w in 0..size / 8 {
        unsafe { p.add(w).write_volatile(word(tid, iter, slot, w)) };
    }
}

unsafe fn check(ptr: *const u8, size: usize, tid: usize, iter: u64, slot: usize) -> Option<(usize, u64, u64)> {
    let p = ptr as *const u64;
    for w in 0..size / 8 {
        let got = unsafe { p.add(w).read_volatile() };
        let exp = word(tid, iter, slot, w);
        if got != exp {
            return Some((w, exp, got));
        }
    }
    None
}

#[derive(Default)]
struct Shared {
    stop: AtomicBool,
    mismatches: AtomicUsize,
    dup_ptrs: AtomicUsize,
    alloc_errors: AtomicUsize,
    free_errors: AtomicUsize,
    iters: AtomicU64,
    first: Mutex<Option<String>>,
    err_samples: Mutex<Vec<String>>,
}

impl Shared {
    fn record_first(&self, start: Instant, msg: String) {
        let mut g = self.first.lock().unwrap_or_else(|e| e.into_inner());
        if g.is_none() {
            let line = format!("[{:.3}s] {}", start.elapsed().as_secs_f64(), msg);
            println!("FIRST CORRUPTION: {}", line);
            *g = Some(line);
        }
    }
    fn sample_err(&self, start: Instant, msg: String) {
        let mut g = self.err_samples.lock().unwrap_or_else(|e| e.into_inner());
        if g.len() < 5 {
            g.push(format!("[{:.3}s] {}", start.elapsed().as_secs_f64(), msg));
        }
    }
}

struct RoundResult {
    threads: usize,
    corrupt: bool,
    summary: String,
}

fn run_round(n: usize, secs: u64, batch: usize, size: usize, backoff: &str) -> RoundResult {
    let mut cfg = LockFreePoolConfig::default();
    cfg.memory_size = 64 << 20;
    cfg.enable_stats = true;
    if backoff == "none" {
        cfg.backoff_strategy = BackoffStrategy::None;
        cfg.max_cas_retries = 1 << 30;
    }
    let pool = Arc::new(LockFreeMemoryPool::new(cfg).expect("pool"));
    let sh = Arc::new(Shared::default());
    let start = Instant::now();
    let dur = Duration::from_secs(secs);

    let mut worker_panics = 0usize;
    let mut handles = Vec::new();
    for tid in 0..n {
        let pool = Arc::clone(&pool);
        let sh = Arc::clone(&sh);
        handles.push(std::thread::spawn(move || {
            let mut iter = 0u64;
            let mut held: Vec<(usize, usize)> = Vec::with_capacity(batch); // (slot, addr)
            loop {
                iter += 1;
                if sh.stop.load(Ordering::Relaxed) {
                    break;
                }
                if iter % 64 == 0 && start.elapsed() > dur {
                    break;
                }
                for slot in 0..batch {
                    match pool.allocate(size) {
                        Ok(p) => {
                            let addr = p.as_ptr() as usize;
                            if held.iter().any(|(_, a)| *a == addr) {
                                sh.dup_ptrs.fetch_add(1, Ordering::Relaxed);
                                sh.record_first(start, format!("thread {} received block {:#x} twice within one batch (iter {})", tid, addr, iter));
                                sh.stop.store(true, Ordering::SeqCst);
                                continue;
                            }
                            unsafe { fill(p.as_ptr(), size, tid, iter, slot) };
                            held.push((slot, addr));
                        }
                        Err(e) => {
                            sh.alloc_errors.fetch_add(1, Ordering::Relaxed);
                            sh.sample_err(start, format!("thread {} iter {} allocate({}): {}", tid, iter, size, e));
                        }
                    }
                }
                for (slot, addr) in held.drain(..) {
                    if let Some((w, exp, got)) = unsafe { check(addr as *const u8, size, tid, iter, slot) } {
                        sh.mismatches.fetch_add(1, Ordering::Relaxed);
                        sh.record_first(
                            start,
                            format!(
                                "pattern mismatch: thread {} block {:#x} (iter {}, slot {}) word {}: expected {:#018x} found {:#018x}",
                                tid, addr, iter, slot, w, exp, got
                            ),
                        );
                        sh.stop.store(true, Ordering::SeqCst);
                    }
                    if let Err(e) = pool.deallocate(NonNull::new(addr as *mut u8).unwrap(), size) {
                        sh.free_errors.fetch_add(1, Ordering::Relaxed);
                        sh.sample_err(start, format!("thread {} iter {} deallocate: {}", tid, iter, e));
                    }
                }
            }
            sh.iters.fetch_add(iter, Ordering::Relaxed);
        }));
    }
    for h in handles {
        if h.join().is_err() {
            worker_panics += 1;
        }
    }

    let elapsed = start.elapsed().as_secs_f64();
    let mism = sh.mismatches.load(Ordering::SeqCst);
    let dups = sh.dup_ptrs.load(Ordering::SeqCst);
    let aerr = sh.alloc_errors.load(Ordering::SeqCst);
    let ferr = sh.free_errors.load(Ordering::SeqCst);
    println!(
        "round pool=LockFreeMemoryPool threads={} backoff={} batch={} size={} elapsed={:.2}s iters={} | harness: mismatches={} dup_ptrs={} alloc_errors={} free_errors={} worker_panics={}",
        n, backoff, batch, size, elapsed, sh.iters.load(Ordering::SeqCst), mism, dups, aerr, ferr, worker_panics
    );
    for s in sh.err_samples.lock().unwrap_or_else(|e| e.into_inner()).iter() {
        println!("  error sample: {}", s);
    }

    let st = pool.stats().expect("stats enabled");
    let carved_bytes = st.memory_usage.load(Ordering::SeqCst);
    let carved = (carved_bytes as usize) / size;
    println!(
        "  pool stats: fast_allocs(pops)={} fast_deallocs(pushes)={} cas_successes={} cas_failures={} memory_usage={} (= {} blocks carved)",
        st.fast_allocs.load(Ordering::SeqCst),
        st.fast_deallocs.load(Ordering::SeqCst),
        st.cas_successes.load(Ordering::SeqCst),
        st.cas_failures.load(Ordering::SeqCst),
        carved_bytes,
        carved
    );
    // Drain: pop until the pool has to carve a new block; all `carved` blocks must come out once.
    let mut seen: HashSet<usize> = HashSet::new();
    let mut drain_dup = None;
    let mut drain_err = None;
    for _ in 0..carved + 16 {
        match pool.allocate(size) {
            Ok(p) => {
                if st.memory_usage.load(Ordering::SeqCst) != carved_bytes {
                    break; // bin was empty, a fresh block was carved
                }
                if !seen.insert(p.as_ptr() as usize) {
                    drain_dup = Some(p.as_ptr() as usize);
                    break;
                }
            }
            Err(e) => {
                drain_err = Some(e.to_string());
                break;
            }
        }
    }
    println!(
        "  drain after join: distinct blocks popped={} (expected {} minus blocks lost to failed deallocations {}), duplicate={:?}, error={:?}",
        seen.len(), carved, ferr, drain_dup, drain_err
    );
    let drain_bad = seen.len() + ferr != carved || drain_dup.is_some() || drain_err.is_some();

    let corrupt = mism > 0 || dups > 0 || aerr > 0 || ferr > 0 || worker_panics > 0 || drain_bad;
    let first = sh.first.lock().unwrap_or_else(|e| e.into_inner()).clone();
    let summary = format!(
        "threads={} mismatches={} dup_ptrs={} alloc_errors={} free_errors={} drain: {}/{} dup={:?} err={:?} worker_panics={} first={:?}",
        n, mism, dups, aerr, ferr, seen.len(), carved, drain_dup, drain_err, worker_panics, first
    );
    RoundResult { threads: n, corrupt, summary }
}

#[test]
fn control_c08_lockfree_memory_pool_tagged_head() {
    let secs = env_usize("C08_SECS", 4) as u64;
    let batch = env_usize("C08_BATCH", 4);
    let size = env_usize("C08_SIZE", 64) & !7;
    let backoff = std::env::var("C08_BACKOFF").unwrap_or_else(|_| "none".to_string());

    let mut failed = Vec::new();
    for n in thread_counts() {
        let r = run_round(n, secs, batch, size, &backoff);
        if r.corrupt {
            println!("RESULT threads={} CORRUPTION: {}", r.threads, r.summary);
            failed.push(r.summary);
            break;
        } else {
            println!("RESULT threads={} clean", r.threads);
        }
    }
    assert!(failed.is_empty(), "LockFreeMemoryPool (positive control): corruption detected: {:#?}", failed);
}
