//! C08 demonstration 2/3: five_level_pool::LockFreePool fast bins (untagged u32 offset head).
//!
//! `alloc_from_fast_bin_lockfree` (src/memory/five_level_pool.rs) does
//!     head = load(); next = *(u32*)(memory + head)  [under the memory mutex];
//!     CAS(head -> next)
//! on a plain `AtomicU32`; `free_to_fast_bin_lockfree` pushes with a plain CAS.
//! Offsets A->B->A between the load and the CAS install a stale `next` (ABA): the
//! block `next` is handed out while it is still owned by somebody else, and the free
//! list loses / duplicates blocks.
//!
//! NOTE on the harness: the public API of this pool returns an opaque `MemOffset`
//! and offers no way to reach the block's memory, so "write a pattern into the block"
//! is impossible here.  The equivalent check is done with a shadow ownership table
//! indexed by block number (offset / size): after `alloc` the thread swaps its unique
//! (thread, iteration) tag into the slot and expects to find 0; before `free` it
//! compare-exchanges its tag back to 0.  Any block owned by two threads at once shows
//! up as a non-zero previous owner or as a foreign tag.  The numeric offset is taken
//! from the `#[repr(transparent)] MemOffset(u32)` (cross-checked against its `Debug`
//! output at start-up).
//!
//! The same harness is run against `MutexBasedPool` (level 2, same API, locked free
//! lists) as a harness control: it must stay clean.
//!
//! Environment knobs (optional):
//!   C08_THREADS  comma list, default "2,4,8,16"
//!   C08_SECS     seconds per thread count, default 4
//!   C08_BATCH    blocks held per iteration, default 4
//!   C08_SIZE     block size (multiple of 8), default 64
//!   C08_CAP      initial_capacity in bytes, default 64 MiB

use std::sync::atomic::{AtomicBool, AtomicU32, AtomicU64, AtomicUsize, Ordering};
use std::sync::{Arc, Mutex};
use std::time::{Duration, Instant};
use zipora::memory::{FiveLevelPoolConfig, LockFreePool, MemOffset, MutexBasedPool, PoolStats};

fn env_usize(name: &str, default: usize) -> usize {
    std::env::var(name).ok().and_then(|v| v.parse().ok()).unwrap_or(default)
}

fn thread_counts() -> Vec<usize> {
    std::env::var("C08_THREADS")
        .unwrap_or_else(|_| "2,4,8,16".to_string())
        .split(',')
        .filter_map(|s| s.trim().parse().ok())
        .collect()
}

/// MemOffset is `#[repr(transparent)] pub struct MemOffset(u32)` + Copy.
#[inline]
fn off_u32(o: MemOffset) -> u32 {
    unsafe { std::mem::transmute::<MemOffset, u32>(o) }
}

fn off_from_debug(o: MemOffset) -> u32 {
    let s = format!("{:?}", o);
    s.trim_start_matches("MemOffset(").trim_end_matches(')').parse().expect("MemOffset Debug format")
}

trait Pool: Send + Sync + 'static {
    fn alloc(&self, size: usize) -> zipora::error::Result<MemOffset>;
    fn free(&self, off: MemOffset, size: usize) -> zipora::error::Result<()>;
    fn stats(&self) -> PoolStats;
}
impl Pool for LockFreePool {
    fn alloc(&self, size: usize) -> zipora::error::Result<MemOffset> { LockFreePool::alloc(self, size) }
    fn free(&self, off: MemOffset, size: usize) -> zipora::error::Result<()> { LockFreePool::free(self, off, size) }
    fn stats(&self) -> PoolStats { LockFreePool::stats(self) }
}
impl Pool for MutexBasedPool {
    fn alloc(&self, size: usize) -> zipora::error::Result<MemOffset> { MutexBasedPool::alloc(self, size) }
    fn free(&self, off: MemOffset, size: usize) -> zipora::error::Result<()> { MutexBasedPool::free(self, off, size) }
    fn stats(&self) -> PoolStats { MutexBasedPool::stats(self) }
}

#[derive(Default)]
struct Shared {
    stop: AtomicBool,
    double_owner_on_alloc: AtomicUsize,
    foreign_tag_on_free: AtomicUsize,
    dup_in_batch: AtomicUsize,
    bad_offset: AtomicUsize,
    alloc_errors: AtomicUsize,
    free_errors: AtomicUsize,
    iters: AtomicU64,
    first: Mutex<Option<String>>,
    err_samples: Mutex<Vec<String>>,
}

impl Shared {
    fn record_first(&self, start: Instant, msg: String) {
        let mut g = self.first.lock().unwrap_or_else(|e| e.into_inner());
        if g.is_none() {
            let line = format!("[{:.3}s] {}", start.elapsed().as_secs_f64(), msg);
            println!("FIRST CORRUPTION: {}", line);
            *g = Some(line);
        }
    }
    fn sample_err(&self, start: Instant, msg: String) {
        let mut g = self.err_samples.lock().unwrap_or_else(|e| e.into_inner());
        if g.len() < 5 {
            g.push(format!("[{:.3}s] {}", start.elapsed().as_secs_f64(), msg));
        }
    }
}

fn tag_str(tag: u32) -> String {
    if tag == 0 { "free".to_string() } else { format!("thread {} iter&0xFFFFFF {}", (tag >> 24) - 1, tag & 0xFF_FFFF) }
}

struct RoundResult {
    threads: usize,
    corrupt: bool,
    summary: String,
}

fn run_round<P: Pool>(name: &str, pool: Arc<P>, cap: usize, n: usize, secs: u64, batch: usize, size: usize) -> RoundResult {
    let nslots = cap / size + 1;
    let owners: Arc<Vec<AtomicU32>> = Arc::new((0..nslots).map(|_| AtomicU32::new(0)).collect());
    let sh = Arc::new(Shared::default());
    let start = Instant::now();
    let dur = Duration::from_secs(secs);

    let mut worker_panics = 0usize;
    let mut handles = Vec::new();
    for tid in 0..n {
        let pool = Arc::clone(&pool);
        let sh = Arc::clone(&sh);
        let owners = Arc::clone(&owners);
        handles.push(std::thread::spawn(move || {
            let mut iter = 0u64;
            let mut held: Vec<(MemOffset, usize)> = Vec::with_capacity(batch);
            loop {
                iter += 1;
                if sh.stop.load(Ordering::Relaxed) {
                    break;
                }
                if iter % 64 == 0 && start.elapsed() > dur {
                    break;
                }
                let tag: u32 = ((tid as u32 + 1) << 24) | ((iter as u32) & 0xFF_FFFF);
                for _slot in 0..batch {
                    match pool.alloc(size) {
                        Ok(off) => {
                            let o = off_u32(off) as usize;
                            if o % size != 0 || o / size >= owners.len() {
                                sh.bad_offset.fetch_add(1, Ordering::Relaxed);
                                sh.record_first(start, format!("thread {} got out-of-range/misaligned offset {} (iter {})", tid, o, iter));
                                sh.stop.store(true, Ordering::SeqCst);
                                continue; // do not track, do not free
                            }
                            let idx = o / size;
                            if held.iter().any(|(_, i)| *i == idx) {
                                sh.dup_in_batch.fetch_add(1, Ordering::Relaxed);
                                sh.record_first(start, format!("thread {} received offset {} twice within one batch (iter {})", tid, o, iter));
                                sh.stop.store(true, Ordering::SeqCst);
                                continue;
                            }
                            let prev = owners[idx].swap(tag, Ordering::SeqCst);
                            if prev != 0 {
                                sh.double_owner_on_alloc.fetch_add(1, Ordering::Relaxed);
                                sh.record_first(
                                    start,
                                    format!(
                                        "block handed to two owners: thread {} iter {} got offset {} from alloc() while it is still owned by [{}]",
                                        tid, iter, o, tag_str(prev)
                                    ),
                                );
                                sh.stop.store(true, Ordering::SeqCst);
                            }
                            held.push((off, idx));
                        }
                        Err(e) => {
                            sh.alloc_errors.fetch_add(1, Ordering::Relaxed);
                            sh.sample_err(start, format!("thread {} iter {} alloc({}): {}", tid, iter, size, e));
                        }
                    }
                }
                for (off, idx) in held.drain(..) {
                    if let Err(found) = owners[idx].compare_exchange(tag, 0, Ordering::SeqCst, Ordering::SeqCst) {
                        sh.foreign_tag_on_free.fetch_add(1, Ordering::Relaxed);
                        sh.record_first(
                            start,
                            format!(
                                "ownership lost: thread {} iter {} about to free offset {} but the shadow slot says [{}]",
                                tid, iter, off_u32(off), tag_str(found)
                            ),
                        );
                        sh.stop.store(true, Ordering::SeqCst);
                    }
                    if let Err(e) = pool.free(off, size) {
                        sh.free_errors.fetch_add(1, Ordering::Relaxed);
                        sh.sample_err(start, format!("thread {} iter {} free: {}", tid, iter, e));
                    }
                }
            }
            sh.iters.fetch_add(iter, Ordering::Relaxed);
        }));
    }
    for h in handles {
        if h.join().is_err() {
            worker_panics += 1;
        }
    }

    let elapsed = start.elapsed().as_secs_f64();
    let dbl = sh.double_owner_on_alloc.load(Ordering::SeqCst);
    let foreign = sh.foreign_tag_on_free.load(Ordering::SeqCst);
    let dupb = sh.dup_in_batch.load(Ordering::SeqCst);
    let bado = sh.bad_offset.load(Ordering::SeqCst);
    let aerr = sh.alloc_errors.load(Ordering::SeqCst);
    let ferr = sh.free_errors.load(Ordering::SeqCst);
    println!(
        "round pool={} threads={} batch={} size={} elapsed={:.2}s iters={} | harness: double_owner_on_alloc={} foreign_tag_on_free={} dup_in_batch={} bad_offset={} alloc_errors={} free_errors={} worker_panics={}",
        name, n, batch, size, elapsed, sh.iters.load(Ordering::SeqCst), dbl, foreign, dupb, bado, aerr, ferr, worker_panics
    );
    for s in sh.err_samples.lock().unwrap_or_else(|e| e.into_inner()).iter() {
        println!("  error sample: {}", s);
    }

    // Counters and structural check after all threads joined and every block was freed.
    let st = pool.stats();
    let high_water = st.used_memory; // bump pointer: bytes ever carved from the chunk
    let carved = high_water / size;
    println!(
        "  pool stats: total_capacity={} used_memory(high water)={} (= {} blocks) fragment_size={} (= {} blocks by counter)",
        st.total_capacity, high_water, carved, st.fragment_size, st.fragment_size / size
    );
    // Skip the drain if an untracked (leaked on purpose) block exists; numbers would not match anyway.
    let mut seen = vec![false; carved + 1];
    let mut distinct = 0usize;
    let mut drain_dup: Option<usize> = None;
    let mut drain_err: Option<String> = None;
    for _ in 0..carved + 16 {
        match pool.alloc(size) {
            Ok(off) => {
                let o = off_u32(off) as usize;
                if o >= high_water {
                    break; // free list empty, pool fell back to the bump pointer
                }
                let idx = o / size;
                if o % size != 0 || idx >= seen.len() {
                    drain_err = Some(format!("bad offset {}", o));
                    break;
                }
                if seen[idx] {
                    drain_dup = Some(o);
                    break;
                }
                seen[idx] = true;
                distinct += 1;
            }
            Err(e) => {
                drain_err = Some(e.to_string());
                break;
            }
        }
    }
    println!(
        "  drain after join: distinct blocks popped from the free list={} (expected {}), duplicate offset={:?}, error={:?}",
        distinct, carved, drain_dup, drain_err
    );
    let drain_bad = distinct != carved || drain_dup.is_some() || drain_err.is_some();
    let counter_bad = st.fragment_size != high_water;

    let corrupt = dbl > 0 || foreign > 0 || dupb > 0 || bado > 0 || aerr > 0 || ferr > 0 || worker_panics > 0 || drain_bad || counter_bad;
    let first = sh.first.lock().unwrap_or_else(|e| e.into_inner()).clone();
    let summary = format!(
        "pool={} threads={} double_owner_on_alloc={} foreign_tag_on_free={} dup_in_batch={} bad_offset={} alloc_errors={} free_errors={} counter_bad={} drain: {}/{} dup={:?} err={:?} worker_panics={} first={:?}",
        name, n, dbl, foreign, dupb, bado, aerr, ferr, counter_bad, distinct, carved, drain_dup, drain_err, worker_panics, first
    );
    RoundResult { threads: n, corrupt, summary }
}

fn config(cap: usize) -> FiveLevelPoolConfig {
    let mut cfg = FiveLevelPoolConfig::default();
    cfg.initial_capacity = cap;
    cfg.alignment = 8;
    cfg
}

fn sanity_offset_decoding() {
    let p = LockFreePool::new(config(1 << 20)).unwrap();
    let a = p.alloc(64).unwrap();
    let b = p.alloc(64).unwrap();
    assert_eq!(off_u32(a), off_from_debug(a));
    assert_eq!(off_u32(b), off_from_debug(b));
    assert_eq!(off_u32(a), 0);
    assert_eq!(off_u32(b), 64);
}

#[test]
fn demo_c08_five_level_lockfree_pool_fast_bin() {
    sanity_offset_decoding();
    let secs = env_usize("C08_SECS", 4) as u64;
    let batch = env_usize("C08_BATCH", 4);
    let size = env_usize("C08_SIZE", 64) & !7;
    let cap = env_usize("C08_CAP", 64 << 20);

    let mut failed = Vec::new();
    for n in thread_counts() {
        let pool = Arc::new(LockFreePool::new(config(cap)).expect("pool"));
        let r = run_round("LockFreePool", pool, cap, n, secs, batch, size);
        if r.corrupt {
            println!("RESULT threads={} CORRUPTION: {}", r.threads, r.summary);
            failed.push(r.summary);
            break;
        } else {
            println!("RESULT threads={} clean", r.threads);
        }
    }
    assert!(failed.is_empty(), "five_level LockFreePool: corruption detected: {:#?}", failed);
}

/// Harness control: identical harness, level-2 pool whose free lists are mutex protected.
#[test]
fn control_c08_five_level_mutex_pool_same_harness() {
    sanity_offset_decoding();
    let secs = env_usize("C08_SECS", 4) as u64;
    let batch = env_usize("C08_BATCH", 4);
    let size = env_usize("C08_SIZE", 64) & !7;
    let cap = env_usize("C08_CAP", 64 << 20);

    let mut failed = Vec::new();
    for n in thread_counts() {
        let pool = Arc::new(MutexBasedPool::new(config(cap)).expect("pool"));
        let r = run_round("MutexBasedPool", pool, cap, n, secs, batch, size);
        if r.corrupt {
            println!("RESULT threads={} CORRUPTION: {}", r.threads, r.summary);
            failed.push(r.summary);
            break;
        } else {
            println!("RESULT threads={} clean", r.threads);
        }
    }
    assert!(failed.is_empty(), "five_level MutexBasedPool (harness control): corruption detected: {:#?}", failed);
}
