//! C08 demonstration 3/3: FixedCapacityMemoryPool free list (untagged u32 offset head).
//!
//! `allocate_from_free_list` (src/memory/fixed_capacity_pool.rs) does
//!     head = load(); next = header(head).next; CAS(head -> next)
//! on a plain `AtomicU32` offset, `deallocate_to_free_list` pushes with a plain CAS.
//! A->B->A on the offset lets a stale `next` be installed (ABA).  In addition the
//! `BlockHeader` lives inside the user-visible block, so a popper that still holds a
//! stale head reads user data as `magic` / `next`.
//!
//! Public API only.  N threads allocate `BATCH` blocks of ONE size class, fill the
//! whole block with a pattern unique for (thread, iteration, slot), re-check the
//! pattern just before dropping the allocation, and drop it.
//!
//! The test FAILS when a block was owned by two threads at once (pattern mismatch or
//! duplicate pointer), when the pool returned an error although the harness never
//! holds more than threads*batch <= total_blocks blocks, or when the pool's counters /
//! a drain of the free list after all threads joined are inconsistent.
//!
//! Environment knobs (optional):
//!   C08_THREADS  comma list, default "2,4,8,16"
//!   C08_SECS     seconds per thread count, default 4
//!   C08_BATCH    blocks held per iteration, default 4
//!   C08_SIZE     block size = max_block_size (multiple of 8, >= 16), default 64
//!   C08_BLOCKS   total_blocks, default 4096

use std::collections::HashSet;
use std::sync::atomic::{AtomicBool, AtomicU64, AtomicUsize, Ordering};
use std::sync::{Arc, Mutex};
use std::time::{Duration, Instant};
use zipora::memory::{FixedCapacityAllocation, FixedCapacityMemoryPool, FixedCapacityPoolConfig};

fn env_usize(name: &str, default: usize) -> usize {
    std::env::var(name).ok().and_then(|v| v.parse().ok()).unwrap_or(default)
}

fn thread_counts() -> Vec<usize> {
    std::env::var("C08_THREADS")
        .unwrap_or_else(|_| "2,4,8,16".to_string())
        .split(',')
        .filter_map(|s| s.trim().parse().ok())
        .collect()
}

#[inline]
fn word(tid: usize, iter: u64, slot: usize, w: usize) -> u64 {
    let seed = ((tid as u64 + 1) << 56) ^ (iter << 8) ^ (slot as u64);
    seed.wrapping_mul(0x9E37_79B9_7F4A_7C15) ^ (w as u64).wrapping_mul(0xD6E8_FEB8_6659_FD93)
}

unsafe fn fill(ptr: *mut u8, size: usize, tid: usize, iter: u64, slot: usize) {
    let p = ptr as *mut u64;
    for w in 0..size / 8 {
        unsafe { p.add(w).write_volatile(word(tid, iter, slot, w)) };
    }
}

unsafe fn check(ptr: *const u8, size: usize, tid: usize, iter: u64, slot: usize) -> Option<(usize, u64, u64)> {
    let p = ptr as *const u64;
    for w in 0..size / 8 {
        let got = unsafe { p.add(w).read_volatile() };
        let exp = word(tid, iter, slot, w);
        if got != exp {
            return Some((w, exp, got));
        }
    }
    None
}

#[derive(Default)]
struct Shared {
    stop: AtomicBool,
    mismatches: AtomicUsize,
    dup_ptrs: AtomicUsize,
    err_header: AtomicUsize,
    err_oom: AtomicUsize,
    err_other: AtomicUsize,
    size_errors: AtomicUsize,
    iters: AtomicU64,
    first: Mutex<Option<String>>,
    err_samples: Mutex<Vec<String>>,
}

impl Shared {
    fn record_first(&self, start: Instant, msg: String) {
        let mut g = self.first.lock().unwrap_or_else(|e| e.into_inner());
        if g.is_none() {
            let line = format!("[{:.3}s] {}", start.elapsed().as_secs_f64(), msg);
            println!("FIRST CORRUPTION: {}", line);
            *g = Some(line);
        }
    }
    fn sample_err(&self, start: Instant, msg: String) {
        let mut g = self.err_samples.lock().unwrap_or_else(|e| e.into_inner());
        if g.len() < 5 {
            g.push(format!("[{:.3}s] {}", start.elapsed().as_secs_f64(), msg));
        }
    }
}

struct RoundResult {
    threads: usize,
    corrupt: bool,
    summary: String,
}

fn run_round(n: usize, secs: u64, batch: usize, size: usize, blocks: usize) -> RoundResult {
    assert!(n * batch <= blocks, "harness must never exhaust the pool legitimately");
    let cfg = FixedCapacityPoolConfig {
        max_block_size: size,
        total_blocks: blocks,
        alignment: 8,
        enable_stats: true,
        eager_allocation: true,
        secure_clear: false,
    };
    let pool = Arc::new(FixedCapacityMemoryPool::new(cfg).expect("pool"));
    let sh = Arc::new(Shared::default());
    let start = Instant::now();
    let dur = Duration::from_secs(secs);

    let mut worker_panics = 0usize;
    let mut handles = Vec::new();
    for tid in 0..n {
        let pool = Arc::clone(&pool);
        let sh = Arc::clone(&sh);
        handles.push(std::thread::spawn(move || {
            let mut iter = 0u64;
            // FixedCapacityAllocation is !Send; it stays on this thread.
            let mut held: Vec<(usize, FixedCapacityAllocation)> = Vec::with_capacity(batch);
            loop {
                iter += 1;
                if sh.stop.load(Ordering::Relaxed) {
                    break;
                }
                if iter % 64 == 0 && start.elapsed() > dur {
                    break;
                }
                for slot in 0..batch {
                    match pool.allocate(size) {
                        Ok(a) => {
                            if a.size() != size {
                                sh.size_errors.fetch_add(1, Ordering::Relaxed);
                                continue;
                            }
                            if held.iter().any(|(_, h)| h.as_ptr() == a.as_ptr()) {
                                sh.dup_ptrs.fetch_add(1, Ordering::Relaxed);
                                sh.record_first(
                                    start,
                                    format!("thread {} received block {:p} twice within one batch (iter {})", tid, a.as_ptr(), iter),
                                );
                                sh.stop.store(true, Ordering::SeqCst);
                            }
                            unsafe { fill(a.as_ptr(), size, tid, iter, slot) };
                            held.push((slot, a));
                        }
                        Err(e) => {
                            let s = e.to_string();
                            if s.contains("header corrupted") {
                                sh.err_header.fetch_add(1, Ordering::Relaxed);
                            } else if s.to_lowercase().contains("memory") {
                                sh.err_oom.fetch_add(1, Ordering::Relaxed);
                            } else {
                                sh.err_other.fetch_add(1, Ordering::Relaxed);
                            }
                            sh.sample_err(start, format!("thread {} iter {} allocate({}): {}", tid, iter, size, s));
                        }
                    }
                }
                for (slot, a) in held.drain(..) {
                    if let Some((w, exp, got)) = unsafe { check(a.as_ptr(), size, tid, iter, slot) } {
                        sh.mismatches.fetch_add(1, Ordering::Relaxed);
                        sh.record_first(
                            start,
                            format!(
                                "pattern mismatch: thread {} block {:p} (iter {}, slot {}) word {}: expected {:#018x} found {:#018x}",
                                tid, a.as_ptr(), iter, slot, w, exp, got
                            ),
                        );
                        sh.stop.store(true, Ordering::SeqCst);
                    }
                    drop(a);
                }
            }
            sh.iters.fetch_add(iter, Ordering::Relaxed);
        }));
    }
    for h in handles {
        if h.join().is_err() {
            worker_panics += 1;
        }
    }

    let elapsed = start.elapsed().as_secs_f64();
    let mism = sh.mismatches.load(Ordering::SeqCst);
    let dups = sh.dup_ptrs.load(Ordering::SeqCst);
    let eh = sh.err_header.load(Ordering::SeqCst);
    let eo = sh.err_oom.load(Ordering::SeqCst);
    let ex = sh.err_other.load(Ordering::SeqCst);
    let serr = sh.size_errors.load(Ordering::SeqCst);
    println!(
        "round threads={} batch={} size={} blocks={} elapsed={:.2}s iters={} | harness: mismatches={} dup_ptrs={} err(\"Block header corrupted\")={} err(out of memory)={} err(other)={} size_errors={} worker_panics={}",
        n, batch, size, blocks, elapsed, sh.iters.load(Ordering::SeqCst), mism, dups, eh, eo, ex, serr, worker_panics
    );
    for s in sh.err_samples.lock().unwrap_or_else(|e| e.into_inner()).iter() {
        println!("  error sample: {}", s);
    }

    // Pool's own counters after all threads joined and everything was freed.
    let st = pool.stats().expect("stats enabled");
    let allocs = st.allocations.load(Ordering::SeqCst);
    let deallocs = st.deallocations.load(Ordering::SeqCst);
    let active = st.active_blocks.load(Ordering::SeqCst);
    let failures = st.allocation_failures.load(Ordering::SeqCst);
    println!(
        "  pool stats: allocations={} deallocations={} active_blocks={} peak_blocks={} allocation_failures={}",
        allocs, deallocs, active, st.peak_blocks.load(Ordering::SeqCst), failures
    );
    let counters_bad = active != 0 || allocs != deallocs;

    // Drain: every one of the `blocks` blocks must come out exactly once.
    let mut drained: Vec<FixedCapacityAllocation> = Vec::new();
    let mut seen: HashSet<usize> = HashSet::new();
    let mut drain_dup = None;
    let mut drain_err = None;
    for _ in 0..blocks + 16 {
        match pool.allocate(size) {
            Ok(a) => {
                if !seen.insert(a.as_ptr() as usize) {
                    drain_dup = Some(format!("{:p}", a.as_ptr()));
                    std::mem::forget(a); // do not push it a second time
                    break;
                }
                drained.push(a);
            }
            Err(e) => {
                drain_err = Some(e.to_string());
                break;
            }
        }
    }
    println!(
        "  drain after join: distinct blocks obtained={} (expected {}), duplicate={:?}, terminating error={:?}",
        seen.len(), blocks, drain_dup, drain_err
    );
    let drain_bad = seen.len() != blocks || drain_dup.is_some();
    // leak the drained allocations' Drop on purpose? No: return them, the pool is dropped right after.
    drop(drained);

    let corrupt = mism > 0 || dups > 0 || eh > 0 || eo > 0 || ex > 0 || serr > 0 || worker_panics > 0 || counters_bad || drain_bad;
    let first = sh.first.lock().unwrap_or_else(|e| e.into_inner()).clone();
    let summary = format!(
        "threads={} mismatches={} dup_ptrs={} err_header={} err_oom={} err_other={} counters_bad={} drain: {}/{} dup={:?} worker_panics={} first={:?}",
        n, mism, dups, eh, eo, ex, counters_bad, seen.len(), blocks, drain_dup, worker_panics, first
    );
    RoundResult { threads: n, corrupt, summary }
}

#[test]
fn demo_c08_fixed_capacity_pool_free_list() {
    let secs = env_usize("C08_SECS", 4) as u64;
    let batch = env_usize("C08_BATCH", 4);
    let size = (env_usize("C08_SIZE", 64) & !7).max(16);
    let blocks = env_usize("C08_BLOCKS", 4096);

    let mut failed = Vec::new();
    for n in thread_counts() {
        let r = run_round(n, secs, batch, size, blocks);
        if r.corrupt {
            println!("RESULT threads={} CORRUPTION: {}", r.threads, r.summary);
            failed.push(r.summary);
            break;
        } else {
            println!("RESULT threads={} clean", r.threads);
        }
    }
    assert!(failed.is_empty(), "FixedCapacityMemoryPool: corruption detected: {:#?}", failed);
}
