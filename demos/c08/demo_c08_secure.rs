//! C08 demonstration 1/3: SecureMemoryPool global `LockFreeStack` (untagged Treiber stack).
//!
//! `LockFreeStack::pop` (src/memory/secure_pool.rs) does
//!     head = load(); next = (*head).next; CAS(head -> next); Box::from_raw(head)
//! on a plain `AtomicPtr`: (a) ABA on the node address (the node is returned to
//! the system allocator and its address is recycled by the next `push`), and
//! (b) `(*head).next` is read after another thread may already have freed `head`.
//!
//! Only the public API is used.  N threads allocate `BATCH` chunks, fill every
//! chunk with a pattern unique for (thread, iteration, slot), re-check the pattern
//! just before dropping the `SecurePooledPtr`, and drop it.  The thread-local cache
//! is configured tiny (default 1 entry) so every iteration pushes to and pops from
//! the shared global stack.
//!
//! The test FAILS (assert) when a chunk was observed to be owned by two threads
//! (pattern mismatch / duplicate pointer), when the pool returned an error, or when
//! the pool's own corruption / double-free counters are non-zero afterwards.
//! A SIGSEGV / abort of the test process is the other expected manifestation.
//!
//! Environment knobs (all optional):
//!   C08_THREADS   comma list of thread counts, default "2,4,8,16"
//!   C08_SECS      seconds per thread count, default 4
//!   C08_BATCH     chunks held per iteration, default 4
//!   C08_SIZE      chunk size in bytes (multiple of 8), default 64
//!   C08_LCACHE    SecurePoolConfig::local_cache_size, default 1
//!   C08_MODE      "same" (alloc+free on the same thread, default) or
//!                 "cross" (thread i allocates, thread i+1 verifies and frees)
//!   C08_MAX_MISSES  stop a round when pool_misses exceeds this (memory guard), default 20000000

use std::sync::atomic::{AtomicBool, AtomicU64, AtomicUsize, Ordering};
use std::sync::mpsc;
use std::sync::{Arc, Mutex};
use std::time::{Duration, Instant};
use zipora::memory::{SecureMemoryPool, SecurePoolConfig, SecurePooledPtr};

fn env_usize(name: &str, default: usize) -> usize {
    std::env::var(name).ok().and_then(|v| v.parse().ok()).unwrap_or(default)
}

fn thread_counts() -> Vec<usize> {
    std::env::var("C08_THREADS")
        .unwrap_or_else(|_| "2,4,8,16".to_string())
        .split(',')
        .filter_map(|s| s.trim().parse().ok())
        .collect()
}

#[inline]
fn word(tid: usize, iter: u64, slot: usize, w: usize) -> u64 {
    let seed = ((tid as u64 + 1) << 56) ^ (iter << 8) ^ (slot as u64);
    seed.wrapping_mul(0x9E37_79B9_7F4A_7C15) ^ (w as u64).wrapping_mul(0xD6E8_FEB8_6659_FD93)
}

unsafe fn fill(ptr: *mut u8, size: usize, tid: usize, iter: u64, slot: usize) {
    let p = ptr as *mut u64;
    for w in 0..size / 8 {
        unsafe { p.add(w).write_volatile(word(tid, iter, slot, w)) };
    }
}

/// Returns (word index, expected, found) of the first mismatching word.
unsafe fn check(ptr: *const u8, size: usize, tid: usize, iter: u64, slot: usize) -> Option<(usize, u64, u64)> {
    let p = ptr as *const u64;
    for w in 0..size / 8 {
        let got = unsafe { p.add(w).read_volatile() };
        let exp = word(tid, iter, slot, w);
        if got != exp {
            return Some((w, exp, got));
        }
    }
    None
}

#[derive(Default)]
struct Shared {
    stop: AtomicBool,
    mismatches: AtomicUsize,
    dup_ptrs: AtomicUsize,
    alloc_errors: AtomicUsize,
    validate_errors: AtomicUsize,
    size_errors: AtomicUsize,
    iters: AtomicU64,
    first: Mutex<Option<String>>,
    err_samples: Mutex<Vec<String>>,
}

impl Shared {
    fn record_first(&self, start: Instant, msg: String) {
        let mut g = self.first.lock().unwrap_or_else(|e| e.into_inner());
        if g.is_none() {
            let line = format!("[{:.3}s] {}", start.elapsed().as_secs_f64(), msg);
            println!("FIRST CORRUPTION: {}", line);
            *g = Some(line);
        }
    }
    fn sample_err(&self, msg: String) {
        let mut g = self.err_samples.lock().unwrap_or_else(|e| e.into_inner());
        if g.len() < 5 {
            g.push(msg);
        }
    }
}

struct Tagged {
    tid: usize,
    iter: u64,
    slot: usize,
    ptr: SecurePooledPtr,
}

fn verify_and_free(sh: &Shared, start: Instant, size: usize, me: usize, t: Tagged) {
    let raw = t.ptr.as_ptr();
    if let Some((w, exp, got)) = unsafe { check(raw, size, t.tid, t.iter, t.slot) } {
        sh.mismatches.fetch_add(1, Ordering::Relaxed);
        sh.record_first(
            start,
            format!(
                "pattern mismatch: checker thread {} chunk {:p} written by (tid {}, iter {}, slot {}) word {}: expected {:#018x} found {:#018x}",
                me, raw, t.tid, t.iter, t.slot, w, exp, got
            ),
        );
        sh.stop.store(true, Ordering::SeqCst);
    }
    if let Err(e) = t.ptr.validate() {
        sh.validate_errors.fetch_add(1, Ordering::Relaxed);
        sh.sample_err(format!("SecurePooledPtr::validate: {}", e));
    }
    drop(t.ptr);
}

struct RoundResult {
    threads: usize,
    corrupt: bool,
    summary: String,
}

fn run_round(n: usize, secs: u64, batch: usize, size: usize, lcache: usize, mode: &str, max_misses: u64) -> RoundResult {
    let mut cfg = SecurePoolConfig::small_secure();
    cfg.chunk_size = size;
    cfg.local_cache_size = lcache;
    let pool = SecureMemoryPool::new(cfg).expect("pool");
    let sh = Arc::new(Shared::default());
    let start = Instant::now();
    let dur = Duration::from_secs(secs);

    let mut worker_panics = 0usize;
    if mode == "cross" {
        // thread i allocates + writes, sends to thread (i+1)%n which verifies + frees
        let mut txs = Vec::new();
        let mut rxs = Vec::new();
        for _ in 0..n {
            let (tx, rx) = mpsc::sync_channel::<Tagged>(batch * 4);
            txs.push(tx);
            rxs.push(Some(rx));
        }
        let mut handles = Vec::new();
        for tid in 0..n {
            let pool = Arc::clone(&pool);
            let sh = Arc::clone(&sh);
            let tx = txs[(tid + 1) % n].clone();
            let rx = rxs[tid].take().unwrap();
            handles.push(std::thread::spawn(move || {
                let mut iter = 0u64;
                'outer: loop {
                    iter += 1;
                    if sh.stop.load(Ordering::Relaxed) || start.elapsed() > dur {
                        break;
                    }
                    for slot in 0..batch {
                        match pool.allocate() {
                            Ok(p) => {
                                if p.size() != size {
                                    sh.size_errors.fetch_add(1, Ordering::Relaxed);
                                    continue;
                                }
                                unsafe { fill(p.as_ptr(), size, tid, iter, slot) };
                                let mut item = Tagged { tid, iter, slot, ptr: p };
                                loop {
                                    match tx.try_send(item) {
                                        Ok(()) => break,
                                        Err(mpsc::TrySendError::Full(back)) => {
                                            item = back;
                                            // drain own inbox to avoid deadlock
                                            while let Ok(t) = rx.try_recv() {
                                                verify_and_free(&sh, start, size, tid, t);
                                            }
                                            if sh.stop.load(Ordering::Relaxed) || start.elapsed() > dur {
                                                verify_and_free(&sh, start, size, tid, item);
                                                break 'outer;
                                            }
                                        }
                                        Err(mpsc::TrySendError::Disconnected(back)) => {
                                            verify_and_free(&sh, start, size, tid, back);
                                            break 'outer;
                                        }
                                    }
                                }
                            }
                            Err(e) => {
                                sh.alloc_errors.fetch_add(1, Ordering::Relaxed);
                                sh.sample_err(format!("allocate: {}", e));
                            }
                        }
                    }
                    while let Ok(t) = rx.try_recv() {
                        verify_and_free(&sh, start, size, tid, t);
                    }
                    if iter % 256 == 0 && pool.stats().pool_misses > max_misses {
                        sh.stop.store(true, Ordering::SeqCst);
                    }
                }
                sh.iters.fetch_add(iter, Ordering::Relaxed);
                drop(tx);
                // drain what is left
                let end = Instant::now() + Duration::from_millis(300);
                while Instant::now() < end {
                    match rx.try_recv() {
                        Ok(t) => verify_and_free(&sh, start, size, tid, t),
                        Err(_) => std::thread::yield_now(),
                    }
                }
            }));
        }
        drop(txs);
        for h in handles {
            if h.join().is_err() {
                worker_panics += 1;
            }
        }
    } else {
        let mut handles = Vec::new();
        for tid in 0..n {
            let pool = Arc::clone(&pool);
            let sh = Arc::clone(&sh);
            handles.push(std::thread::spawn(move || {
                let mut iter = 0u64;
                let mut held: Vec<Tagged> = Vec::with_capacity(batch);
                loop {
                    iter += 1;
                    if sh.stop.load(Ordering::Relaxed) {
                        break;
                    }
                    if iter % 64 == 0 {
                        if start.elapsed() > dur {
                            break;
                        }
                        if pool.stats().pool_misses > max_misses {
                            sh.stop.store(true, Ordering::SeqCst);
                            break;
                        }
                    }
                    for slot in 0..batch {
                        match pool.allocate() {
                            Ok(p) => {
                                if p.size() != size {
                                    sh.size_errors.fetch_add(1, Ordering::Relaxed);
                                    continue;
                                }
                                if held.iter().any(|h| h.ptr.as_ptr() == p.as_ptr()) {
                                    sh.dup_ptrs.fetch_add(1, Ordering::Relaxed);
                                    sh.record_first(
                                        start,
                                        format!("thread {} received chunk {:p} twice within one batch (iter {})", tid, p.as_ptr(), iter),
                                    );
                                    sh.stop.store(true, Ordering::SeqCst);
                                }
                                unsafe { fill(p.as_ptr(), size, tid, iter, slot) };
                                held.push(Tagged { tid, iter, slot, ptr: p });
                            }
                            Err(e) => {
                                sh.alloc_errors.fetch_add(1, Ordering::Relaxed);
                                sh.sample_err(format!("allocate: {}", e));
                            }
                        }
                    }
                    for t in held.drain(..) {
                        verify_and_free(&sh, start, size, tid, t);
                    }
                }
                sh.iters.fetch_add(iter, Ordering::Relaxed);
            }));
        }
        for h in handles {
            if h.join().is_err() {
                worker_panics += 1;
            }
        }
    }

    let elapsed = start.elapsed().as_secs_f64();
    let st = pool.stats();
    let mism = sh.mismatches.load(Ordering::SeqCst);
    let dups = sh.dup_ptrs.load(Ordering::SeqCst);
    let aerr = sh.alloc_errors.load(Ordering::SeqCst);
    let verr = sh.validate_errors.load(Ordering::SeqCst);
    let serr = sh.size_errors.load(Ordering::SeqCst);
    println!(
        "round threads={} mode={} lcache={} batch={} size={} elapsed={:.2}s iters={} | harness: mismatches={} dup_ptrs={} alloc_errors={} validate_errors={} size_errors={} worker_panics={}",
        n, mode, lcache, batch, size, elapsed, sh.iters.load(Ordering::SeqCst), mism, dups, aerr, verr, serr, worker_panics
    );
    println!(
        "  pool stats: alloc_count={} dealloc_count={} pool_hits={} pool_misses={} local_cache_hits={} cross_thread_steals(global pops)={} corruption_detected={} double_free_detected={}",
        st.alloc_count, st.dealloc_count, st.pool_hits, st.pool_misses, st.local_cache_hits, st.cross_thread_steals, st.corruption_detected, st.double_free_detected
    );
    for s in sh.err_samples.lock().unwrap_or_else(|e| e.into_inner()).iter() {
        println!("  error sample: {}", s);
    }
    // printed before validate() on purpose: validate dereferences tracked addresses
    let pool_validate = pool.validate();
    println!("  pool.validate() after join = {:?}", pool_validate.as_ref().map_err(|e| e.to_string()));

    let corrupt = mism > 0
        || dups > 0
        || aerr > 0
        || verr > 0
        || serr > 0
        || worker_panics > 0
        || st.corruption_detected > 0
        || st.double_free_detected > 0
        || pool_validate.is_err();
    let first = sh.first.lock().unwrap_or_else(|e| e.into_inner()).clone();
    let summary = format!(
        "threads={} mismatches={} dup_ptrs={} alloc_errors={} validate_errors={} pool.corruption_detected={} pool.double_free_detected={} worker_panics={} first={:?}",
        n, mism, dups, aerr, verr, st.corruption_detected, st.double_free_detected, worker_panics, first
    );
    RoundResult { threads: n, corrupt, summary }
}

#[test]
fn demo_c08_secure_pool_global_stack() {
    let secs = env_usize("C08_SECS", 4) as u64;
    let batch = env_usize("C08_BATCH", 4);
    let size = env_usize("C08_SIZE", 64) & !7;
    let lcache = env_usize("C08_LCACHE", 1);
    let max_misses = env_usize("C08_MAX_MISSES", 20_000_000) as u64;
    let mode = std::env::var("C08_MODE").unwrap_or_else(|_| "same".to_string());
    assert!(lcache >= 1, "local_cache_size 0 makes deallocate_internal unwrap() an empty cache (separate defect)");

    let mut failed = Vec::new();
    for n in thread_counts() {
        let r = run_round(n, secs, batch, size, lcache, &mode, max_misses);
        if r.corrupt {
            println!("RESULT threads={} CORRUPTION: {}", r.threads, r.summary);
            failed.push(r.summary);
            break;
        } else {
            println!("RESULT threads={} clean", r.threads);
        }
    }
    assert!(failed.is_empty(), "SecureMemoryPool: corruption detected: {:#?}", failed);
}
