#!/bin/bash
# usage: run.sh <profile: release|debug> <test> <label> <runs> [ENV=VAL ...]
# Runs the already-built test binary through cargo N times, stores raw output per run.
prof=$1; test=$2; label=$3; runs=$4; shift 4
# optional: export C08_FILTER=<test fn name substring> before calling to run one #[test] only
flag=""; [ "$prof" = release ] && flag="--release"
cd /tmp/zw08
fail=0
for i in $(seq 1 $runs); do
  log=/tmp/zw08_out/logs/${test}.${prof}.${label}.run${i}.log
  s=$(date +%s.%N)
  env "$@" CARGO_TARGET_DIR=/tmp/zw08-target CARGO_NET_OFFLINE=true timeout 300 cargo test --offline $flag --test $test -- --nocapture --test-threads=1 $C08_FILTER > $log.full 2>&1
  rc=$?
  e=$(date +%s.%N)
  grep -v "^warning\|^ *|\|^ *= \|^ *-->\|^ *[0-9]* |\|^\s*$\|conda" $log.full > $log; rm -f $log.full
  echo "exit_code=$rc wall=$(echo "$e - $s" | bc)s env: $*" >> $log
  verdict=clean; [ $rc -ne 0 ] && { verdict=FAIL; fail=$((fail+1)); }
  sig=$(grep -o "signal: [0-9]*, SIG[A-Z]*" $log | head -1)
  firstc=$(grep -m1 -o "FIRST CORRUPTION: \[[0-9.]*s\]" $log)
  echo "run $i: $verdict rc=$rc wall=$(echo "$e - $s" | bc | cut -c1-6)s $sig $firstc"
done
echo "== $test $prof $label: $fail/$runs runs failed"
