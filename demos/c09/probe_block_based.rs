//! `IntVec::from_slice(&v)?.get(i) == Some(v[i])` must hold for every i, whatever
//! compression strategy is selected.
//!
//! Large clustered inputs (> 10,000 elements, > 16 KiB, values close together inside
//! each 128-element block, blocks far apart) select the block-based strategy.

use zipora::IntVec;

struct Lcg(u64);

impl Lcg {
    fn next(&mut self) -> u64 {
        self.0 = self.0.wrapping_mul(6364136223846793005).wrapping_add(1442695040888963407);
        self.0 >> 33
    }
}

/// `num_blocks` blocks of 128 values; block k holds `base(k) + small unsorted offsets`.
fn clustered(num_blocks: usize, tail: usize, base: impl Fn(usize) -> u64, seed: u64) -> Vec<u64> {
    let mut rng = Lcg(seed);
    let len = num_blocks * 128 + tail;
    (0..len).map(|i| base(i / 128) + rng.next() % 100).collect()
}

fn assert_roundtrip(values: &[u64]) {
    let vec = IntVec::<u64>::from_slice(values).unwrap();
    assert_eq!(vec.len(), values.len());

    // The block-based layout is far smaller than min-max packing of the global range;
    // make sure the input really exercises it.
    let min = *values.iter().min().unwrap();
    let max = *values.iter().max().unwrap();
    let min_max_bits = 64 - (max - min).leading_zeros() as usize;
    let min_max_bytes = values.len() * min_max_bits / 8;
    assert!(
        vec.memory_usage() < min_max_bytes / 2,
        "input did not select the block-based strategy ({} bytes vs {} for min-max)",
        vec.memory_usage(),
        min_max_bytes
    );

    let mut mismatches = 0usize;
    let mut first = None;
    for (i, &expected) in values.iter().enumerate() {
        let got = vec.get(i);
        if got != Some(expected) {
            mismatches += 1;
            if first.is_none() {
                first = Some((i, got, expected));
            }
        }
    }
    assert_eq!(
        mismatches, 0,
        "{} of {} values read back wrong; first: index {:?} (got, expected)",
        mismatches,
        values.len(),
        first
    );
}

/// Baseline: smallest block minimum is 0, nothing has to be added back.
#[test]
fn block_based_roundtrip_smallest_block_min_zero() {
    let mut values = clustered(160, 0, |k| ((k * 7) % 160) as u64 * 1_000_000, 1);
    values[0] = 0;
    assert_roundtrip(&values);
}

/// Every block is far from 0: base_0 = 1_000_000_000.
#[test]
fn block_based_roundtrip_blocks_far_from_zero() {
    let values = clustered(160, 0, |k| 1_000_000_000 + ((k * 7) % 160) as u64 * 1_000_000, 2);
    assert_roundtrip(&values);
}

/// Partial last block, and the smallest block is not the first one.
#[test]
fn block_based_roundtrip_partial_last_block() {
    let values = clustered(200, 57, |k| 5_000_000_000_000 + ((k * 13 + 5) % 201) as u64 * 123_457, 3);
    assert_roundtrip(&values);
}

/// All blocks share one base: the sample index holds only zeros.
#[test]
fn block_based_roundtrip_single_cluster_far_from_zero() {
    // One outlier block widens the global range so min-max packing loses
    let values = clustered(160, 0, |k| if k == 80 { 1 << 40 } else { 777_000_000 }, 4);
    assert_roundtrip(&values);
}
