//! C09 / C03: SortedUintVecBuilder::finish() succeeds for a block minimum that does not fit `sample_width` bits and the
//! stored sample is silently cut to its low bits, so get(i) returns a different number. The delta next to it is
//! range-checked against offset_width and refused; the sample was not.

use zipora::blob_store::sorted_uint_vec::{SortedUintVecBuilder, SortedUintVecConfig};

fn check(values: &[u64]) {
    let mut b = SortedUintVecBuilder::with_config(SortedUintVecConfig::default());
    for &v in values {
        b.push(v).unwrap();
    }
    match b.finish() {
        Err(_) => {} // refusing is fine
        Ok(v) => {
            for (i, &x) in values.iter().enumerate() {
                assert_eq!(v.get(i).unwrap(), x, "element {i} of {values:?}");
            }
        }
    }
}

#[test]
fn small_values_control() {
    check(&[1, 2, 3, 1000, 1001]);
}

#[test]
fn block_minimum_wider_than_sample_width() {
    // default sample_width is 32 bits
    check(&[(1u64 << 32) + 5, (1u64 << 32) + 6, (1u64 << 32) + 9]);
}
