//! C09: IntVec::from_slice on a sequence that is sorted at every sampled position but not in between. The small-dataset
//! analysis asks fast_sorted_check(), which looks at every (len/16)-th element only, takes the sequence for sorted and
//! picks the Delta strategy, whose encoder computes values[i] - values[i-1]: a subtraction overflow panic in debug
//! builds, wrong elements in release builds.

use zipora::containers::specialized::IntVec;

#[test]
fn sorted_control() {
    let v: Vec<u64> = (0..40u64).map(|i| i * 10 + (i % 3)).collect();
    let iv = IntVec::<u64>::from_slice(&v).unwrap();
    for (i, &x) in v.iter().enumerate() {
        assert_eq!(iv.get(i), Some(x));
    }
}

#[test]
fn unsorted_between_samples() {
    // len 40 -> sample step 2: even positions ascend, odd positions hold a small value
    let v: Vec<u64> = (0..40u64).map(|i| if i % 2 == 0 { 1000 + i * 10 } else { 5 }).collect();
    let r = std::panic::catch_unwind(|| IntVec::<u64>::from_slice(&v));
    let iv = r.expect("from_slice panicked").expect("from_slice failed");
    assert_eq!(iv.len(), v.len());
    for (i, &x) in v.iter().enumerate() {
        assert_eq!(iv.get(i), Some(x), "element {i}");
    }
}
