//! C09: IntVec with a min-max width of 58..63 bits: read_bits loads one 8-byte window at the byte that holds the first
//! bit and shifts by `bit_offset % 8`, so an element that starts at bit 1..7 of a byte and is wider than 64 - that
//! shift loses its top bits.

use zipora::containers::specialized::IntVec;

fn check(values: &[u64]) {
    let v = IntVec::<u64>::from_slice(values).unwrap();
    assert_eq!(v.len(), values.len());
    for (i, &x) in values.iter().enumerate() {
        assert_eq!(v.get(i), Some(x), "element {i} of {} values (max {:#x})", values.len(), values.iter().max().unwrap());
    }
}

#[test]
fn narrow_control() {
    check(&[0, 1 << 20, (1 << 20) + 12345, 3, 99, 1 << 19]);
}

#[test]
fn sixty_one_bit_range() {
    let top = 1u64 << 60;
    let vals: Vec<u64> = (0..40u64).map(|i| if i % 3 == 0 { i } else { top + i * 0x1234_5678_9abc }).collect();
    check(&vals);
}

#[test]
fn sixty_three_bit_range() {
    let top = 1u64 << 62;
    let vals: Vec<u64> = (0..40u64).map(|i| if i % 2 == 0 { i * 7 } else { top + i * 0x0fed_cba9_8765 }).collect();
    check(&vals);
}
