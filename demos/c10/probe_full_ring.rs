//! AutoGrowCircularQueue must behave like std::collections::VecDeque for every
//! operation history: same contents, same order, every element dropped exactly once.
//!
//! `push_bulk` can fill the ring completely (len == capacity), which leaves
//! head == tail with elements present. Every operation has to cope with that state.

use std::collections::VecDeque;
use std::rc::Rc;
use zipora::AutoGrowCircularQueue;

fn full_ring(items: &[Rc<u32>]) -> AutoGrowCircularQueue<Rc<u32>> {
    let mut queue: AutoGrowCircularQueue<Rc<u32>> = AutoGrowCircularQueue::with_capacity(8);
    assert_eq!(queue.push_bulk(items).unwrap(), 8);
    assert_eq!(queue.len(), 8);
    for rc in items {
        assert_eq!(Rc::strong_count(rc), 2);
    }
    queue
}

/// Reported case: with_capacity(8) + push_bulk of 8 items fills the ring exactly.
#[test]
fn full_ring_debug_lists_every_element() {
    let items: Vec<Rc<u32>> = (0..8).map(Rc::new).collect();
    let queue = full_ring(&items);
    assert_eq!(format!("{:?}", queue), "[0, 1, 2, 3, 4, 5, 6, 7]");
}

#[test]
fn full_ring_clone_copies_every_element() {
    let items: Vec<Rc<u32>> = (0..8).map(Rc::new).collect();
    let queue = full_ring(&items);
    let cloned = queue.clone();
    assert_eq!(cloned.len(), 8, "clone of a full ring lost its elements");
    assert!(cloned == queue);
    for rc in &items {
        assert_eq!(Rc::strong_count(rc), 3);
    }
}

#[test]
fn full_ring_clear_drops_every_element() {
    let items: Vec<Rc<u32>> = (0..8).map(Rc::new).collect();
    let mut queue = full_ring(&items);
    queue.clear();
    assert!(queue.is_empty());
    let leaked = items.iter().filter(|rc| Rc::strong_count(rc) != 1).count();
    assert_eq!(leaked, 0, "clear() of a full ring leaked {} of 8 elements", leaked);
}

#[test]
fn full_ring_drop_releases_every_element() {
    let items: Vec<Rc<u32>> = (0..8).map(Rc::new).collect();
    let queue = full_ring(&items);
    drop(queue);
    let leaked = items.iter().filter(|rc| Rc::strong_count(rc) != 1).count();
    assert_eq!(leaked, 0, "dropping a full ring leaked {} of 8 elements", leaked);
}

/// Same state reached with head != 0: the ring is full and wrapped.
#[test]
fn full_wrapped_ring_is_not_treated_as_empty() {
    let items: Vec<Rc<u32>> = (0..11).map(Rc::new).collect();

    let mut queue: AutoGrowCircularQueue<Rc<u32>> = AutoGrowCircularQueue::with_capacity(8);
    queue.push_bulk(&items[..3]).unwrap();
    assert_eq!(queue.pop_front().map(|rc| *rc), Some(0));
    assert_eq!(queue.pop_front().map(|rc| *rc), Some(1));
    assert_eq!(queue.pop_front().map(|rc| *rc), Some(2));
    // head == tail == 3, empty; fill all 8 slots
    queue.push_bulk(&items[3..]).unwrap();
    assert_eq!(queue.len(), 8);
    assert_eq!(queue.capacity(), 8);

    assert_eq!(format!("{:?}", queue), "[3, 4, 5, 6, 7, 8, 9, 10]");
    let cloned = queue.clone();
    assert_eq!(cloned.len(), 8);
    assert!(cloned == queue);
    drop(cloned);
    drop(queue);
    for rc in &items {
        assert_eq!(Rc::strong_count(rc), 1);
    }
}

struct Lcg(u64);

impl Lcg {
    fn next(&mut self) -> u64 {
        self.0 = self.0.wrapping_mul(6364136223846793005).wrapping_add(1442695040888963407);
        self.0 >> 33
    }
    fn below(&mut self, n: u64) -> u64 {
        self.next() % n
    }
}

/// `master[id]` is the only reference outside of the queue, so its strong count
/// tells how many copies of `id` the queue (and nothing else) currently owns.
fn check(
    queue: &AutoGrowCircularQueue<Rc<u32>>,
    model: &VecDeque<u32>,
    master: &[Rc<u32>],
    history: &[String],
) {
    let ctx = || format!("history: {:?}", history);

    assert_eq!(queue.len(), model.len(), "len; {}", ctx());
    assert_eq!(queue.is_empty(), model.is_empty(), "is_empty; {}", ctx());
    assert_eq!(queue.front().map(|rc| **rc), model.front().copied(), "front; {}", ctx());
    assert_eq!(queue.back().map(|rc| **rc), model.back().copied(), "back; {}", ctx());
    assert_eq!(format!("{:?}", queue), format!("{:?}", model), "Debug; {}", ctx());

    for (id, rc) in master.iter().enumerate() {
        let expected = 1 + model.iter().filter(|&&v| v as usize == id).count();
        assert_eq!(Rc::strong_count(rc), expected, "strong count of {}; {}", id, ctx());
    }

    let cloned = queue.clone();
    assert_eq!(cloned.len(), model.len(), "clone len; {}", ctx());
    assert_eq!(format!("{:?}", cloned), format!("{:?}", model), "clone Debug; {}", ctx());
    assert!(cloned == *queue, "clone == original; {}", ctx());
    for (id, rc) in master.iter().enumerate() {
        let expected = 1 + 2 * model.iter().filter(|&&v| v as usize == id).count();
        assert_eq!(Rc::strong_count(rc), expected, "strong count of {} with clone; {}", id, ctx());
    }
}

fn run_history(seed: u64, initial_capacity: usize, steps: usize) {
    let mut rng = Lcg(seed);
    let mut master: Vec<Rc<u32>> = Vec::new();
    let mut queue: AutoGrowCircularQueue<Rc<u32>> =
        AutoGrowCircularQueue::with_capacity(initial_capacity);
    let mut model: VecDeque<u32> = VecDeque::new();
    let mut history: Vec<String> = vec![format!("with_capacity({})", initial_capacity)];

    let fresh = |master: &mut Vec<Rc<u32>>| -> Rc<u32> {
        let rc = Rc::new(master.len() as u32);
        master.push(rc.clone());
        rc
    };

    for _ in 0..steps {
        match rng.below(8) {
            0 | 1 => {
                let rc = fresh(&mut master);
                history.push(format!("push_back({})", rc));
                model.push_back(*rc);
                queue.push_back(rc).unwrap();
            }
            2 => {
                history.push("pop_front".to_string());
                assert_eq!(queue.pop_front().map(|rc| *rc), model.pop_front());
            }
            3 | 4 => {
                // Prefer sizes that fill the ring exactly
                let free = queue.capacity() - queue.len();
                let n = if rng.below(2) == 0 && free <= 64 { free } else { rng.below(20) as usize };
                let items: Vec<Rc<u32>> = (0..n).map(|_| fresh(&mut master)).collect();
                history.push(format!("push_bulk({} items)", n));
                model.extend(items.iter().map(|rc| **rc));
                assert_eq!(queue.push_bulk(&items).unwrap(), n);
            }
            5 => {
                let n = rng.below(12) as usize;
                history.push(format!("pop_bulk({})", n));
                let filler = Rc::new(u32::MAX);
                let mut output: Vec<Rc<u32>> = vec![filler.clone(); n];
                let popped = queue.pop_bulk(&mut output);
                assert_eq!(popped, n.min(model.len()), "pop_bulk count; history: {:?}", history);
                for slot in output.iter().take(popped) {
                    assert_eq!(Some(**slot), model.pop_front(), "pop_bulk order; history: {:?}", history);
                }
                for slot in output.iter().skip(popped) {
                    assert!(Rc::ptr_eq(slot, &filler));
                }
            }
            6 => {
                if rng.below(4) == 0 {
                    history.push("clear".to_string());
                    queue.clear();
                    model.clear();
                } else {
                    let n = rng.below(10) as usize;
                    history.push(format!("reserve({})", n));
                    queue.reserve(n).unwrap();
                }
            }
            _ => {
                history.push("replace with clone".to_string());
                let cloned = queue.clone();
                queue = cloned;
            }
        }
        check(&queue, &model, &master, &history);
    }

    history.push("drop".to_string());
    drop(queue);
    for (id, rc) in master.iter().enumerate() {
        assert_eq!(Rc::strong_count(rc), 1, "leaked {} after drop; history: {:?}", id, history);
    }
}

#[test]
fn behaves_like_vecdeque_for_random_histories() {
    for seed in 0..300u64 {
        for &cap in &[1usize, 2, 4, 8, 16] {
            run_history(seed * 31 + cap as u64, cap, 40);
        }
    }
}
