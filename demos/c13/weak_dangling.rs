// Demonstration for C13: a dangling Weak is written as the single marker byte 0, but the reader's arm for
// marker 0 deserialises a T, i.e. consumes bytes that belong to whatever follows (or fails at end of input).
use std::rc::{Rc, Weak};
use zipora::io::smart_ptr::{DeserializationContext, SerializationContext, SmartPtrSerialize};
use zipora::io::{DataInput, DataOutput, SliceDataInput, VecDataOutput};

#[test]
fn dangling_rc_weak_consumes_exactly_its_own_bytes() {
    let dangling: Weak<u32> = {
        let rc = Rc::new(7u32);
        Rc::downgrade(&rc)
    };
    let mut out = VecDataOutput::new();
    let mut sctx = SerializationContext::new();
    dangling.serialize_with_context(&mut out, &mut sctx).unwrap();
    out.write_u32(0xAABBCCDD).unwrap(); // the next field of the enclosing record
    let bytes = out.into_vec();
    assert_eq!(bytes.len(), 1 + 4);

    let mut input = SliceDataInput::new(&bytes);
    let mut dctx = DeserializationContext::new();
    let w = <Weak<u32> as SmartPtrSerialize<u32>>::deserialize_with_context(&mut input, &mut dctx).unwrap();
    assert!(w.upgrade().is_none());
    assert_eq!(input.read_u32().unwrap(), 0xAABBCCDD, "the field after the dangling Weak must still be there");
}

#[test]
fn dangling_arc_weak_alone_decodes() {
    let dangling: std::sync::Weak<u32> = {
        let a = std::sync::Arc::new(7u32);
        std::sync::Arc::downgrade(&a)
    };
    let mut out = VecDataOutput::new();
    let mut sctx = SerializationContext::new();
    dangling.serialize_with_context(&mut out, &mut sctx).unwrap();
    let bytes = out.into_vec();
    let mut input = SliceDataInput::new(&bytes);
    let mut dctx = DeserializationContext::new();
    let w = <std::sync::Weak<u32> as SmartPtrSerialize<u32>>::deserialize_with_context(&mut input, &mut dctx)
        .expect("a value that was serialised must decode");
    assert!(w.upgrade().is_none());
}
