//! C15 demo, item 7: `HashMap` / `HashSet` `deserialize_with_version` and
//! `ComplexTypeSerializer::deserialize_batch` (src/io/complex_types.rs) do
//! `with_capacity(len)` with `len` a `read_u32()` of the input.
//!
//! Input: 4 bytes (0xFFFF_FFFF) without metadata, 16 bytes with metadata.

use std::collections::{HashMap, HashSet};
use zipora::io::{ComplexTypeConfig, ComplexTypeSerializer};

use std::os::unix::process::ExitStatusExt;
use std::process::Command;

const CHILD_ENV: &str = "ZDEMO_CHILD";
/// Address-space limit of the child in KiB (`ulimit -v`), about 2 GiB.
const CHILD_AS_LIMIT_KIB: u64 = 2_000_000;

/// Parent: re-execute this test binary for exactly `test_name` in a child process whose address
/// space is limited with `ulimit -v`, and require that the child exits with status 0 after
/// printing a `ZDEMO_RESULT` line (i.e. the parser returned Ok or Err).
/// Child (`ZDEMO_CHILD` set): run `body` (the call of the parser) and print its outcome.
/// A panic in the child gives exit code 101, an abort gives signal 6; both fail the test.
fn demo(test_name: &str, body: impl FnOnce() -> String) {
    if std::env::var_os(CHILD_ENV).is_some() {
        let outcome = body();
        println!("\nZDEMO_RESULT {outcome}");
        return;
    }
    let exe = std::env::current_exe().expect("current_exe");
    let out = Command::new("sh")
        .arg("-c")
        .arg(format!("ulimit -v {CHILD_AS_LIMIT_KIB}; exec \"$0\" \"$@\""))
        .arg(&exe)
        .args(["--exact", test_name, "--nocapture", "--test-threads=1"])
        .env(CHILD_ENV, "1")
        .env("RUST_BACKTRACE", "0")
        .output()
        .expect("spawn child");
    let stdout = String::from_utf8_lossy(&out.stdout);
    let stderr = String::from_utf8_lossy(&out.stderr);
    let result = stdout.lines().find(|l| l.starts_with("ZDEMO_RESULT"));
    assert!(
        out.status.success() && result.is_some(),
        "{test_name}: the parser did not return. child exit code = {:?}, signal = {:?}\n\
         --- child stderr ---\n{stderr}\n--- child stdout ---\n{stdout}",
        out.status.code(),
        out.status.signal(),
    );
    println!("{test_name}: child returned normally: {}", result.unwrap());
}

fn show<T>(r: Result<T, zipora::ZiporaError>, ok: impl FnOnce(T) -> String) -> String {
    match r {
        Ok(v) => format!("Ok({})", ok(v)),
        Err(e) => format!("Err({e})"),
    }
}

const LEN_MAX: [u8; 4] = [0xFF, 0xFF, 0xFF, 0xFF];

#[test]
fn item7_hashmap_len() {
    demo("item7_hashmap_len", || {
        let s = ComplexTypeSerializer::new(ComplexTypeConfig::fast()); // no metadata
        show(s.deserialize_from_bytes::<HashMap<u32, u32>>(&LEN_MAX), |m| format!("{} entries", m.len()))
    });
}

/// Default configuration (with metadata): "hashmap" type id + version, then the length.
#[test]
fn item7_hashmap_len_with_metadata() {
    demo("item7_hashmap_len_with_metadata", || {
        let mut d = vec![7u8];
        d.extend_from_slice(b"hashmap");
        d.extend_from_slice(&1u32.to_le_bytes()); // version
        d.extend_from_slice(&LEN_MAX);
        assert_eq!(d.len(), 16);
        let s = ComplexTypeSerializer::default();
        show(s.deserialize_from_bytes::<HashMap<u32, u32>>(&d), |m| format!("{} entries", m.len()))
    });
}

#[test]
fn item7_hashset_len() {
    demo("item7_hashset_len", || {
        let s = ComplexTypeSerializer::new(ComplexTypeConfig::fast());
        show(s.deserialize_from_bytes::<HashSet<u32>>(&LEN_MAX), |m| format!("{} entries", m.len()))
    });
}

#[test]
fn item7_batch_count() {
    demo("item7_batch_count", || {
        let s = ComplexTypeSerializer::new(ComplexTypeConfig::fast());
        show(s.deserialize_batch::<(u64, u64)>(&LEN_MAX), |v| format!("{} values", v.len()))
    });
}
