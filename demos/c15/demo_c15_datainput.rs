//! C15 demo, item 9: `DataInput::read_vec` (src/io/data_input.rs) does `vec![0u8; len]`;
//! `read_length_prefixed_bytes` / `read_length_prefixed_string` pass a varint read from the
//! stream as `len`.
//!
//! Input: 6 bytes (varint 2^40) or 10 bytes (varint u64::MAX).

use zipora::io::{DataInput, ReaderDataInput, SerializableType, SliceDataInput};

use std::os::unix::process::ExitStatusExt;
use std::process::Command;

const CHILD_ENV: &str = "ZDEMO_CHILD";
/// Address-space limit of the child in KiB (`ulimit -v`), about 2 GiB.
const CHILD_AS_LIMIT_KIB: u64 = 2_000_000;

/// Parent: re-execute this test binary for exactly `test_name` in a child process whose address
/// space is limited with `ulimit -v`, and require that the child exits with status 0 after
/// printing a `ZDEMO_RESULT` line (i.e. the parser returned Ok or Err).
/// Child (`ZDEMO_CHILD` set): run `body` (the call of the parser) and print its outcome.
/// A panic in the child gives exit code 101, an abort gives signal 6; both fail the test.
fn demo(test_name: &str, body: impl FnOnce() -> String) {
    if std::env::var_os(CHILD_ENV).is_some() {
        let outcome = body();
        println!("\nZDEMO_RESULT {outcome}");
        return;
    }
    let exe = std::env::current_exe().expect("current_exe");
    let out = Command::new("sh")
        .arg("-c")
        .arg(format!("ulimit -v {CHILD_AS_LIMIT_KIB}; exec \"$0\" \"$@\""))
        .arg(&exe)
        .args(["--exact", test_name, "--nocapture", "--test-threads=1"])
        .env(CHILD_ENV, "1")
        .env("RUST_BACKTRACE", "0")
        .output()
        .expect("spawn child");
    let stdout = String::from_utf8_lossy(&out.stdout);
    let stderr = String::from_utf8_lossy(&out.stderr);
    let result = stdout.lines().find(|l| l.starts_with("ZDEMO_RESULT"));
    assert!(
        out.status.success() && result.is_some(),
        "{test_name}: the parser did not return. child exit code = {:?}, signal = {:?}\n\
         --- child stderr ---\n{stderr}\n--- child stdout ---\n{stdout}",
        out.status.code(),
        out.status.signal(),
    );
    println!("{test_name}: child returned normally: {}", result.unwrap());
}

fn show<T>(r: Result<T, zipora::ZiporaError>, ok: impl FnOnce(T) -> String) -> String {
    match r {
        Ok(v) => format!("Ok({})", ok(v)),
        Err(e) => format!("Err({e})"),
    }
}

/// varint encoding of 2^40 (6 bytes)
const LEN_2_POW_40: [u8; 6] = [0x80, 0x80, 0x80, 0x80, 0x80, 0x20];
/// varint encoding of u64::MAX (10 bytes)
const LEN_U64_MAX: [u8; 10] = [0xFF, 0xFF, 0xFF, 0xFF, 0xFF, 0xFF, 0xFF, 0xFF, 0xFF, 0x01];

#[test]
fn item9_slice_length_prefixed_bytes() {
    demo("item9_slice_length_prefixed_bytes", || {
        let mut input = SliceDataInput::new(&LEN_2_POW_40);
        show(input.read_length_prefixed_bytes(), |v| format!("{} bytes", v.len()))
    });
}

#[test]
fn item9_reader_length_prefixed_string() {
    demo("item9_reader_length_prefixed_string", || {
        let mut input = ReaderDataInput::new(std::io::Cursor::new(LEN_2_POW_40.to_vec()));
        show(input.read_length_prefixed_string(), |s| format!("{} chars", s.len()))
    });
}

/// len = u64::MAX: `vec![0u8; usize::MAX]` panics with "capacity overflow" instead of aborting.
#[test]
fn item9_slice_length_u64_max() {
    demo("item9_slice_length_u64_max", || {
        let mut input = SliceDataInput::new(&LEN_U64_MAX);
        show(input.read_length_prefixed_bytes(), |v| format!("{} bytes", v.len()))
    });
}

/// The same sink through `<String as SerializableType>::deserialize`.
#[test]
fn item9_string_deserialize() {
    demo("item9_string_deserialize", || {
        let mut input = SliceDataInput::new(&LEN_2_POW_40);
        show(<String as SerializableType>::deserialize(&mut input), |s| format!("{} chars", s.len()))
    });
}
