//! C15 demo, item 4: `FseDecoder::decompress_single` (src/entropy/fse.rs) does
//! `Vec::with_capacity(original_size)` with `original_size` a u32 of the input.
//!
//! Stream: original_size(4) | table_log(1) | num_symbols(2) | (symbol(1) freq(4))* | .. | state(8)
//! 25 bytes are enough.

use zipora::entropy::fse_decompress;

use std::os::unix::process::ExitStatusExt;
use std::process::Command;

const CHILD_ENV: &str = "ZDEMO_CHILD";
/// Address-space limit of the child in KiB (`ulimit -v`), about 2 GiB.
const CHILD_AS_LIMIT_KIB: u64 = 2_000_000;

/// Parent: re-execute this test binary for exactly `test_name` in a child process whose address
/// space is limited with `ulimit -v`, and require that the child exits with status 0 after
/// printing a `ZDEMO_RESULT` line (i.e. the parser returned Ok or Err).
/// Child (`ZDEMO_CHILD` set): run `body` (the call of the parser) and print its outcome.
/// A panic in the child gives exit code 101, an abort gives signal 6; both fail the test.
fn demo(test_name: &str, body: impl FnOnce() -> String) {
    if std::env::var_os(CHILD_ENV).is_some() {
        let outcome = body();
        println!("\nZDEMO_RESULT {outcome}");
        return;
    }
    let exe = std::env::current_exe().expect("current_exe");
    let out = Command::new("sh")
        .arg("-c")
        .arg(format!("ulimit -v {CHILD_AS_LIMIT_KIB}; exec \"$0\" \"$@\""))
        .arg(&exe)
        .args(["--exact", test_name, "--nocapture", "--test-threads=1"])
        .env(CHILD_ENV, "1")
        .env("RUST_BACKTRACE", "0")
        .output()
        .expect("spawn child");
    let stdout = String::from_utf8_lossy(&out.stdout);
    let stderr = String::from_utf8_lossy(&out.stderr);
    let result = stdout.lines().find(|l| l.starts_with("ZDEMO_RESULT"));
    assert!(
        out.status.success() && result.is_some(),
        "{test_name}: the parser did not return. child exit code = {:?}, signal = {:?}\n\
         --- child stderr ---\n{stderr}\n--- child stdout ---\n{stdout}",
        out.status.code(),
        out.status.signal(),
    );
    println!("{test_name}: child returned normally: {}", result.unwrap());
}

fn show<T>(r: Result<T, zipora::ZiporaError>, ok: impl FnOnce(T) -> String) -> String {
    match r {
        Ok(v) => format!("Ok({})", ok(v)),
        Err(e) => format!("Err({e})"),
    }
}

fn bomb() -> Vec<u8> {
    let mut d = Vec::new();
    d.extend_from_slice(&u32::MAX.to_le_bytes()); // original_size = 4 GiB - 1
    d.push(12); // table_log
    d.extend_from_slice(&2u16.to_le_bytes()); // two symbols
    d.push(0);
    d.extend_from_slice(&1u32.to_le_bytes()); // symbol 0, freq 1
    d.push(1);
    d.extend_from_slice(&1u32.to_le_bytes()); // symbol 1, freq 1
    d.extend_from_slice(&0x1234_5678_9abc_def0u64.to_le_bytes()); // final state
    assert_eq!(d.len(), 25);
    d
}

#[test]
fn item4_original_size_sizes_allocation() {
    demo("item4_original_size_sizes_allocation", || {
        show(fse_decompress(&bomb()), |v| format!("{} bytes", v.len()))
    });
}
