//! C15 demo, items 1 and 2: `ContextualHuffmanEncoder::deserialize` (src/entropy/huffman.rs)
//!
//! Item 1: `tree_count` (u32 taken from the input) sizes `Vec::with_capacity` unchecked.
//! Item 2: `tree_idx` values of the context map (u32 taken from the input) are stored without
//!         checking `tree_idx < tree_count` and later index `self.trees[..]`.
//!
//! Each test re-executes itself in a child process with a limited address space, runs the
//! parser there and requires that the parser *returns* (Ok or Err).

use zipora::entropy::{ContextualHuffmanDecoder, ContextualHuffmanEncoder};

use std::os::unix::process::ExitStatusExt;
use std::process::Command;

const CHILD_ENV: &str = "ZDEMO_CHILD";
/// Address-space limit of the child in KiB (`ulimit -v`), about 2 GiB.
const CHILD_AS_LIMIT_KIB: u64 = 2_000_000;

/// Parent: re-execute this test binary for exactly `test_name` in a child process whose address
/// space is limited with `ulimit -v`, and require that the child exits with status 0 after
/// printing a `ZDEMO_RESULT` line (i.e. the parser returned Ok or Err).
/// Child (`ZDEMO_CHILD` set): run `body` (the call of the parser) and print its outcome.
/// A panic in the child gives exit code 101, an abort gives signal 6; both fail the test.
fn demo(test_name: &str, body: impl FnOnce() -> String) {
    if std::env::var_os(CHILD_ENV).is_some() {
        let outcome = body();
        println!("\nZDEMO_RESULT {outcome}");
        return;
    }
    let exe = std::env::current_exe().expect("current_exe");
    let out = Command::new("sh")
        .arg("-c")
        .arg(format!("ulimit -v {CHILD_AS_LIMIT_KIB}; exec \"$0\" \"$@\""))
        .arg(&exe)
        .args(["--exact", test_name, "--nocapture", "--test-threads=1"])
        .env(CHILD_ENV, "1")
        .env("RUST_BACKTRACE", "0")
        .output()
        .expect("spawn child");
    let stdout = String::from_utf8_lossy(&out.stdout);
    let stderr = String::from_utf8_lossy(&out.stderr);
    let result = stdout.lines().find(|l| l.starts_with("ZDEMO_RESULT"));
    assert!(
        out.status.success() && result.is_some(),
        "{test_name}: the parser did not return. child exit code = {:?}, signal = {:?}\n\
         --- child stderr ---\n{stderr}\n--- child stdout ---\n{stdout}",
        out.status.code(),
        out.status.signal(),
    );
    println!("{test_name}: child returned normally: {}", result.unwrap());
}

fn show<T>(r: Result<T, zipora::ZiporaError>, ok: impl FnOnce(T) -> String) -> String {
    match r {
        Ok(v) => format!("Ok({})", ok(v)),
        Err(e) => format!("Err({e})"),
    }
}

/// Serialized 2-symbol Huffman tree: 'a' -> "0", 'b' -> "1" (8 bytes).
fn tiny_tree() -> Vec<u8> {
    vec![2, 0, b'a', 1, 0b0, b'b', 1, 0b1]
}

/// Item 1: 9 bytes, tree_count = 0xFFFF_FFFF, no context entries, no trees.
#[test]
fn item1_tree_count_sizes_allocation() {
    demo("item1_tree_count_sizes_allocation", || {
        let mut data = vec![0u8]; // order = Order0
        data.extend_from_slice(&u32::MAX.to_le_bytes()); // tree_count
        data.extend_from_slice(&0u32.to_le_bytes()); // context_count
        assert_eq!(data.len(), 9);
        show(ContextualHuffmanEncoder::deserialize(&data), |e| {
            format!("tree_count={}", e.tree_count())
        })
    });
}

/// 29 bytes: Order1, one tree, context map { 'a' -> tree 7 } (out of range).
fn encoder_with_bad_tree_idx() -> Vec<u8> {
    let mut data = vec![1u8]; // order = Order1
    data.extend_from_slice(&1u32.to_le_bytes()); // tree_count = 1
    data.extend_from_slice(&1u32.to_le_bytes()); // context_count = 1
    data.extend_from_slice(&(b'a' as u32).to_le_bytes()); // context
    data.extend_from_slice(&7u32.to_le_bytes()); // tree_idx = 7  (>= tree_count)
    let tree = tiny_tree();
    data.extend_from_slice(&(tree.len() as u32).to_le_bytes());
    data.extend_from_slice(&tree);
    assert_eq!(data.len(), 29);
    data
}

/// Item 2, through `decode_x1` (decode_xn -> build_decode_table / decode_one_symbol_tree).
#[test]
fn item2_tree_idx_out_of_range_decode_x1() {
    demo("item2_tree_idx_out_of_range_decode_x1", || {
        let enc = match ContextualHuffmanEncoder::deserialize(&encoder_with_bad_tree_idx()) {
            Ok(e) => e,
            Err(e) => return format!("deserialize: Err({e})"),
        };
        format!(
            "deserialize: Ok, decode_x1: {}",
            show(enc.decode_x1(&[0x00], 2), |v| format!("{v:?}"))
        )
    });
}

/// Item 2, through `ContextualHuffmanDecoder::decode` (decode_order1).
#[test]
fn item2_tree_idx_out_of_range_decoder() {
    demo("item2_tree_idx_out_of_range_decoder", || {
        let enc = match ContextualHuffmanEncoder::deserialize(&encoder_with_bad_tree_idx()) {
            Ok(e) => e,
            Err(e) => return format!("deserialize: Err({e})"),
        };
        let dec = ContextualHuffmanDecoder::new(enc);
        // bit 0 -> 'a' with tree 0; the next symbol is decoded with context 'a' -> trees[7]
        format!(
            "deserialize: Ok, decode: {}",
            show(dec.decode(&[0x00, 0x00], 3), |v| format!("{v:?}"))
        )
    });
}

/// Item 2, variant: tree_count = 0 makes the implicit index 0 (`unwrap_or(&0)`, `trees[0]`)
/// out of range as well (9 bytes).
#[test]
fn item2_zero_trees() {
    demo("item2_zero_trees", || {
        let mut data = vec![1u8]; // Order1
        data.extend_from_slice(&0u32.to_le_bytes()); // tree_count = 0
        data.extend_from_slice(&0u32.to_le_bytes()); // context_count = 0
        let enc = match ContextualHuffmanEncoder::deserialize(&data) {
            Ok(e) => e,
            Err(e) => return format!("deserialize: Err({e})"),
        };
        format!(
            "deserialize: Ok, decode_x1: {}",
            show(enc.decode_x1(&[0x00], 1), |v| format!("{v:?}"))
        )
    });
}
