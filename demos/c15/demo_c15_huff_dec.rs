//! C15 demo, item 3: `HuffmanDecoder::decode` (src/entropy/huffman.rs) does
//! `Vec::with_capacity(output_length)`. The caller `HuffmanCompressor::decompress`
//! (src/compression/mod.rs) passes the `original_size` u32 of the compressed frame unchecked.
//!
//! Frame: tree_size(4) | tree | original_size(4) | bits.  17 bytes are enough.

use zipora::compression::{Compressor, HuffmanCompressor};
use zipora::entropy::{HuffmanDecoder, HuffmanTree};

use std::os::unix::process::ExitStatusExt;
use std::process::Command;

const CHILD_ENV: &str = "ZDEMO_CHILD";
/// Address-space limit of the child in KiB (`ulimit -v`), about 2 GiB.
const CHILD_AS_LIMIT_KIB: u64 = 2_000_000;

/// Parent: re-execute this test binary for exactly `test_name` in a child process whose address
/// space is limited with `ulimit -v`, and require that the child exits with status 0 after
/// printing a `ZDEMO_RESULT` line (i.e. the parser returned Ok or Err).
/// Child (`ZDEMO_CHILD` set): run `body` (the call of the parser) and print its outcome.
/// A panic in the child gives exit code 101, an abort gives signal 6; both fail the test.
fn demo(test_name: &str, body: impl FnOnce() -> String) {
    if std::env::var_os(CHILD_ENV).is_some() {
        let outcome = body();
        println!("\nZDEMO_RESULT {outcome}");
        return;
    }
    let exe = std::env::current_exe().expect("current_exe");
    let out = Command::new("sh")
        .arg("-c")
        .arg(format!("ulimit -v {CHILD_AS_LIMIT_KIB}; exec \"$0\" \"$@\""))
        .arg(&exe)
        .args(["--exact", test_name, "--nocapture", "--test-threads=1"])
        .env(CHILD_ENV, "1")
        .env("RUST_BACKTRACE", "0")
        .output()
        .expect("spawn child");
    let stdout = String::from_utf8_lossy(&out.stdout);
    let stderr = String::from_utf8_lossy(&out.stderr);
    let result = stdout.lines().find(|l| l.starts_with("ZDEMO_RESULT"));
    assert!(
        out.status.success() && result.is_some(),
        "{test_name}: the parser did not return. child exit code = {:?}, signal = {:?}\n\
         --- child stderr ---\n{stderr}\n--- child stdout ---\n{stdout}",
        out.status.code(),
        out.status.signal(),
    );
    println!("{test_name}: child returned normally: {}", result.unwrap());
}

fn show<T>(r: Result<T, zipora::ZiporaError>, ok: impl FnOnce(T) -> String) -> String {
    match r {
        Ok(v) => format!("Ok({})", ok(v)),
        Err(e) => format!("Err({e})"),
    }
}

/// Serialized 2-symbol Huffman tree: 'a' -> "0", 'b' -> "1" (8 bytes).
fn tiny_tree() -> Vec<u8> {
    vec![2, 0, b'a', 1, 0b0, b'b', 1, 0b1]
}

#[test]
fn item3_frame_original_size_sizes_allocation() {
    demo("item3_frame_original_size_sizes_allocation", || {
        let tree = tiny_tree();
        let mut frame = Vec::new();
        frame.extend_from_slice(&(tree.len() as u32).to_le_bytes());
        frame.extend_from_slice(&tree);
        frame.extend_from_slice(&u32::MAX.to_le_bytes()); // original_size = 4 GiB - 1
        frame.push(0b0101_0101); // one byte of "compressed" bits
        assert_eq!(frame.len(), 17);
        let c = HuffmanCompressor::new(b"ab").expect("compressor");
        show(c.decompress(&frame), |v| format!("{} bytes", v.len()))
    });
}

/// Same sink called directly: the length argument is whatever the caller read from its frame.
#[test]
fn item3_decoder_direct() {
    demo("item3_decoder_direct", || {
        let tree = HuffmanTree::deserialize(&tiny_tree()).expect("tree");
        let dec = HuffmanDecoder::new(tree);
        show(dec.decode(&[0b0101_0101], 1usize << 40), |v| format!("{} bytes", v.len()))
    });
}
