//! C15 demo, item 5: `Rans64Decoder::decode_single` does `Vec::with_capacity(output_length)` and
//! `decode_parallel` does `vec![0u8; output_length]` (src/entropy/rans.rs).
//!
//! Caller chain: `RansCompressor::decompress` (src/compression/mod.rs) reads `original_size`
//! (u32) from the frame and calls `Rans64Decoder::<ParallelX1>::decode`, which always takes the
//! `decode_single` branch (P::N == 1).  `decode_parallel` is only reached through the public
//! `Rans64Decoder::<ParallelX2|X4|X8>::decode(data, output_length)`, where the length is an
//! argument supplied by the caller.
//!
//! The rANS frame format starts with a fixed 1024-byte frequency table, so the smallest
//! malformed frame is 1036 bytes (built programmatically below; only 3 fields are non-zero).

use zipora::compression::{Compressor, RansCompressor};
use zipora::entropy::{ParallelX2, Rans64Encoder, RansDecoder};

use std::os::unix::process::ExitStatusExt;
use std::process::Command;

const CHILD_ENV: &str = "ZDEMO_CHILD";
/// Address-space limit of the child in KiB (`ulimit -v`), about 2 GiB.
const CHILD_AS_LIMIT_KIB: u64 = 2_000_000;

/// Parent: re-execute this test binary for exactly `test_name` in a child process whose address
/// space is limited with `ulimit -v`, and require that the child exits with status 0 after
/// printing a `ZDEMO_RESULT` line (i.e. the parser returned Ok or Err).
/// Child (`ZDEMO_CHILD` set): run `body` (the call of the parser) and print its outcome.
/// A panic in the child gives exit code 101, an abort gives signal 6; both fail the test.
fn demo(test_name: &str, body: impl FnOnce() -> String) {
    if std::env::var_os(CHILD_ENV).is_some() {
        let outcome = body();
        println!("\nZDEMO_RESULT {outcome}");
        return;
    }
    let exe = std::env::current_exe().expect("current_exe");
    let out = Command::new("sh")
        .arg("-c")
        .arg(format!("ulimit -v {CHILD_AS_LIMIT_KIB}; exec \"$0\" \"$@\""))
        .arg(&exe)
        .args(["--exact", test_name, "--nocapture", "--test-threads=1"])
        .env(CHILD_ENV, "1")
        .env("RUST_BACKTRACE", "0")
        .output()
        .expect("spawn child");
    let stdout = String::from_utf8_lossy(&out.stdout);
    let stderr = String::from_utf8_lossy(&out.stderr);
    let result = stdout.lines().find(|l| l.starts_with("ZDEMO_RESULT"));
    assert!(
        out.status.success() && result.is_some(),
        "{test_name}: the parser did not return. child exit code = {:?}, signal = {:?}\n\
         --- child stderr ---\n{stderr}\n--- child stdout ---\n{stdout}",
        out.status.code(),
        out.status.signal(),
    );
    println!("{test_name}: child returned normally: {}", result.unwrap());
}

fn show<T>(r: Result<T, zipora::ZiporaError>, ok: impl FnOnce(T) -> String) -> String {
    match r {
        Ok(v) => format!("Ok({})", ok(v)),
        Err(e) => format!("Err({e})"),
    }
}

/// Frame: 256 * freq(u32) | original_size(u32) | rANS bytes ... state(u64)
#[test]
fn item5_frame_original_size_decode_single() {
    demo("item5_frame_original_size_decode_single", || {
        let mut frame = vec![0u8; 256 * 4];
        frame[b'a' as usize * 4] = 1; // freq['a'] = 1
        frame[b'b' as usize * 4] = 1; // freq['b'] = 1
        frame.extend_from_slice(&u32::MAX.to_le_bytes()); // original_size = 4 GiB - 1
        frame.extend_from_slice(&(1u64 << 16).to_le_bytes()); // initial state, no payload
        assert_eq!(frame.len(), 1036);
        let c = RansCompressor::new(b"ab").expect("compressor");
        show(c.decompress(&frame), |v| format!("{} bytes", v.len()))
    });
}

/// Direct call of the public decoder with two streams: 24-byte header, no payload.
#[test]
fn item5_decode_parallel_direct() {
    demo("item5_decode_parallel_direct", || {
        let mut freqs = [0u32; 256];
        freqs[b'a' as usize] = 1;
        freqs[b'b' as usize] = 1;
        let enc = Rans64Encoder::<ParallelX2>::new(&freqs).expect("encoder");
        let dec = RansDecoder::<ParallelX2>::new(&enc);
        let mut data = Vec::new();
        data.extend_from_slice(&(1u64 << 16).to_le_bytes()); // state of stream 0
        data.extend_from_slice(&(1u64 << 16).to_le_bytes()); // state of stream 1
        data.extend_from_slice(&0u32.to_le_bytes()); // length of stream 0
        data.extend_from_slice(&0u32.to_le_bytes()); // length of stream 1
        assert_eq!(data.len(), 24);
        show(dec.decode(&data, 1usize << 40), |v| format!("{} bytes", v.len()))
    });
}
