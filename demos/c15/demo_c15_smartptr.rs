//! C15 demo, item 8: `<Vec<T> as SerializableType>::deserialize` (src/io/smart_ptr.rs) does
//! `Vec::with_capacity(len)` with `len` a `read_u32()` of the input.
//!
//! Input: 4 bytes (5 through `SmartPtrSerializer`).

use zipora::io::{SerializableType, SliceDataInput, SmartPtrSerializer};

use std::os::unix::process::ExitStatusExt;
use std::process::Command;

const CHILD_ENV: &str = "ZDEMO_CHILD";
/// Address-space limit of the child in KiB (`ulimit -v`), about 2 GiB.
const CHILD_AS_LIMIT_KIB: u64 = 2_000_000;

/// Parent: re-execute this test binary for exactly `test_name` in a child process whose address
/// space is limited with `ulimit -v`, and require that the child exits with status 0 after
/// printing a `ZDEMO_RESULT` line (i.e. the parser returned Ok or Err).
/// Child (`ZDEMO_CHILD` set): run `body` (the call of the parser) and print its outcome.
/// A panic in the child gives exit code 101, an abort gives signal 6; both fail the test.
fn demo(test_name: &str, body: impl FnOnce() -> String) {
    if std::env::var_os(CHILD_ENV).is_some() {
        let outcome = body();
        println!("\nZDEMO_RESULT {outcome}");
        return;
    }
    let exe = std::env::current_exe().expect("current_exe");
    let out = Command::new("sh")
        .arg("-c")
        .arg(format!("ulimit -v {CHILD_AS_LIMIT_KIB}; exec \"$0\" \"$@\""))
        .arg(&exe)
        .args(["--exact", test_name, "--nocapture", "--test-threads=1"])
        .env(CHILD_ENV, "1")
        .env("RUST_BACKTRACE", "0")
        .output()
        .expect("spawn child");
    let stdout = String::from_utf8_lossy(&out.stdout);
    let stderr = String::from_utf8_lossy(&out.stderr);
    let result = stdout.lines().find(|l| l.starts_with("ZDEMO_RESULT"));
    assert!(
        out.status.success() && result.is_some(),
        "{test_name}: the parser did not return. child exit code = {:?}, signal = {:?}\n\
         --- child stderr ---\n{stderr}\n--- child stdout ---\n{stdout}",
        out.status.code(),
        out.status.signal(),
    );
    println!("{test_name}: child returned normally: {}", result.unwrap());
}

fn show<T>(r: Result<T, zipora::ZiporaError>, ok: impl FnOnce(T) -> String) -> String {
    match r {
        Ok(v) => format!("Ok({})", ok(v)),
        Err(e) => format!("Err({e})"),
    }
}

#[test]
fn item8_vec_len() {
    demo("item8_vec_len", || {
        let bytes = [0xFFu8, 0xFF, 0xFF, 0xFF];
        let mut input = SliceDataInput::new(&bytes);
        show(<Vec<u64> as SerializableType>::deserialize(&mut input), |v| format!("{} values", v.len()))
    });
}

#[test]
fn item8_box_vec_len_via_serializer() {
    demo("item8_box_vec_len_via_serializer", || {
        let bytes = [1u8, 0xFF, 0xFF, 0xFF, 0xFF]; // Box marker, then the Vec length
        let s = SmartPtrSerializer::default();
        show(s.deserialize_from_bytes::<Vec<u64>, Box<Vec<u64>>>(&bytes), |v| format!("{} values", v.len()))
    });
}
