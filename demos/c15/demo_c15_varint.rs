//! C15 demo, item 6: the seven sequence decoders of `VarIntEncoder`
//! (src/io/var_int_variants.rs) do `Vec::with_capacity(count as usize)` where `count` is the
//! LEB128 value at the start of the input.
//!
//! Input: LEB128(2^40) followed by one value = 7..8 bytes.

use zipora::io::VarIntEncoder;

use std::os::unix::process::ExitStatusExt;
use std::process::Command;

const CHILD_ENV: &str = "ZDEMO_CHILD";
/// Address-space limit of the child in KiB (`ulimit -v`), about 2 GiB.
const CHILD_AS_LIMIT_KIB: u64 = 2_000_000;

/// Parent: re-execute this test binary for exactly `test_name` in a child process whose address
/// space is limited with `ulimit -v`, and require that the child exits with status 0 after
/// printing a `ZDEMO_RESULT` line (i.e. the parser returned Ok or Err).
/// Child (`ZDEMO_CHILD` set): run `body` (the call of the parser) and print its outcome.
/// A panic in the child gives exit code 101, an abort gives signal 6; both fail the test.
fn demo(test_name: &str, body: impl FnOnce() -> String) {
    if std::env::var_os(CHILD_ENV).is_some() {
        let outcome = body();
        println!("\nZDEMO_RESULT {outcome}");
        return;
    }
    let exe = std::env::current_exe().expect("current_exe");
    let out = Command::new("sh")
        .arg("-c")
        .arg(format!("ulimit -v {CHILD_AS_LIMIT_KIB}; exec \"$0\" \"$@\""))
        .arg(&exe)
        .args(["--exact", test_name, "--nocapture", "--test-threads=1"])
        .env(CHILD_ENV, "1")
        .env("RUST_BACKTRACE", "0")
        .output()
        .expect("spawn child");
    let stdout = String::from_utf8_lossy(&out.stdout);
    let stderr = String::from_utf8_lossy(&out.stderr);
    let result = stdout.lines().find(|l| l.starts_with("ZDEMO_RESULT"));
    assert!(
        out.status.success() && result.is_some(),
        "{test_name}: the parser did not return. child exit code = {:?}, signal = {:?}\n\
         --- child stderr ---\n{stderr}\n--- child stdout ---\n{stdout}",
        out.status.code(),
        out.status.signal(),
    );
    println!("{test_name}: child returned normally: {}", result.unwrap());
}

fn show<T>(r: Result<T, zipora::ZiporaError>, ok: impl FnOnce(T) -> String) -> String {
    match r {
        Ok(v) => format!("Ok({})", ok(v)),
        Err(e) => format!("Err({e})"),
    }
}

/// LEB128 encoding of 2^40 (6 bytes).
const COUNT_2_POW_40: [u8; 6] = [0x80, 0x80, 0x80, 0x80, 0x80, 0x20];

fn input(value: &[u8]) -> Vec<u8> {
    let mut d = COUNT_2_POW_40.to_vec();
    d.extend_from_slice(value);
    d
}

#[test]
fn item6_leb128_u64() {
    demo("item6_leb128_u64", || {
        show(VarIntEncoder::leb128().decode_u64_sequence(&input(&[1])), |v| format!("{} values", v.len()))
    });
}

#[test]
fn item6_leb128_i64() {
    demo("item6_leb128_i64", || {
        show(VarIntEncoder::leb128().decode_i64_sequence(&input(&[1])), |v| format!("{} values", v.len()))
    });
}

#[test]
fn item6_delta_u64() {
    demo("item6_delta_u64", || {
        show(VarIntEncoder::delta().decode_u64_sequence(&input(&[1])), |v| format!("{} values", v.len()))
    });
}

#[test]
fn item6_delta_i64() {
    demo("item6_delta_i64", || {
        show(VarIntEncoder::delta().decode_i64_sequence(&input(&[1])), |v| format!("{} values", v.len()))
    });
}

#[test]
fn item6_group_varint_u64() {
    demo("item6_group_varint_u64", || {
        // selector 0 (four 1-byte values) + one value byte
        show(VarIntEncoder::group_varint().decode_u64_sequence(&input(&[0, 1])), |v| format!("{} values", v.len()))
    });
}

#[test]
fn item6_prefix_free_u64() {
    demo("item6_prefix_free_u64", || {
        show(VarIntEncoder::prefix_free().decode_u64_sequence(&input(&[1, 1])), |v| format!("{} values", v.len()))
    });
}

#[test]
fn item6_prefix_free_i64() {
    demo("item6_prefix_free_i64", || {
        show(VarIntEncoder::prefix_free().decode_i64_sequence(&input(&[1, 1])), |v| format!("{} values", v.len()))
    });
}

/// Same sink, count = u64::MAX (10 bytes): `Vec::with_capacity` panics with "capacity overflow"
/// instead of aborting.
#[test]
fn item6_leb128_u64_count_max() {
    demo("item6_leb128_u64_count_max", || {
        let d = [0xFF, 0xFF, 0xFF, 0xFF, 0xFF, 0xFF, 0xFF, 0xFF, 0xFF, 0x01, 0x01];
        show(VarIntEncoder::leb128().decode_u64_sequence(&d), |v| format!("{} values", v.len()))
    });
}
