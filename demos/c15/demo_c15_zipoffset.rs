//! C15 demo, item 10: `ZipOffsetBlobStore::load_from_reader` (src/blob_store/zip_offset.rs) does
//! `store.content.reserve(header.content_bytes as usize)` and
//! `vec![0u8; header.content_bytes as usize]` with `content_bytes` a u64 of the file header.
//!
//! The file header is a fixed 128 bytes, so that is the smallest possible input.

use zipora::blob_store::ZipOffsetBlobStore;

use std::os::unix::process::ExitStatusExt;
use std::process::Command;

const CHILD_ENV: &str = "ZDEMO_CHILD";
/// Address-space limit of the child in KiB (`ulimit -v`), about 2 GiB.
const CHILD_AS_LIMIT_KIB: u64 = 2_000_000;

/// Parent: re-execute this test binary for exactly `test_name` in a child process whose address
/// space is limited with `ulimit -v`, and require that the child exits with status 0 after
/// printing a `ZDEMO_RESULT` line (i.e. the parser returned Ok or Err).
/// Child (`ZDEMO_CHILD` set): run `body` (the call of the parser) and print its outcome.
/// A panic in the child gives exit code 101, an abort gives signal 6; both fail the test.
fn demo(test_name: &str, body: impl FnOnce() -> String) {
    if std::env::var_os(CHILD_ENV).is_some() {
        let outcome = body();
        println!("\nZDEMO_RESULT {outcome}");
        return;
    }
    let exe = std::env::current_exe().expect("current_exe");
    let out = Command::new("sh")
        .arg("-c")
        .arg(format!("ulimit -v {CHILD_AS_LIMIT_KIB}; exec \"$0\" \"$@\""))
        .arg(&exe)
        .args(["--exact", test_name, "--nocapture", "--test-threads=1"])
        .env(CHILD_ENV, "1")
        .env("RUST_BACKTRACE", "0")
        .output()
        .expect("spawn child");
    let stdout = String::from_utf8_lossy(&out.stdout);
    let stderr = String::from_utf8_lossy(&out.stderr);
    let result = stdout.lines().find(|l| l.starts_with("ZDEMO_RESULT"));
    assert!(
        out.status.success() && result.is_some(),
        "{test_name}: the parser did not return. child exit code = {:?}, signal = {:?}\n\
         --- child stderr ---\n{stderr}\n--- child stdout ---\n{stdout}",
        out.status.code(),
        out.status.signal(),
    );
    println!("{test_name}: child returned normally: {}", result.unwrap());
}

fn show<T>(r: Result<T, zipora::ZiporaError>, ok: impl FnOnce(T) -> String) -> String {
    match r {
        Ok(v) => format!("Ok({})", ok(v)),
        Err(e) => format!("Err({e})"),
    }
}

/// A valid 128-byte header (no content follows) with the given `content_bytes` field.
fn header(content_bytes: u64) -> Vec<u8> {
    let mut h = vec![0u8; 128];
    h[0..20].copy_from_slice(b"zipora-blob-store\0\0\0");
    h[20..40].copy_from_slice(b"ZipOffsetBlobStore\0\0");
    h[40..48].copy_from_slice(&128u64.to_le_bytes()); // file_size
    h[56..64].copy_from_slice(&(1u64 << 48).to_le_bytes()); // 0 records, format version 1
    h[64..72].copy_from_slice(&content_bytes.to_le_bytes()); // content_bytes
    h[80] = 6; // offsets_log2_block_units
    h
}

/// content_bytes = 1.25 GiB: `reserve` succeeds, the second allocation `vec![0u8; n]` does not.
#[test]
fn item10_content_bytes_sizes_allocation() {
    demo("item10_content_bytes_sizes_allocation", || {
        let file = header(0x5000_0000);
        show(ZipOffsetBlobStore::load_from_reader(&mut file.as_slice()), |_| "store".to_string())
    });
}

/// content_bytes = u64::MAX: `FastVec::reserve` hits its `zipora_verify!` and aborts the process.
#[test]
fn item10_content_bytes_u64_max() {
    demo("item10_content_bytes_u64_max", || {
        let file = header(u64::MAX);
        show(ZipOffsetBlobStore::load_from_reader(&mut file.as_slice()), |_| "store".to_string())
    });
}
