//! C15: RansCompressor::decompress on a frame whose 256-entry frequency table is filled with large values. The table is
//! read from the untrusted bytes and Rans64Encoder::new() sums it into a u32 with `.iter().sum()`: the addition
//! overflows (panic "attempt to add with overflow" in debug builds, a wrapped total in release builds) instead of the
//! frame being refused with Err.

use zipora::compression::{Algorithm, Compressor, CompressorFactory};

#[test]
fn oversized_frequency_table_is_refused_not_a_crash() {
    let training: Vec<u8> = b"the quick brown fox jumps over the lazy dog".repeat(4);
    let c = CompressorFactory::create(Algorithm::Rans, Some(&training)).unwrap();
    let mut frame = Vec::new();
    for _ in 0..256 {
        frame.extend_from_slice(&0xFFFF_FFFFu32.to_le_bytes());
    }
    frame.extend_from_slice(&16u32.to_le_bytes());
    frame.extend_from_slice(&[0u8; 32]);
    let r = std::panic::catch_unwind(std::panic::AssertUnwindSafe(|| c.decompress(&frame)));
    assert!(r.is_ok(), "decompress panicked on a malformed frame");
}

#[test]
fn valid_frame_control() {
    let training: Vec<u8> = b"the quick brown fox jumps over the lazy dog".repeat(4);
    let c = CompressorFactory::create(Algorithm::Rans, Some(&training)).unwrap();
    let z = c.compress(&training).unwrap();
    assert!(std::panic::catch_unwind(std::panic::AssertUnwindSafe(|| c.decompress(&z))).is_ok());
}
