// Demonstration for C16 clause 2 (R-LOCKCOV): the reclamation threshold can exceed the
// version of a live token: the version is assigned under the lock but the live count is
// bumped after the lock is released, and try_advance_min_version runs unlocked.
use std::sync::atomic::{AtomicBool, AtomicU64, Ordering};
use std::sync::Arc;
use zipora::fsa::version_sync::{ConcurrencyLevel, VersionManager};

#[test]
fn min_version_never_exceeds_a_live_token() {
    let vm = Arc::new(VersionManager::new(ConcurrencyLevel::MultiWriteMultiRead));
    let bad = Arc::new(AtomicU64::new(0));
    let stop = Arc::new(AtomicBool::new(false));
    let hs: Vec<_> = (0..4)
        .map(|_| {
            let (vm, bad, stop) = (vm.clone(), bad.clone(), stop.clone());
            std::thread::spawn(move || {
                let mut i = 0u64;
                while !stop.load(Ordering::Relaxed) && i < 3_000_000 {
                    let t = vm.acquire_reader_token().unwrap();
                    let mv = vm.min_version();
                    if mv > t.version() {
                        bad.fetch_add(1, Ordering::Relaxed);
                        stop.store(true, Ordering::Relaxed);
                    }
                    drop(t);
                    i += 1;
                }
            })
        })
        .collect();
    for h in hs {
        h.join().unwrap();
    }
    assert_eq!(bad.load(Ordering::Relaxed), 0, "min_version advanced past the version of a live reader token");
}
