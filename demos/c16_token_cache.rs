// Demonstration for C16 clause 3 (R-OWN / R-OWN.tls): the per-thread TOKEN_CACHE is shared
// by all managers, so a token cached through manager A is handed out by manager B; B's
// active-reader count does not match its live tokens, and when A is gone the token's drop
// dereferences A's freed VersionManager.
use zipora::fsa::token::TokenManager;
use zipora::fsa::version_sync::ConcurrencyLevel;

#[test]
fn token_from_cache_belongs_to_the_issuing_manager() {
    let a = TokenManager::new(ConcurrencyLevel::MultiWriteMultiRead);
    let b = TokenManager::new(ConcurrencyLevel::MultiWriteMultiRead);
    let ta = a.acquire_reader_token().unwrap();
    a.return_reader_token(ta); // cached per thread, still counted live by A
    let tb = b.acquire_reader_token().unwrap(); // served from the cache: A's token
    let live_b = b.version_manager().active_readers();
    let live_a = a.version_manager().active_readers();
    drop(tb);
    assert_eq!((live_a, live_b), (0, 1), "B issued a live token but counts (A,B)=({}, {})", live_a, live_b);
}
