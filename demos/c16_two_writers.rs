// Demonstration for C16 clause 1 (R-ATOM): in OneWriteMultiRead mode two threads can both
// obtain a writer token because the exclusivity check is a load followed later by fetch_add.
use std::sync::{Arc, Barrier};
use zipora::fsa::version_sync::{ConcurrencyLevel, VersionManager};

#[test]
fn at_most_one_writer_token_is_live() {
    let mut both = 0usize;
    let rounds = 30000;
    for _ in 0..rounds {
        let vm = Arc::new(VersionManager::new(ConcurrencyLevel::OneWriteMultiRead));
        let start = Arc::new(Barrier::new(2));
        let hold = Arc::new(Barrier::new(2));
        let hs: Vec<_> = (0..2)
            .map(|_| {
                let (vm, start, hold) = (vm.clone(), start.clone(), hold.clone());
                std::thread::spawn(move || {
                    start.wait();
                    let t = vm.acquire_writer_token();
                    let ok = t.is_ok();
                    hold.wait(); // both tokens (if any) are still alive here
                    drop(t);
                    ok
                })
            })
            .collect();
        let r: Vec<bool> = hs.into_iter().map(|h| h.join().unwrap()).collect();
        if r[0] && r[1] {
            both += 1;
        }
    }
    assert_eq!(both, 0, "{} of {} rounds handed out two live writer tokens", both, rounds);
}
