//! C17 item 1: CachedBlobStore -- can get(id) return bytes different from what put stored?
//!
//! Suspicion: cache_data_at_offset() never copies `data` into the page cache, while get()
//! serves `read_cached(offset,size).data()` whenever `buffer.has_data()`.
//! The experiments below compare CachedBlobStore against a plain model (HashMap<id, Vec<u8>>)
//! for all three write strategies, small and multi-page records, many records, remove/put
//! cycles, prefetch, tiny cache capacities (forcing page eviction) and a cache shared with a
//! real file.

use std::collections::HashMap;
use std::sync::Arc;
use zipora::blob_store::cached_store::CacheWriteStrategy;
use zipora::blob_store::{BlobStore, CachedBlobStore, MemoryBlobStore};
use zipora::cache::{LruPageCache, PageCacheConfig};

fn pattern(seed: u32, len: usize) -> Vec<u8> {
    // never all-zero, so a zero-filled cache page would be detected
    let mut x = seed.wrapping_mul(2654435761).wrapping_add(12345);
    (0..len)
        .map(|_| {
            x ^= x << 13;
            x ^= x >> 17;
            x ^= x << 5;
            (x as u8) | 1
        })
        .collect()
}

fn sizes() -> Vec<usize> {
    vec![
        0, 1, 7, 20, 100, 1000, 4095, 4096, 4097, 5000, 8192, 8193, 12288, 20000, 3, 4096, 1,
        70000, 17,
    ]
}

fn exercise(strategy: CacheWriteStrategy, capacity: usize, label: &str) -> Vec<String> {
    let mut problems = Vec::new();
    let cfg = PageCacheConfig::balanced().with_capacity(capacity);
    let mut store =
        CachedBlobStore::with_write_strategy(MemoryBlobStore::new(), cfg, strategy).unwrap();
    let mut model: HashMap<u32, Vec<u8>> = HashMap::new();
    let mut ids = Vec::new();

    // phase 1: many records of various sizes
    for (i, sz) in sizes().into_iter().enumerate() {
        let data = pattern(i as u32 + 1, sz);
        let id = store.put(&data).unwrap();
        model.insert(id as u32, data);
        ids.push(id);
    }
    // read everything twice (second read would be served from the page cache if it held data)
    for round in 0..2 {
        for &id in &ids {
            let got = store.get(id).unwrap();
            let want = &model[&(id as u32)];
            if &got != want {
                problems.push(format!(
                    "{label}: round {round} get({id}) len {} != put len {} (first diff at {:?})",
                    got.len(),
                    want.len(),
                    got.iter().zip(want.iter()).position(|(a, b)| a != b)
                ));
            }
        }
    }
    // phase 2: prefetch the whole range, flush, read again
    store.prefetch_range(0, 200_000).unwrap();
    store.flush().unwrap();
    for &id in &ids {
        let got = store.get(id).unwrap();
        if got != model[&(id as u32)] {
            problems.push(format!("{label}: after prefetch get({id}) differs"));
        }
    }
    // phase 3: remove every other record, put new ones, re-check all
    for (n, &id) in ids.clone().iter().enumerate() {
        if n % 2 == 0 {
            store.remove(id).unwrap();
            model.remove(&(id as u32));
            if store.get(id).is_ok() {
                problems.push(format!("{label}: get({id}) after remove still Ok"));
            }
        }
    }
    for i in 0..40u32 {
        let data = pattern(1000 + i, (i as usize * 613) % 9000);
        let id = store.put(&data).unwrap();
        if model.insert(id as u32, data).is_some() {
            // id reuse by the inner store: the model now holds the new value, fine
        }
    }
    for (&id, want) in &model {
        let got = store.get(id as _).unwrap();
        if &got != want {
            problems.push(format!(
                "{label}: after remove/put get({id}) len {} want {}",
                got.len(),
                want.len()
            ));
        }
        if store.size(id as _).unwrap() != Some(want.len()) {
            problems.push(format!("{label}: size({id}) wrong"));
        }
    }
    if store.len() != model.len() {
        problems.push(format!("{label}: len {} != model {}", store.len(), model.len()));
    }
    let st = store.cache_stats();
    println!(
        "{label}: records={} cache total_hits={} (Hit={}) total_misses={} bytes_cached={}",
        model.len(),
        st.total_hits,
        st.hit_counts[0],
        st.total_misses,
        st.bytes_cached
    );
    problems
}

#[test]
fn cached_store_returns_what_was_put_all_strategies() {
    let mut problems = Vec::new();
    for (s, name) in [
        (CacheWriteStrategy::WriteThrough, "write-through"),
        (CacheWriteStrategy::WriteBack, "write-back"),
        (CacheWriteStrategy::WriteAround, "write-around"),
    ] {
        for cap in [4096usize, 2 * 4096, 64 * 4096, 16 * 1024 * 1024] {
            problems.extend(exercise(s, cap, &format!("{name}/cap={cap}")));
        }
    }
    for p in &problems {
        println!("MISMATCH {p}");
    }
    assert!(problems.is_empty(), "{} mismatches", problems.len());
}

/// Same, but the store shares its LruPageCache with a real file that has non-zero content at
/// the same offsets; a mix-up of file ids would surface as file bytes in blob reads.
#[test]
fn cached_store_sharing_a_cache_with_a_real_file() {
    let dir = tempfile::tempdir().unwrap();
    let path = dir.path().join("real.bin");
    std::fs::write(&path, vec![0xEEu8; 64 * 1024]).unwrap();

    let cache = Arc::new(LruPageCache::new(PageCacheConfig::balanced()).unwrap());
    let real = cache.open_file(&path).unwrap();
    // warm the real file's pages
    let b = cache.read(real, 0, 64 * 1024).unwrap();
    assert_eq!(b.data().len(), 64 * 1024);

    let mut s1 = CachedBlobStore::with_cache(MemoryBlobStore::new(), cache.clone()).unwrap();
    let mut s2 = CachedBlobStore::with_cache_and_strategy(
        MemoryBlobStore::new(),
        cache.clone(),
        CacheWriteStrategy::WriteBack,
    )
    .unwrap();
    let mut want1 = Vec::new();
    let mut want2 = Vec::new();
    for i in 0..30u32 {
        let d1 = pattern(i + 1, 100 + (i as usize) * 311);
        let d2 = pattern(i + 500, 5000 + (i as usize) * 97);
        want1.push((s1.put(&d1).unwrap(), d1));
        want2.push((s2.put(&d2).unwrap(), d2));
    }
    for _ in 0..2 {
        for (id, d) in &want1 {
            assert_eq!(&s1.get(*id).unwrap(), d, "store1 id {id}");
        }
        for (id, d) in &want2 {
            assert_eq!(&s2.get(*id).unwrap(), d, "store2 id {id}");
        }
    }
    // the real file is still read correctly through the same cache
    let b = cache.read(real, 4000, 9000).unwrap();
    assert!(b.data().len() == 9000 && b.data().iter().all(|&x| x == 0xEE));
}

/// Observation (not a byte-level violation): the "cached" store never serves a single byte
/// from its cache. Its file id is virtual (register_file(-1)), FileManager::read_page fails for
/// it, LruPageCache::get_page() then caches a ZERO-LENGTH page, LruPageCache::read() copies
/// nothing out of it and returns an Empty CacheBuffer (has_data() == false), so get() always
/// falls through to inner.get(). The "Hit" counters below are hits on those empty pages;
/// bytes_cached stays 0. This is also why the suspected defect (has_data() with wrong bytes)
/// is not reachable: nothing ever makes has_data() true.
#[test]
fn observation_cache_never_serves_data() {
    let mut store =
        CachedBlobStore::new(MemoryBlobStore::new(), PageCacheConfig::balanced()).unwrap();
    let data = pattern(7, 3000);
    let id = store.put(&data).unwrap();
    for _ in 0..10 {
        assert_eq!(store.get(id).unwrap(), data);
    }
    let st = store.cache_stats();
    println!(
        "after 10 identical get(): Hit={} InitialFree={} total_misses={} bytes_cached={}",
        st.hit_counts[0], st.hit_counts[2], st.total_misses, st.bytes_cached
    );
}
