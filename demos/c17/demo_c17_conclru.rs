//! C17 item 3: ConcurrentLruMap shard selection.
//!
//! select_shard() is evaluated independently by get/put/remove/contains_key. For
//! LoadBalancingStrategy::ThreadAffinity it depends on the calling thread, for
//! LoadBalancingStrategy::RoundRobin on a global call counter -- neither depends on the key.

use std::sync::Arc;
use std::thread;
use zipora::containers::{
    ConcurrentLruMap, ConcurrentLruMapConfig, LoadBalancingStrategy, LruMapConfig,
};

fn make(strategy: LoadBalancingStrategy, shards: usize, per_shard: usize) -> ConcurrentLruMap<u64, String> {
    ConcurrentLruMap::with_config(ConcurrentLruMapConfig {
        base_config: LruMapConfig { capacity: per_shard, ..Default::default() },
        shard_count: shards,
        load_balancing: strategy,
    })
    .unwrap()
}

/// Baseline: hash sharding behaves like a map, from any thread.
#[test]
fn hash_strategy_put_here_get_there() {
    let m = Arc::new(make(LoadBalancingStrategy::Hash, 8, 64));
    for k in 0..100u64 {
        m.put(k, format!("v{k}")).unwrap();
    }
    let mut handles = Vec::new();
    for t in 0..8 {
        let m = m.clone();
        handles.push(thread::spawn(move || {
            let mut missing = Vec::new();
            for k in 0..100u64 {
                if m.get(&k) != Some(format!("v{k}")) {
                    missing.push(k);
                }
            }
            (t, missing)
        }));
    }
    for h in handles {
        let (t, missing) = h.join().unwrap();
        assert!(missing.is_empty(), "thread {t}: keys not found {missing:?}");
    }
    // update returns old value, remove works, no duplicates
    assert_eq!(m.put(5, "x".into()).unwrap(), Some("v5".to_string()));
    assert_eq!(m.len(), 100);
    assert_eq!(m.remove(&5), Some("x".to_string()));
    assert_eq!(m.get(&5), None);
    assert_eq!(m.len(), 99);
}

/// RoundRobin, single thread: put(k,v) immediately followed by get(k).
#[test]
fn round_robin_put_then_get_same_thread() {
    let m = make(LoadBalancingStrategy::RoundRobin, 4, 16);
    let mut lost = Vec::new();
    for k in 0..8u64 {
        m.put(k, format!("v{k}")).unwrap();
        let got = m.get(&k);
        println!("put({k}) ; get({k}) -> {got:?}   shard sizes {:?}", m.shard_sizes());
        if got != Some(format!("v{k}")) {
            lost.push(k);
        }
    }
    assert!(lost.is_empty(), "RoundRobin: get(k) right after put(k,v) returned None for keys {lost:?}");
}

/// RoundRobin, single thread: the same key put repeatedly lands in several shards, so the map
/// holds duplicates of one key and len() over-counts.
#[test]
fn round_robin_same_key_in_several_shards() {
    let m = make(LoadBalancingStrategy::RoundRobin, 4, 16);
    let mut returned_old = Vec::new();
    for i in 0..4 {
        returned_old.push(m.put(42u64, format!("gen{i}")).unwrap());
    }
    println!("4x put(42, gen_i) returned old values {returned_old:?}; len()={} shard sizes {:?}", m.len(), m.shard_sizes());
    assert_eq!(m.len(), 1, "one distinct key was inserted, len() must be 1 (shard sizes {:?})", m.shard_sizes());
}

/// ThreadAffinity: put on one thread, get on others.
#[test]
fn thread_affinity_put_here_get_there() {
    let m = Arc::new(make(LoadBalancingStrategy::ThreadAffinity, 8, 64));
    for k in 0..20u64 {
        m.put(k, format!("v{k}")).unwrap();
    }
    // the inserting thread itself sees them (same thread id => same shard)
    for k in 0..20u64 {
        assert_eq!(m.get(&k), Some(format!("v{k}")), "same-thread get");
    }
    println!("main thread inserted 20 keys; shard sizes {:?}", m.shard_sizes());
    let mut blind_threads = 0;
    let mut reports = Vec::new();
    for t in 0..16 {
        let m2 = m.clone();
        let found = thread::spawn(move || (0..20u64).filter(|k| m2.get(k).is_some()).count())
            .join()
            .unwrap();
        reports.push(found);
        if found != 20 {
            blind_threads += 1;
        }
        let _ = t;
    }
    println!("keys found (out of 20) by 16 other threads: {reports:?}");
    assert_eq!(blind_threads, 0, "{blind_threads}/16 threads could not see keys put by the main thread");
}

/// ThreadAffinity: the same key put from different threads ends up in several shards;
/// remove() from one thread leaves the other copies behind.
#[test]
fn thread_affinity_duplicates_and_remove() {
    let m = Arc::new(make(LoadBalancingStrategy::ThreadAffinity, 8, 64));
    for t in 0..16u64 {
        let m2 = m.clone();
        thread::spawn(move || {
            m2.put(7u64, format!("from-thread-{t}")).unwrap();
        })
        .join()
        .unwrap();
    }
    let sizes = m.shard_sizes();
    println!("16 threads each put(7, ..): len()={} shard sizes {sizes:?}", m.len());
    let removed = m.remove(&7);
    println!("main-thread remove(7) -> {removed:?}; len() afterwards {}", m.len());
    assert_eq!(m.len(), 0, "key 7 removed, but {} copies remain in other shards", m.len());
}

/// Capacity: with key-independent routing one shard takes everything (ThreadAffinity, one thread),
/// so a map built for total capacity 8*4=32 evicts after 4 entries.
#[test]
fn observation_thread_affinity_effective_capacity() {
    let m = make(LoadBalancingStrategy::ThreadAffinity, 8, 4);
    assert_eq!(m.capacity(), 32);
    for k in 0..32u64 {
        m.put(k, format!("v{k}")).unwrap();
    }
    let present = (0..32u64).filter(|k| m.get(k).is_some()).count();
    println!("capacity()={} inserted 32 keys from one thread, still present: {present}, shard sizes {:?}", m.capacity(), m.shard_sizes());
    assert!(present > 4, "only {present} of 32 keys retained although capacity() reports 32");
}

/// Hash strategy (the default, correct routing) under real concurrency: several threads put the
/// same not-yet-present keys. Each shard is an LruMap whose put() does "lookup / evict / insert" in
/// separately locked steps, so the same key can be given several nodes.
#[test]
fn hash_strategy_concurrent_put_of_same_new_keys() {
    let mut worst_len = 0usize;
    let mut errors = 0usize;
    for _round in 0..300 {
        let m = Arc::new(make(LoadBalancingStrategy::Hash, 2, 16));
        let barrier = Arc::new(std::sync::Barrier::new(4));
        let hs: Vec<_> = (0..4u64)
            .map(|t| {
                let m = m.clone();
                let b = barrier.clone();
                thread::spawn(move || {
                    b.wait();
                    (0..8u64).filter(|&k| m.put(k, format!("t{t}")).is_err()).count()
                })
            })
            .collect();
        errors += hs.into_iter().map(|h| h.join().unwrap()).sum::<usize>();
        worst_len = worst_len.max(m.len());
    }
    println!("4 threads x put(0..8) into ConcurrentLruMap(Hash, 2 shards x 16): max len() {worst_len} for 8 distinct keys, put errors {errors}");
    assert!(worst_len <= 8, "len()={worst_len} although only 8 distinct keys were ever inserted");
    assert_eq!(errors, 0);
}
