//! C17 item 4: LruMap eviction order / callback, checked against a reference model.

use std::sync::{Arc, Mutex};
use std::thread;
use zipora::containers::{EvictionCallback, LruMap};

#[derive(Clone)]
struct Recorder(Arc<Mutex<Vec<(u32, u64)>>>);
impl EvictionCallback<u32, u64> for Recorder {
    fn on_evict(&self, key: &u32, value: &u64) {
        self.0.lock().unwrap().push((*key, *value));
    }
}

#[derive(Debug, Clone, Copy, PartialEq)]
enum Op {
    Put(u32),
    Get(u32),
    Remove(u32),
    Contains(u32),
    Clear,
}

/// Reference LRU: front = most recently used.
struct Model {
    cap: usize,
    items: Vec<(u32, u64)>,
}
impl Model {
    fn pos(&self, k: u32) -> Option<usize> {
        self.items.iter().position(|e| e.0 == k)
    }
    fn get(&mut self, k: u32) -> Option<u64> {
        let p = self.pos(k)?;
        let e = self.items.remove(p);
        self.items.insert(0, e);
        Some(e.1)
    }
    /// returns (old value, evicted entry)
    fn put(&mut self, k: u32, v: u64) -> (Option<u64>, Option<(u32, u64)>) {
        if let Some(p) = self.pos(k) {
            let e = self.items.remove(p);
            self.items.insert(0, (k, v));
            return (Some(e.1), None);
        }
        let ev = if self.items.len() >= self.cap { self.items.pop() } else { None };
        self.items.insert(0, (k, v));
        (None, ev)
    }
    fn remove(&mut self, k: u32) -> Option<u64> {
        let p = self.pos(k)?;
        Some(self.items.remove(p).1)
    }
}

/// Runs `ops` on a fresh LruMap(cap) and the model; returns a description of the first divergence.
fn run(cap: usize, ops: &[Op]) -> Result<(), String> {
    let log = Arc::new(Mutex::new(Vec::new()));
    let map = LruMap::with_eviction_callback(cap, Recorder(log.clone())).map_err(|e| format!("ctor: {e:?}"))?;
    let mut model = Model { cap, items: Vec::new() };
    let mut next_val = 100u64;
    for (i, op) in ops.iter().enumerate() {
        let before = log.lock().unwrap().len();
        let mut expect_evict: Option<(u32, u64)> = None;
        let ctx = |what: String| format!("cap={cap} ops={:?} step {i} {op:?}: {what}", &ops[..=i]);
        match *op {
            Op::Put(k) => {
                next_val += 1;
                let (want_old, ev) = model.put(k, next_val);
                expect_evict = ev;
                match map.put(k, next_val) {
                    Ok(old) if old == want_old => {}
                    other => return Err(ctx(format!("put returned {other:?}, expected Ok({want_old:?})"))),
                }
            }
            Op::Get(k) => {
                let want = model.get(k);
                let got = map.get(&k);
                if got != want {
                    return Err(ctx(format!("get returned {got:?}, expected {want:?}")));
                }
            }
            Op::Remove(k) => {
                let want = model.remove(k);
                let got = map.remove(&k);
                if got != want {
                    return Err(ctx(format!("remove returned {got:?}, expected {want:?}")));
                }
            }
            Op::Contains(k) => {
                let want = model.pos(k).is_some();
                let got = map.contains_key(&k);
                if got != want {
                    return Err(ctx(format!("contains_key returned {got}, expected {want}")));
                }
            }
            Op::Clear => {
                model.items.clear();
                map.clear().map_err(|e| ctx(format!("clear failed {e:?}")))?;
            }
        }
        let new_events: Vec<(u32, u64)> = log.lock().unwrap()[before..].to_vec();
        let want_events: Vec<(u32, u64)> = expect_evict.into_iter().collect();
        if new_events != want_events {
            return Err(ctx(format!("eviction callbacks {new_events:?}, expected {want_events:?}")));
        }
        if map.len() != model.items.len() || map.len() > cap {
            return Err(ctx(format!("len {} expected {} (cap {cap})", map.len(), model.items.len())));
        }
    }
    // final content check, least recent first so the check itself does not disturb anything we rely on
    for &(k, v) in model.items.iter().rev() {
        if map.get(&k) != Some(v) {
            return Err(format!("cap={cap} ops={ops:?}: final get({k}) != Some({v})"));
        }
    }
    Ok(())
}

fn all_ops(cap: usize, with_clear: bool) -> Vec<Op> {
    let mut v = Vec::new();
    for k in 0..(cap as u32 + 2) {
        v.push(Op::Put(k));
        v.push(Op::Get(k));
        v.push(Op::Remove(k));
    }
    v.push(Op::Contains(0));
    if with_clear {
        v.push(Op::Clear);
    }
    v
}

fn exhaustive(cap: usize, depth: usize, alphabet: &[Op]) -> (usize, Option<String>) {
    // iterate all sequences of length `depth` over alphabet (prefix failures are found at their shortest length
    // because we run depth = 1, 2, ... in order)
    let n = alphabet.len();
    let total = n.pow(depth as u32);
    let mut seq = vec![alphabet[0]; depth];
    for mut code in 0..total {
        for slot in seq.iter_mut() {
            *slot = alphabet[code % n];
            code /= n;
        }
        if let Err(e) = run(cap, &seq) {
            return (total, Some(e));
        }
    }
    (total, None)
}

struct Rng(u64);
impl Rng {
    fn next(&mut self) -> u64 {
        self.0 ^= self.0 << 13;
        self.0 ^= self.0 >> 7;
        self.0 ^= self.0 << 17;
        self.0
    }
}

/// get/put/remove/contains_key only (the operations named by the property).
#[test]
fn eviction_order_and_callback_match_model_without_clear() {
    let mut checked = 0usize;
    for cap in 1..=4usize {
        let alphabet = all_ops(cap, false);
        for depth in 1..=4 {
            let (n, fail) = exhaustive(cap, depth, &alphabet);
            checked += n;
            if let Some(f) = fail {
                panic!("COUNTER-EXAMPLE {f}");
            }
        }
        let mut rng = Rng(0x9E3779B97F4A7C15 ^ cap as u64);
        for _ in 0..20_000 {
            let len = 5 + (rng.next() % 60) as usize;
            let seq: Vec<Op> = (0..len).map(|_| alphabet[(rng.next() % alphabet.len() as u64) as usize]).collect();
            checked += 1;
            if let Err(f) = run(cap, &seq) {
                panic!("COUNTER-EXAMPLE {f}");
            }
        }
    }
    println!("{checked} operation sequences agree with the reference LRU (capacities 1..=4, no clear())");
}

/// Same search with clear() in the alphabet: reports the shortest diverging sequence.
#[test]
fn eviction_order_and_callback_match_model_with_clear() {
    for cap in 1..=4usize {
        let alphabet = all_ops(cap, true);
        for depth in 1..=3 {
            let (_, fail) = exhaustive(cap, depth, &alphabet);
            if let Some(f) = fail {
                panic!("COUNTER-EXAMPLE {f}");
            }
        }
    }
}

/// The minimal hand-written form of the clear() defect.
#[test]
fn clear_loses_free_nodes() {
    // (a) clear() on a never-used map
    let m: LruMap<u32, u64> = LruMap::new(4).unwrap();
    m.clear().unwrap();
    let r = m.put(1, 10);
    println!("new(4); clear(); put(1,10) -> {r:?}");
    // (b) clear() on a partially filled map
    let m2: LruMap<u32, u64> = LruMap::new(4).unwrap();
    m2.put(1, 10).unwrap();
    m2.clear().unwrap();
    let r1 = m2.put(1, 11);
    let r2 = m2.put(2, 12);
    println!("new(4); put(1); clear(); put(1) -> {r1:?}; put(2) -> {r2:?}; len={}", m2.len());
    assert!(r.is_ok(), "put after clear() on an empty map failed: {r:?}");
    assert!(r1.is_ok() && r2.is_ok(), "capacity-4 map cannot hold 2 entries after clear(): {r1:?} {r2:?}");
}

/// The `!(idx as usize) < nodes.len()` guard in evict_lru(): `!` binds to the cast value (bitwise NOT),
/// so the first disjunct is always false and the range check is dead. It is only evaluated with
/// idx = lru_list.tail, which is always either INVALID_NODE (handled before) or a live index < capacity,
/// so no public-API sequence reaches it with an out-of-range index. Evidence: capacity-1 map (tail is
/// the only node, index 0, `!0usize` = usize::MAX) evicts correctly on every put.
#[test]
fn evict_guard_not_reachable_capacity_one() {
    let log = Arc::new(Mutex::new(Vec::new()));
    let m = LruMap::with_eviction_callback(1, Recorder(log.clone())).unwrap();
    for k in 0..1000u32 {
        assert_eq!(m.put(k, k as u64 * 2).unwrap(), None);
        assert_eq!(m.len(), 1);
    }
    let l = log.lock().unwrap();
    assert_eq!(l.len(), 999);
    assert!(l.iter().enumerate().all(|(i, &(k, v))| k == i as u32 && v == i as u64 * 2));
}

/// Concurrent use of ONE LruMap (it is `Sync`, and it is what every ConcurrentLruMap shard is):
/// put() checks for the key, evicts and inserts in three separately locked steps.
#[test]
fn concurrent_put_same_new_key() {
    let mut worst = (0usize, 0usize, 0usize); // (len, errors, round)
    for round in 0..300 {
        let m: Arc<LruMap<u32, u64>> = Arc::new(LruMap::new(8).unwrap());
        let barrier = Arc::new(std::sync::Barrier::new(4));
        let hs: Vec<_> = (0..4u64)
            .map(|t| {
                let m = m.clone();
                let b = barrier.clone();
                thread::spawn(move || {
                    b.wait();
                    let mut errs = 0;
                    for k in 0..4u32 {
                        if m.put(k, t).is_err() {
                            errs += 1;
                        }
                    }
                    errs
                })
            })
            .collect();
        let errs: usize = hs.into_iter().map(|h| h.join().unwrap()).sum();
        if m.len() > worst.0 || errs > worst.1 {
            worst = (m.len().max(worst.0), errs.max(worst.1), round);
        }
    }
    println!("4 threads x put(0..4) into LruMap(8): max len() seen {} (distinct keys: 4), max put() errors in a round {}", worst.0, worst.1);
    assert!(worst.0 <= 4, "len()={} for 4 distinct keys: the same key occupies several nodes", worst.0);
    assert_eq!(worst.1, 0, "put() returned Err although capacity 8 > 4 keys");
}

/// Lock-order inversion inside one LruMap (= one ConcurrentLruMap shard):
///   put() of an EXISTING key : holds hash_map.read()  -> then takes nodes.write()
///   put() of a NEW key, full  : evict_lru() holds nodes.write() -> then takes hash_map.write()
/// Two threads doing just that stop making progress.
#[test]
fn concurrent_update_vs_evicting_put_makes_progress() {
    use std::sync::atomic::{AtomicBool, AtomicU64, Ordering};
    use std::time::{Duration, Instant};
    let m: Arc<LruMap<u32, u64>> = Arc::new(LruMap::new(4).unwrap());
    for k in 0..4u32 {
        m.put(k, 0).unwrap();
    }
    let stop = Arc::new(AtomicBool::new(false));
    let progress = Arc::new([AtomicU64::new(0), AtomicU64::new(0)]);
    // thread A: keeps key 0 hot by updating it (update path)
    let (ma, sa, pa) = (m.clone(), stop.clone(), progress.clone());
    thread::spawn(move || {
        let mut i = 0u64;
        while !sa.load(Ordering::Relaxed) {
            i += 1;
            let _ = ma.put(0, i);
            pa[0].store(i, Ordering::Relaxed);
        }
    });
    // thread B: inserts fresh keys into the full map (evicting path)
    let (mb, sb, pb) = (m.clone(), stop.clone(), progress.clone());
    thread::spawn(move || {
        let mut i = 0u64;
        while !sb.load(Ordering::Relaxed) {
            i += 1;
            let _ = mb.put(100 + (i % 1000) as u32, i);
            pb[1].store(i, Ordering::Relaxed);
        }
    });
    // watchdog: both counters must keep moving for 3 seconds
    let start = Instant::now();
    let mut last = (0u64, 0u64);
    let mut stalled_since: Option<Instant> = None;
    let mut verdict = None;
    while start.elapsed() < Duration::from_secs(3) {
        thread::sleep(Duration::from_millis(50));
        let now = (progress[0].load(Ordering::Relaxed), progress[1].load(Ordering::Relaxed));
        if now == last {
            let s = *stalled_since.get_or_insert_with(Instant::now);
            if s.elapsed() > Duration::from_secs(1) {
                verdict = Some(format!(
                    "no progress for 1s after {:?}: updater did {} puts, inserter did {} puts (deadlock)",
                    start.elapsed(), now.0, now.1
                ));
                break;
            }
        } else {
            stalled_since = None;
            last = now;
        }
    }
    stop.store(true, Ordering::Relaxed);
    println!("updater puts={} inserter puts={}", last.0, last.1);
    assert!(verdict.is_none(), "{}", verdict.unwrap());
}
