//! C17 item 2: page cache reads vs. the real file content.
//!
//! Suspicion: CacheBuffer::setup_multi_page() zero-fills the buffer, so page-straddling reads
//! would return zeros. Experiment: build a real temp file, read it through
//! LruPageCache / SingleLruPageCache at many (offset,length) pairs and compare with the file.

use std::io::{Seek, SeekFrom, Write};
use zipora::cache::{CacheBuffer, LruPageCache, PageCacheConfig, SingleLruPageCache, PAGE_SIZE};

const FILE_LEN: usize = 5 * PAGE_SIZE + 1808; // 22288 bytes: 5 full pages + a partial one

fn content(seed: u32, len: usize) -> Vec<u8> {
    let mut x = seed.wrapping_mul(2654435761).wrapping_add(99991);
    (0..len)
        .map(|_| {
            x ^= x << 13;
            x ^= x >> 17;
            x ^= x << 5;
            (x as u8) | 1 // never zero
        })
        .collect()
}

fn make_file(dir: &tempfile::TempDir, name: &str, data: &[u8]) -> std::path::PathBuf {
    let p = dir.path().join(name);
    std::fs::write(&p, data).unwrap();
    p
}

/// (offset, length) pairs fully inside the file
fn in_range_requests() -> Vec<(u64, usize)> {
    let p = PAGE_SIZE as u64;
    let n = FILE_LEN as u64;
    let mut v: Vec<(u64, usize)> = vec![
        (0, 1),
        (0, 10),
        (0, PAGE_SIZE),
        (0, PAGE_SIZE + 1),
        (1, PAGE_SIZE),          // straddles 0|1, unaligned
        (p - 1, 2),              // straddles 0|1, two bytes
        (p - 7, 14),
        (100, 3 * PAGE_SIZE),    // spans 4 pages, unaligned
        (p, PAGE_SIZE),          // exactly page 1
        (p, 2 * PAGE_SIZE),      // exactly pages 1..2
        (2 * p + 5, 2 * PAGE_SIZE + 11),
        (3 * p - 1, PAGE_SIZE + 2), // touches 3 pages
        (0, FILE_LEN),           // whole file
        (5 * p, 1808),           // exactly the final partial page
        (5 * p + 800, 1008),     // inside the final partial page, up to EOF
        (5 * p - 3, 1811),       // straddles into final partial page up to EOF
        (n - 1, 1),              // last byte
        (4 * p + 4000, 200),     // straddles 4|5
    ];
    // dense sweep around each page boundary
    for b in 1..=5u64 {
        for back in [1u64, 2, 63, 64, 65] {
            for len in [back as usize, back as usize + 1, back as usize + 100] {
                if b * p - back + len as u64 <= n {
                    v.push((b * p - back, len));
                }
            }
        }
    }
    v
}

fn check(label: &str, got: &[u8], file: &[u8], offset: u64, length: usize, bad: &mut Vec<String>) {
    let start = (offset as usize).min(file.len());
    let end = (offset as usize + length).min(file.len());
    let want = &file[start..end];
    if got != want {
        let zeros = got.iter().filter(|&&b| b == 0).count();
        bad.push(format!(
            "{label}: read(off={offset}, len={length}) returned {} bytes ({} zero), file has {} bytes there; first diff at {:?}",
            got.len(),
            zeros,
            want.len(),
            got.iter().zip(want.iter()).position(|(a, b)| a != b)
        ));
    }
}

#[test]
fn in_range_reads_match_file_lru_page_cache() {
    let dir = tempfile::tempdir().unwrap();
    let data = content(1, FILE_LEN);
    let path = make_file(&dir, "a.bin", &data);
    let mut bad = Vec::new();
    // large cache (no eviction), tiny caches (1, 2 pages: constant eviction + reload)
    for cap in [16 * 1024 * 1024usize, 2 * PAGE_SIZE, PAGE_SIZE, 1024] {
        let cache = LruPageCache::new(PageCacheConfig::balanced().with_capacity(cap)).unwrap();
        let f = cache.open_file(&path).unwrap();
        assert_eq!(cache.file_size(f).unwrap(), FILE_LEN as u64);
        for round in 0..3 {
            for (off, len) in in_range_requests() {
                let buf = cache.read(f, off, len).unwrap();
                check(&format!("cap={cap} round={round}"), buf.data(), &data, off, len, &mut bad);
            }
        }
        // batch + prefetch variants
        let reqs: Vec<_> = in_range_requests().into_iter().map(|(o, l)| (f, o, l)).collect();
        let bufs = cache.read_batch(reqs.clone()).unwrap();
        for ((_, off, len), b) in reqs.iter().zip(bufs.iter()) {
            check(&format!("cap={cap} batch"), b.data(), &data, *off, *len, &mut bad);
        }
        for (off, len) in in_range_requests() {
            let b = cache.read_with_prefetch(f, off, len, 3 * PAGE_SIZE).unwrap();
            check(&format!("cap={cap} prefetch"), b.data(), &data, off, len, &mut bad);
        }
    }
    for b in &bad {
        println!("MISMATCH {b}");
    }
    assert!(bad.is_empty(), "{} mismatching in-range reads", bad.len());
}

#[test]
fn in_range_reads_match_file_single_lru_page_cache() {
    let dir = tempfile::tempdir().unwrap();
    let data = content(2, FILE_LEN);
    let path = make_file(&dir, "b.bin", &data);
    let mut bad = Vec::new();
    for cap in [16 * 1024 * 1024usize, 2 * PAGE_SIZE] {
        let cache = SingleLruPageCache::new(PageCacheConfig::balanced().with_capacity(cap)).unwrap();
        let f = cache.open_file(&path).unwrap();
        let mut reuse = CacheBuffer::new();
        for (off, len) in in_range_requests() {
            cache.read(f, off, len, &mut reuse).unwrap();
            check(&format!("single cap={cap} read"), reuse.data(), &data, off, len, &mut bad);
            let nb = cache.read_new(f, off, len).unwrap();
            check(&format!("single cap={cap} read_new"), nb.data(), &data, off, len, &mut bad);
        }
        assert!(cache.size() <= std::cmp::max(1, cap / PAGE_SIZE), "size {} > capacity pages", cache.size());
    }
    for b in &bad {
        println!("MISMATCH {b}");
    }
    assert!(bad.is_empty(), "{} mismatching reads", bad.len());
}

#[test]
fn two_files_eviction_and_invalidation() {
    let dir = tempfile::tempdir().unwrap();
    let d1 = content(3, FILE_LEN);
    let d2 = content(4, FILE_LEN);
    let p1 = make_file(&dir, "c1.bin", &d1);
    let p2 = make_file(&dir, "c2.bin", &d2);
    let cache = LruPageCache::new(PageCacheConfig::balanced().with_capacity(3 * PAGE_SIZE)).unwrap();
    let f1 = cache.open_file(&p1).unwrap();
    let f2 = cache.open_file(&p2).unwrap();
    let mut bad = Vec::new();
    for round in 0..3 {
        for (off, len) in in_range_requests() {
            let a = cache.read(f1, off, len).unwrap();
            check(&format!("f1 r{round}"), a.data(), &d1, off, len, &mut bad);
            let b = cache.read(f2, off, len).unwrap();
            check(&format!("f2 r{round}"), b.data(), &d2, off, len, &mut bad);
        }
        cache.invalidate_page(f1, round as u32).unwrap();
        cache.invalidate_range(f2, 4000, 9000).unwrap();
    }
    // overwrite part of file 1 on disk (same size), invalidate, re-read: must see new bytes
    let mut d1b = d1.clone();
    for b in &mut d1b[4090..8200] {
        *b = 0xA5;
    }
    {
        let mut fh = std::fs::OpenOptions::new().write(true).open(&p1).unwrap();
        fh.seek(SeekFrom::Start(4090)).unwrap();
        fh.write_all(&d1b[4090..8200]).unwrap();
        fh.sync_all().unwrap();
    }
    cache.invalidate_range(f1, 4090, 8200 - 4090).unwrap();
    for (off, len) in in_range_requests() {
        let a = cache.read(f1, off, len).unwrap();
        check("f1 after overwrite+invalidate", a.data(), &d1b, off, len, &mut bad);
    }
    for b in &bad {
        println!("MISMATCH {b}");
    }
    assert!(bad.is_empty(), "{} mismatching reads", bad.len());
}

/// Reads whose range runs past EOF. The file has bytes in [offset, EOF); FileManager::read_data
/// (the uncached path in the same module) returns them. The cached read silently drops the
/// whole final partial page (`if page_end <= page_data.len()` in LruPageCache::read).
#[test]
fn reads_overlapping_eof_return_available_bytes() {
    let dir = tempfile::tempdir().unwrap();
    let data = content(5, FILE_LEN);
    let path = make_file(&dir, "d.bin", &data);
    let cache = LruPageCache::new(PageCacheConfig::balanced()).unwrap();
    let f = cache.open_file(&path).unwrap();
    let p = PAGE_SIZE as u64;
    let n = FILE_LEN as u64;
    let reqs: Vec<(u64, usize)> = vec![
        (5 * p + 800, 1009),      // 1 byte past EOF, starts inside last page
        (5 * p, PAGE_SIZE),       // "give me page 5"
        (n - 1, 2),               // last byte + 1
        (4 * p + 4000, 2000),     // straddles 4|5 and overshoots EOF by 96
        (0, FILE_LEN + 1),        // whole file + 1
        (3 * p, 4 * PAGE_SIZE),   // pages 3..6
    ];
    let mut bad = Vec::new();
    for (off, len) in reqs {
        let b = cache.read(f, off, len).unwrap();
        println!(
            "read(off={off}, len={len}) -> Ok, {} bytes, has_data={}  (file has {} bytes in that range)",
            b.data().len(),
            b.has_data(),
            (n - off).min(len as u64)
        );
        check("eof", b.data(), &data, off, len, &mut bad);
    }
    for b in &bad {
        println!("MISMATCH {b}");
    }
    assert!(bad.is_empty(), "{} reads near EOF lost available bytes", bad.len());
}

/// Observation (performance, not bytes): once a page has been evicted or invalidated it stays in
/// InvalidationTracker::invalidated_pages forever, so every later read of it is a miss + file I/O
/// even though get_page() re-inserts it each time.
#[test]
fn observation_invalidated_page_is_never_cached_again() {
    let dir = tempfile::tempdir().unwrap();
    let data = content(6, FILE_LEN);
    let path = make_file(&dir, "e.bin", &data);
    let cache = LruPageCache::new(PageCacheConfig::balanced()).unwrap();
    let f = cache.open_file(&path).unwrap();
    let _ = cache.read(f, 0, 100).unwrap();
    let _ = cache.read(f, 0, 100).unwrap();
    let s0 = cache.stats();
    println!("before invalidate: 2 reads -> Hit={} misses={}", s0.hit_counts[0], s0.total_misses);
    assert_eq!((s0.hit_counts[0], s0.total_misses), (1, 1));
    cache.invalidate_page(f, 0).unwrap();
    for _ in 0..10 {
        let b = cache.read(f, 0, 100).unwrap();
        assert_eq!(b.data(), &data[0..100]);
    }
    let s1 = cache.stats();
    println!(
        "after invalidate_page + 10 reads of the same page: Hit={} misses={} (expected 1 miss + 9 hits)",
        s1.hit_counts[0] - s0.hit_counts[0],
        s1.total_misses - s0.total_misses
    );
    assert_eq!(s1.total_misses - s0.total_misses, 1, "page reloaded from file on every read after one invalidation");
}
