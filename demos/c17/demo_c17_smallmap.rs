//! C17 item 5: SmallMap::iter() after promotion to the large (ZiporaHashMap) representation.

use std::collections::BTreeMap;
use std::panic::{catch_unwind, AssertUnwindSafe};
use zipora::SmallMap;

fn filled(n: u32) -> SmallMap<u32, u32> {
    let mut m = SmallMap::new();
    for k in 0..n {
        assert_eq!(m.insert(k, k * 10).unwrap(), None);
    }
    m
}

fn panic_msg(e: Box<dyn std::any::Any + Send>) -> String {
    e.downcast_ref::<&str>().map(|s| s.to_string()).or_else(|| e.downcast_ref::<String>().cloned()).unwrap_or_default()
}

#[test]
fn iter_small_representation_is_complete() {
    for n in 0..=8u32 {
        let m = filled(n);
        let got: BTreeMap<u32, u32> = m.iter().map(|(k, v)| (*k, *v)).collect();
        let want: BTreeMap<u32, u32> = (0..n).map(|k| (k, k * 10)).collect();
        assert_eq!(got, want, "n={n}");
        assert_eq!(m.iter().len(), n as usize);
    }
}

#[test]
fn iter_after_promotion_yields_all_entries() {
    let mut problems = Vec::new();
    for n in [9u32, 10, 16, 17, 100] {
        let m = filled(n);
        assert_eq!(m.len(), n as usize);
        for k in 0..n {
            assert_eq!(m.get(&k), Some(&(k * 10)), "get still works after promotion");
        }
        match catch_unwind(AssertUnwindSafe(|| m.iter().map(|(k, v)| (*k, *v)).collect::<BTreeMap<u32, u32>>())) {
            Ok(got) => {
                let want: BTreeMap<u32, u32> = (0..n).map(|k| (k, k * 10)).collect();
                if got != want {
                    problems.push(format!("n={n}: iter() yielded {} entries, expected {}", got.len(), want.len()));
                }
            }
            Err(e) => problems.push(format!("n={n}: iter() panicked: {:?}", panic_msg(e))),
        }
    }
    for p in &problems {
        println!("PROBLEM {p}");
    }
    assert!(problems.is_empty(), "{} sizes misbehave", problems.len());
}

/// Everything implemented on top of iter() inherits the problem: Debug, Clone, PartialEq.
#[test]
fn debug_clone_eq_after_promotion() {
    let a = filled(9);
    let b = filled(9);
    let mut problems = Vec::new();
    match catch_unwind(AssertUnwindSafe(|| format!("{a:?}"))) {
        Ok(s) => {
            if s.matches(':').count() != 9 {
                problems.push(format!("Debug shows {s}"));
            }
        }
        Err(e) => problems.push(format!("format!(\"{{:?}}\") panicked: {:?}", panic_msg(e))),
    }
    match catch_unwind(AssertUnwindSafe(|| a.clone())) {
        Ok(c) => {
            if c.len() != 9 || (0..9u32).any(|k| c.get(&k) != Some(&(k * 10))) {
                problems.push(format!("clone() has {} entries", c.len()));
            }
        }
        Err(e) => problems.push(format!("clone() panicked: {:?}", panic_msg(e))),
    }
    match catch_unwind(AssertUnwindSafe(|| a == b)) {
        Ok(true) => {}
        Ok(false) => problems.push("a == b is false for equal maps".into()),
        Err(e) => problems.push(format!("a == b panicked: {:?}", panic_msg(e))),
    }
    for p in &problems {
        println!("PROBLEM {p}");
    }
    assert!(problems.is_empty());
}

/// After promotion, removed keys must not be iterated and re-inserted keys exactly once.
#[test]
fn iter_after_promotion_and_removals() {
    let mut m = filled(20);
    for k in (0..20u32).step_by(3) {
        assert_eq!(m.remove(&k), Some(k * 10));
    }
    m.insert(3, 333).unwrap();
    let want: BTreeMap<u32, u32> =
        (0..20u32).filter(|k| k % 3 != 0).map(|k| (k, k * 10)).chain([(3, 333)]).collect();
    assert_eq!(m.len(), want.len());
    let r = catch_unwind(AssertUnwindSafe(|| m.iter().map(|(k, v)| (*k, *v)).collect::<Vec<(u32, u32)>>()));
    match r {
        Ok(items) => {
            let as_map: BTreeMap<u32, u32> = items.iter().cloned().collect();
            println!("iter() yielded {} items, {} distinct; len() = {}", items.len(), as_map.len(), m.len());
            assert_eq!(items.len(), want.len(), "iter() item count differs from len()");
            assert_eq!(as_map, want);
        }
        Err(e) => panic!("iter() panicked: {:?}", panic_msg(e)),
    }
}

/// Side observation needed for any repair of SmallMap::iter(): the large representation is a
/// ZiporaHashMap, whose own iter() does not skip tombstones (hash == u64::MAX) left by remove().
#[test]
fn side_zipora_hash_map_iter_yields_removed_entries() {
    use zipora::hash_map::ZiporaHashMap;
    let mut m: ZiporaHashMap<u32, u32> = ZiporaHashMap::new().unwrap();
    for k in 0..10u32 {
        m.insert(k, k * 10).unwrap();
    }
    assert_eq!(m.remove(&4), Some(40));
    assert_eq!(m.get(&4), None);
    let items: Vec<(u32, u32)> = m.iter().map(|(k, v)| (*k, *v)).collect();
    println!("len()={} iter().count()={} contains removed key 4: {}", m.len(), items.len(), items.iter().any(|e| e.0 == 4));
    assert_eq!(items.len(), m.len(), "ZiporaHashMap::iter() yields entries that were removed");
}
