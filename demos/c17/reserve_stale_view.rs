// C17: CacheBuffer::reserve reallocates data_buffer but leaves the cached data_slice pointing at the old allocation.
use zipora::cache::CacheBuffer;

#[test]
fn data_survives_reserve() {
    let payload: Vec<u8> = (0..64u8).map(|i| i.wrapping_mul(7).wrapping_add(3)).collect();
    let mut b = CacheBuffer::from_data(payload.clone());
    // keep the heap busy so the small block cannot simply grow in place
    let _blocker: Vec<Vec<u8>> = (0..32).map(|i| vec![i as u8; 64]).collect();
    b.reserve(1 << 20);
    // recycle the freed 64-byte block
    let noise: Vec<Vec<u8>> = (0..64).map(|_| vec![0xEEu8; 64]).collect();
    assert_eq!(b.data(), &payload[..], "CacheBuffer::data() changed after reserve()");
    drop(noise);
}
