// Demonstration for C18: a timed-out (or failing) item leaves PipelineStats::items_in_flight incremented for good.
use std::future::Future;
use std::pin::Pin;
use std::time::Duration;
use zipora::concurrency::pipeline::{PipelineBuilder, PipelineStage};
use zipora::Result;

struct Stall;
impl PipelineStage<u64, u64> for Stall {
    fn process(&self, input: u64) -> Pin<Box<dyn Future<Output = Result<u64>> + Send + '_>> {
        Box::pin(async move {
            tokio::time::sleep(Duration::from_secs(2)).await;
            Ok(input)
        })
    }
    fn name(&self) -> &str {
        "stall"
    }
}

#[tokio::test]
async fn timed_out_item_is_no_longer_in_flight() {
    let pipeline = PipelineBuilder::new().stage_timeout(Duration::from_millis(20)).build();
    for i in 0..3u64 {
        assert!(pipeline.execute_single(Stall, i).await.is_err());
    }
    assert_eq!(pipeline.stats().await.items_in_flight, 0, "nothing is being processed any more");
}
