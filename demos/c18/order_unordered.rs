// Demonstration for C18: sequence-returning concurrency helpers built on buffer_unordered return results in
// completion order, so a slow first item shifts every later result to an earlier index.
use std::time::Duration;
use zipora::concurrency::fiber_aio::FiberIoUtils;
use zipora::concurrency::fiber_yield::CooperativeUtils;

#[tokio::test(flavor = "multi_thread", worker_threads = 2)]
async fn process_files_parallel_keeps_input_order() {
    let paths: Vec<String> = vec!["0".into(), "1".into(), "2".into(), "3".into()];
    let out = FiberIoUtils::process_files_parallel(paths, 4, |p: String| {
        Box::pin(async move {
            let i: u64 = p.parse().unwrap();
            // the first input is the slowest
            tokio::time::sleep(Duration::from_millis(40 * (4 - i))).await;
            Ok(i)
        })
    })
    .await
    .unwrap();
    assert_eq!(out, vec![0, 1, 2, 3], "results must correspond to inputs by index");
}

#[tokio::test(flavor = "multi_thread", worker_threads = 2)]
async fn concurrent_with_yield_keeps_input_order() {
    let ops: Vec<_> = (0u64..4)
        .map(|i| async move {
            tokio::time::sleep(Duration::from_millis(40 * (4 - i))).await;
            Ok::<u64, zipora::error::ZiporaError>(i)
        })
        .collect();
    let out = CooperativeUtils::concurrent_with_yield(ops, 4).await.unwrap();
    assert_eq!(out, vec![0, 1, 2, 3], "results must correspond to inputs by index");
}
