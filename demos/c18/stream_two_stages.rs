// Demonstration for C18: Pipeline::execute_stream with more than one stage. Stage i kept the sender of channel i by
// taking the whole (sender, receiver) pair, so stage i + 1 found nothing to receive from and the call panicked.
use tokio::sync::mpsc;
use zipora::concurrency::pipeline::{MapStage, PipelineBuilder, PipelineStage};
use zipora::Result;

type Stage = Box<dyn PipelineStage<u64, u64>>;

fn add(name: &str, k: u64) -> Stage {
    Box::new(MapStage::new(name.to_string(), move |x: u64| -> Result<u64> { Ok(x + k) }))
}

#[tokio::test(flavor = "multi_thread", worker_threads = 2)]
async fn two_stage_stream_delivers_every_item_in_order() {
    let pipeline = PipelineBuilder::new().buffer_size(4).build();
    let inputs: Vec<u64> = (0..20).collect();
    let (in_tx, in_rx) = mpsc::channel::<u64>(inputs.len() + 1);
    let (out_tx, mut out_rx) = mpsc::channel::<u64>(inputs.len() + 1);
    for &x in &inputs {
        in_tx.send(x).await.unwrap();
    }
    drop(in_tx);
    let outcome = pipeline.execute_stream(vec![add("a", 1), add("b", 10), add("c", 100)], in_rx, out_tx).await;
    assert!(outcome.is_ok(), "{:?}", outcome);
    let mut got = Vec::new();
    while let Some(v) = out_rx.recv().await {
        got.push(v);
    }
    assert_eq!(got, inputs.iter().map(|x| x + 111).collect::<Vec<_>>());
}
