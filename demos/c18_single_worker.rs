// Demonstration for C18 / R-QUEUE: with ONE worker, tasks that balance() parks in the
// owner's steal_queue are never executed (only thieves pop steal_queue).
use std::sync::atomic::{AtomicUsize, Ordering};
use std::sync::Arc;
use std::time::Duration;
use zipora::concurrency::work_stealing::WorkStealingExecutor;

#[tokio::test(flavor = "multi_thread", worker_threads = 2)]
async fn single_worker_executes_every_accepted_task() {
    let ex = WorkStealingExecutor::new(1, 4096).unwrap();
    let done = Arc::new(AtomicUsize::new(0));
    let n = 400;
    let mut accepted = 0;
    for _ in 0..n {
        let d = done.clone();
        if ex
            .submit_closure(move || {
                Box::pin(async move {
                    d.fetch_add(1, Ordering::SeqCst);
                    Ok(())
                })
            })
            .is_ok()
        {
            accepted += 1;
        }
    }
    for _ in 0..50 {
        if done.load(Ordering::SeqCst) == accepted {
            break;
        }
        tokio::time::sleep(Duration::from_millis(100)).await;
    }
    assert_eq!(done.load(Ordering::SeqCst), accepted, "accepted tasks were stranded (total_queued={})", ex.total_queued());
}
