// Demonstration for C18 / R-ERRDEAD: a failing stage item must surface as an error from
// execute_stream, not as a silently shortened output stream with Ok(()).
use tokio::sync::mpsc;
use zipora::concurrency::pipeline::{MapStage, Pipeline, PipelineConfig, PipelineStage};
use zipora::error::ZiporaError;

#[tokio::test]
async fn failing_item_surfaces_as_error() {
    let pipeline = Pipeline::new(PipelineConfig::default());
    let stage = MapStage::new("fail_on_3".to_string(), |x: u32| {
        if x == 3 { Err(ZiporaError::invalid_data("boom")) } else { Ok(x) }
    });
    let stages: Vec<Box<dyn PipelineStage<u32, u32>>> = vec![Box::new(stage)];
    let (in_tx, in_rx) = mpsc::channel(16);
    let (out_tx, mut out_rx) = mpsc::channel(16);
    for i in 0..6u32 {
        in_tx.send(i).await.unwrap();
    }
    drop(in_tx);
    let r = pipeline.execute_stream(stages, in_rx, out_tx).await;
    let mut got = Vec::new();
    while let Some(v) = out_rx.recv().await {
        got.push(v);
    }
    assert!(r.is_err() || got.len() == 6, "item 3 failed, outputs={:?}, but execute_stream returned {:?}", got, r);
}
