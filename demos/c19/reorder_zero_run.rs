// Demonstration for C19/C15: a reorder-map file whose sequence entry declares a run of length 0 is accepted by
// open(); the first next() then underflows the run counter (panic in debug/test builds, fabricated values in release).
use std::io::Write;
use zipora::blob_store::reorder_map::{ZReorderMap, ZReorderMapBuilder};

#[test]
fn zero_length_run_is_refused_or_iterates_without_fault() {
    let dir = std::env::temp_dir().join(format!("zrm_zero_{}", std::process::id()));
    std::fs::create_dir_all(&dir).unwrap();
    let good = dir.join("good.rmap");
    {
        let mut b = ZReorderMapBuilder::new(&good, 4, 1).unwrap();
        for v in [10usize, 11, 12, 13] {
            b.push(v).unwrap();
        }
        b.finish().unwrap();
    }
    let mut bytes = std::fs::read(&good).unwrap();
    // layout: 16-byte header, then one sequence entry: 5 value bytes (LSB 0 = sequence) + var_uint run length (4)
    assert_eq!(*bytes.last().unwrap(), 4, "expected the run length as the last byte");
    *bytes.last_mut().unwrap() = 0; // damaged: run of length 0
    let bad = dir.join("bad.rmap");
    std::fs::File::create(&bad).unwrap().write_all(&bytes).unwrap();

    let outcome = std::panic::catch_unwind(|| match ZReorderMap::open(&bad) {
        Err(_) => Vec::new(),
        Ok(m) => m.take(16).collect::<Vec<usize>>(),
    });
    let _ = std::fs::remove_dir_all(&dir);
    let values = outcome.expect("a damaged file must be refused or read without a fault");
    assert!(values.len() <= 4, "the header vouches for 4 values, got {:?}", values);
}
