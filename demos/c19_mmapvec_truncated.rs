// Demonstration for C19 (R-GUARD.open): MmapVec::open accepts a file that was cut short;
// the header still declares 100000 elements, so get()/as_slice() read far beyond the bytes
// that are actually there. Run in a child process because the read faults or returns garbage.
use std::process::Command;
use zipora::memory::mmap_vec::{MmapVec, MmapVecConfig};

fn child(path: &str) {
    match MmapVec::<u64>::open(path, MmapVecConfig::default()) {
        Err(_) => std::process::exit(0), // refused: the correct outcome
        Ok(v) => {
            // the header vouches for v.len() elements: touch the last one
            let n = v.len();
            let x = v.get(n - 1).copied().unwrap_or(0);
            let s: u64 = v.as_slice().iter().fold(0u64, |a, b| a.wrapping_add(*b));
            println!("opened truncated file: len={} last={} sum={}", n, x, s);
            std::process::exit(3); // exposed bytes the file does not contain
        }
    }
}

#[test]
fn truncated_file_is_refused() {
    if let Ok(p) = std::env::var("ZDEMO_CHILD") {
        child(&p);
        return;
    }
    let dir = tempfile::tempdir().unwrap();
    let path = dir.path().join("v.mmap");
    {
        let mut v = MmapVec::<u64>::create(&path, MmapVecConfig::default()).unwrap();
        for i in 0..100_000u64 {
            v.push(i).unwrap();
        }
        v.sync().unwrap();
    }
    let full = std::fs::metadata(&path).unwrap().len();
    assert!(full > 800_000);
    let f = std::fs::OpenOptions::new().write(true).open(&path).unwrap();
    f.set_len(1000).unwrap(); // header intact, data gone
    drop(f);
    let out = Command::new(std::env::current_exe().unwrap())
        .args(["--exact", "truncated_file_is_refused", "--nocapture"])
        .env("ZDEMO_CHILD", path.to_str().unwrap())
        .output()
        .unwrap();
    assert!(
        out.status.code() == Some(0),
        "reopening a truncated file must fail cleanly; child status {:?}, stdout: {}",
        out.status,
        String::from_utf8_lossy(&out.stdout)
    );
}
