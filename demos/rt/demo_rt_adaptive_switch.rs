//! Round-trip demonstration: `AdaptiveCompressor::decompress` uses whatever
//! `current_compressor` is at the time of the call.  Output produced before a
//! `set_algorithm(..)` can no longer be decompressed afterwards (error), or is
//! returned undecoded without any error when the new algorithm is `None`.

use zipora::compression::{
    AdaptiveCompressor, AdaptiveConfig, Algorithm, PerformanceRequirements,
};

fn sample() -> Vec<u8> {
    b"adaptive payload adaptive payload adaptive payload 0123456789 ".repeat(20)
}

fn new_compressor() -> AdaptiveCompressor {
    AdaptiveCompressor::new(AdaptiveConfig::default(), PerformanceRequirements::default()).unwrap()
}

#[test]
fn control_same_algorithm_roundtrips() {
    let mut c = new_compressor();
    c.set_algorithm(Algorithm::Zstd(3)).unwrap();
    let data = sample();
    let z = c.compress(&data).unwrap();
    assert!(z.len() < data.len());
    assert!(c.decompress(&z).unwrap() == data);
}

/// zstd -> None: the old output comes back as-is (still compressed), no error.
#[test]
fn data_compressed_before_switch_to_none() {
    let mut c = new_compressor();
    c.set_algorithm(Algorithm::Zstd(3)).unwrap();
    let data = sample();
    let z = c.compress(&data).unwrap();

    c.set_algorithm(Algorithm::None).unwrap();
    let back = c.decompress(&z).unwrap();
    assert!(
        back == data,
        "decompress(compress(x)) != x after set_algorithm(None): got {} bytes (the compressed form), expected {}",
        back.len(),
        data.len()
    );
}

/// None -> zstd: the old (stored) output is rejected by the zstd decoder.
#[test]
fn data_compressed_before_switch_to_zstd() {
    let mut c = new_compressor();
    c.set_algorithm(Algorithm::None).unwrap();
    let data = sample();
    let stored = c.compress(&data).unwrap();

    c.set_algorithm(Algorithm::Zstd(3)).unwrap();
    let back = c
        .decompress(&stored)
        .unwrap_or_else(|e| panic!("decompress(compress(x)) failed after set_algorithm(Zstd): {e}"));
    assert!(back == data);
}
