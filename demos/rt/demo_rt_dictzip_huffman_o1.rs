//! Round-trip demonstration: `DictZipBlobStore` with the HuffmanO1 entropy
//! stage.  `put` entropy-codes the PA-Zip output with
//! `encode_x1/x2/x4/x8` (chosen by `entropy_interleaved`), `get` decodes with
//! the non-interleaved `ContextualHuffmanDecoder::decode` and, on top of that,
//! passes the *record's* original size as the number of symbols to decode
//! although the entropy stage coded the (shorter) PA-Zip output.
//!
//! For the entropy stage to be kept by `put`, two conditions must hold:
//!  * `check_compression_ratio`: coded/uncoded <= `entropy_zip_ratio_require`.
//!    Order-1 models built by `ContextualHuffmanEncoder::new` always use 8-bit
//!    codes, so the ratio is exactly 1.0 and the stage is only kept with
//!    `entropy_zip_ratio_require = 1.0` (the maximum `validate()` accepts);
//!  * the final size must be below the record size, i.e. PA-Zip must find
//!    global dictionary matches (records resembling the training samples).

use zipora::blob_store::{BlobStore, CompressedBlobStore};
use zipora::compression::dict_zip::{
    DictZipBlobStore, DictZipBlobStoreBuilder, DictZipConfig, DictionaryBuilderConfig,
    EntropyAlgorithm,
};

fn training() -> Vec<Vec<u8>> {
    vec![
        b"The quick brown fox jumps over the lazy dog".to_vec(),
        b"The lazy dog was jumped over by the quick brown fox".to_vec(),
        b"Quick brown foxes are faster than lazy dogs".to_vec(),
        b"Dogs and foxes are both animals".to_vec(),
        b"Animals like dogs and foxes live in nature".to_vec(),
    ]
}

fn store(entropy_algorithm: EntropyAlgorithm, interleaved: u8) -> DictZipBlobStore {
    let config = DictZipConfig {
        dict_builder_config: DictionaryBuilderConfig {
            target_dict_size: 1024,
            max_dict_size: 8192,
            validate_result: false,
            ..Default::default()
        },
        min_compression_size: 10,
        entropy_algorithm,
        entropy_interleaved: interleaved,
        entropy_zip_ratio_require: 1.0,
        ..Default::default()
    };
    let mut builder = DictZipBlobStoreBuilder::with_config(config).unwrap();
    for s in training() {
        builder.add_training_sample(&s).unwrap();
    }
    builder.finish().unwrap()
}

fn records() -> Vec<Vec<u8>> {
    let t = training();
    let mut r = t.clone();
    // concatenations / repetitions of training sentences
    r.push([t[0].as_slice(), b". ", t[3].as_slice(), b". ", t[2].as_slice()].concat());
    r.push(t[2].repeat(3));
    r.push(t[4].repeat(2));
    r.push([t[1].as_slice(), t[1].as_slice()].concat());
    // variations of the first training sentence
    r.push([t[0].as_slice(), b" again and again"].concat());
    r.push([b"Look: ".as_slice(), t[0].as_slice()].concat());
    r.push(t[0][..36].to_vec());
    r.push(t[0][4..].to_vec());
    r
}

fn roundtrip(interleaved: u8) {
    let mut s = store(EntropyAlgorithm::HuffmanO1, interleaved);
    let mut failures = Vec::new();
    let mut compressed_records = 0;
    for rec in records() {
        let id = s.put(&rec).unwrap();
        let stored = s.compressed_size(id).unwrap().unwrap();
        if stored < rec.len() {
            compressed_records += 1;
        }
        print!("x{}: record {:3} bytes stored as {:3} bytes: ", interleaved, rec.len(), stored);
        match s.get(id) {
            Ok(back) if back == rec => println!("ok"),
            Ok(back) => {
                println!("WRONG BYTES");
                failures.push(format!(
                    "record of {} bytes came back as {} different bytes: {:?}",
                    rec.len(),
                    back.len(),
                    String::from_utf8_lossy(&back)
                ))
            }
            Err(e) => {
                println!("ERROR {}", e);
                failures.push(format!("record of {} bytes: get failed: {}", rec.len(), e))
            }
        }
    }
    assert!(compressed_records > 0, "no record took the compressed path; demo is vacuous");
    assert!(
        failures.is_empty(),
        "HuffmanO1 x{}: get(put(x)) != x for {} of {} records:\n  {}",
        interleaved,
        failures.len(),
        records().len(),
        failures.join("\n  ")
    );
}

/// Control: same store, same records, no entropy stage.
#[test]
fn control_no_entropy_stage() {
    let mut s = store(EntropyAlgorithm::None, 0);
    for rec in records() {
        let id = s.put(&rec).unwrap();
        assert!(s.get(id).unwrap() == rec);
    }
}

#[test]
fn huffman_o1_x1_roundtrip() {
    roundtrip(1);
}

#[test]
fn huffman_o1_x2_roundtrip() {
    roundtrip(2);
}

#[test]
fn huffman_o1_x4_roundtrip() {
    roundtrip(4);
}

#[test]
fn huffman_o1_x8_roundtrip() {
    roundtrip(8);
}
