//! Round-trip demonstration: `FseEncoder::compress` emits an escape marker
//! (`0xFF, symbol`) into the rANS byte stream when `FseTable::encode_symbol`
//! returns `None` (the symbol has frequency 0 in the normalised table).  The
//! decoder knows nothing about that marker, so `decompress(compress(x)) != x`.
//!
//! Two public-API ways to get a `None`:
//!  (a) default config: a skewed input whose rare symbols are rounded to zero
//!      by the frequency normalisation (the 4096 table slots are used up before
//!      the last symbols are reached);
//!  (b) non-adaptive config (`FseConfig::realtime()`), encoder trained with
//!      `analyze_frequencies` on other data than what is compressed.

use zipora::entropy::fse::{FseConfig, FseDecoder, FseEncoder};

/// Outcome that is acceptable: compress refuses, or the round trip is exact.
fn check_roundtrip(encoder: &mut FseEncoder, decoder: &mut FseDecoder, data: &[u8], what: &str) {
    match encoder.compress(data) {
        Err(e) => println!("{what}: compress refused: {e}"),
        Ok(compressed) => {
            let out = decoder
                .decompress(&compressed)
                .unwrap_or_else(|e| panic!("{what}: decompress failed: {e}"));
            assert_eq!(out.len(), data.len(), "{what}: length differs");
            let first_diff = out.iter().zip(data).position(|(a, b)| a != b);
            assert!(
                out == data,
                "{what}: decompress(compress(x)) != x, first difference at byte {:?} of {}",
                first_diff,
                data.len()
            );
        }
    }
}

/// 6000 x b'a' followed by every other byte value once.
fn skewed_data() -> Vec<u8> {
    let mut data = vec![b'a'; 6000];
    for b in 0..=255u8 {
        if b != b'a' {
            data.push(b);
        }
    }
    data
}

/// Control: every symbol keeps a non-zero normalised frequency (8 symbols,
/// 512 table slots each).  Shows the codec itself round-trips.
#[test]
fn control_default_config_all_symbols_representable() {
    let data: Vec<u8> = b"abcdefgh".iter().cycle().take(6000).copied().collect();
    let mut enc = FseEncoder::new(FseConfig::default()).unwrap();
    let mut dec = FseDecoder::new();
    let compressed = enc.compress(&data).unwrap();
    assert!(dec.decompress(&compressed).unwrap() == data, "control round trip");
}

/// (a) default configuration, nothing special but the input distribution.
#[test]
fn default_config_symbols_normalised_to_zero() {
    let data = skewed_data();
    let mut enc = FseEncoder::new(FseConfig::default()).unwrap();
    let mut dec = FseDecoder::new();
    check_roundtrip(&mut enc, &mut dec, &data, "default config / skewed input");
}

/// (a') same with the simple (non entropy-preserving) normalisation.
#[test]
fn fast_config_symbols_normalised_to_zero() {
    let data = skewed_data();
    let mut enc = FseEncoder::new(FseConfig::fast_compression()).unwrap();
    let mut dec = FseDecoder::with_config(FseConfig::fast_compression()).unwrap();
    check_roundtrip(&mut enc, &mut dec, &data, "fast_compression config / skewed input");
}

/// (b) non-adaptive encoder trained on other data.
#[test]
fn non_adaptive_encoder_trained_on_other_data() {
    let training: Vec<u8> = b"abcdefgh".iter().cycle().take(4000).copied().collect();
    let mut data: Vec<u8> = b"abcdefgh".iter().cycle().take(400).copied().collect();
    data[100] = b'Z'; // never seen in training
    data[250] = b'Q';

    let config = FseConfig::realtime(); // adaptive: false
    let mut enc = FseEncoder::new(config).unwrap();
    enc.analyze_frequencies(&training).unwrap();

    // control: data drawn from the training alphabet round-trips
    let same: Vec<u8> = b"abcdefgh".iter().cycle().take(400).copied().collect();
    // (default decoder: the stream header carries the frequency table)
    let mut dec = FseDecoder::new();
    let c = enc.compress(&same).unwrap();
    assert!(dec.decompress(&c).unwrap() == same, "control for (b)");

    check_roundtrip(&mut enc, &mut dec, &data, "pre-trained non-adaptive encoder / unseen symbols");
}
