//! Round-trip demonstration for the interleaved Order-1 Huffman coder
//! (`ContextualHuffmanEncoder::encode_x1/x2/x4/x8`, `encode_with_interleaving`).
//!
//! The encoders look codes up in a "fast symbol table" whose entries hold at
//! most 16 code bits.  `build_fast_symbol_table_inner` silently truncates
//! longer codes to their first 16 bits and stores the placeholder code
//! `(bits = 0, bit_count = 1)` for symbols that are absent from the tree, so
//! `decode_xN(encode_xN(x))` returns other bytes than `x` without any error.
//!
//! Reachability (checked below): `ContextualHuffmanEncoder::new(_, Order1)`
//! can NOT reach the defect, because it builds every tree over all 256 byte
//! values and `HuffmanTree::from_frequencies` replaces any tree deeper than 64
//! levels by an 8-bit fixed-length code (and, its heap ordering being
//! inverted, every tree with more than 65 symbols is that deep).  The defect is
//! reached with a model loaded through the public
//! `ContextualHuffmanEncoder::deserialize`, whose trees were built with the
//! public `HuffmanTree::from_frequencies` over a smaller alphabet with a
//! Fibonacci frequency distribution (code lengths up to 39 bits).

use zipora::entropy::huffman::{
    ContextualHuffmanDecoder, ContextualHuffmanEncoder, HuffmanOrder, HuffmanTree,
    InterleavingFactor,
};

const ALPHABET: usize = 40;

/// Order-1 model with a single (fallback) tree over bytes 0..40 with
/// Fibonacci frequencies, in the documented `serialize()` layout:
/// [order u8][tree_count u32][context_count u32]{ctx u32, idx u32}*{len u32, tree}*
fn fibonacci_model() -> (ContextualHuffmanEncoder, HuffmanTree) {
    let mut freqs = [0u32; 256];
    let (mut a, mut b) = (1u32, 1u32);
    for f in freqs.iter_mut().take(ALPHABET) {
        *f = a;
        let next = a + b;
        a = b;
        b = next;
    }
    let tree = HuffmanTree::from_frequencies(&freqs).unwrap();
    let tree_bytes = tree.serialize();

    let mut model = Vec::new();
    model.push(1u8); // HuffmanOrder::Order1
    model.extend_from_slice(&1u32.to_le_bytes()); // one tree (index 0 = fallback for all contexts)
    model.extend_from_slice(&0u32.to_le_bytes()); // empty context map
    model.extend_from_slice(&(tree_bytes.len() as u32).to_le_bytes());
    model.extend_from_slice(&tree_bytes);

    let enc = ContextualHuffmanEncoder::deserialize(&model).unwrap();
    assert_eq!(enc.order(), HuffmanOrder::Order1);
    (enc, tree)
}

/// Every symbol of the model's alphabet, a few times.
fn message() -> Vec<u8> {
    let mut msg = Vec::new();
    for round in 0..3u8 {
        for s in 0..ALPHABET as u8 {
            msg.push((s.wrapping_mul(7).wrapping_add(round)) % ALPHABET as u8);
        }
    }
    msg
}

#[test]
fn precondition_model_has_codes_longer_than_16_bits() {
    let (_, tree) = fibonacci_model();
    assert!(tree.max_code_length() > 16, "max code length {}", tree.max_code_length());
    let longest = (0..ALPHABET as u8)
        .map(|s| tree.get_code(s).unwrap().len())
        .max()
        .unwrap();
    println!("longest code in model: {} bits", longest);
}

/// Why `new(_, Order1)` cannot reach the defect: all its trees are 8-bit
/// fixed-length codes over all 256 symbols.
#[test]
fn note_trained_order1_models_never_exceed_8_bits() {
    let mut data = Vec::new();
    for i in 0..12u32 {
        data.extend(std::iter::repeat(i as u8).take(1usize << (8 + i)));
    }
    let enc = ContextualHuffmanEncoder::new(&data, HuffmanOrder::Order1).unwrap();
    let bytes = enc.serialize();
    // parse: order, tree_count, context map, then trees
    let tree_count = u32::from_le_bytes(bytes[1..5].try_into().unwrap()) as usize;
    let ctx_count = u32::from_le_bytes(bytes[5..9].try_into().unwrap()) as usize;
    let mut off = 9 + ctx_count * 8;
    let mut max_len = 0;
    for _ in 0..tree_count {
        let len = u32::from_le_bytes(bytes[off..off + 4].try_into().unwrap()) as usize;
        off += 4;
        let t = HuffmanTree::deserialize(&bytes[off..off + len]).unwrap();
        off += len;
        max_len = max_len.max(t.max_code_length());
        for s in 0..=255u8 {
            assert!(t.get_code(s).is_some());
        }
    }
    println!("trained Order-1 model: {} trees, longest code {} bits", tree_count, max_len);
    assert!(max_len <= 16);
}

/// Control: the plain (non-interleaved) Order-1 encoder/decoder round-trips the
/// same model and message, so the model itself is usable.
#[test]
fn control_plain_order1_roundtrip_with_long_codes() {
    let msg = message();
    let (enc, _) = fibonacci_model();
    let bits = enc.encode(&msg).unwrap();
    let dec = ContextualHuffmanDecoder::new(enc);
    let out = dec.decode(&bits, msg.len()).unwrap();
    assert_eq!(out, msg);
}

fn roundtrip(factor: InterleavingFactor, msg: &[u8]) {
    let (enc, _) = fibonacci_model();
    // Encoding may legitimately refuse (Err); it must not return bytes that
    // decode to something else.
    match enc.encode_with_interleaving(msg, factor) {
        Err(e) => println!("{:?}: encoder refused: {}", factor, e),
        Ok(encoded) => {
            let decoded = enc
                .decode_with_interleaving(&encoded, msg.len(), factor)
                .expect("decode of freshly encoded data failed");
            assert_eq!(
                decoded, msg,
                "{:?}: decode_with_interleaving(encode_with_interleaving(x)) != x",
                factor
            );
        }
    }
}

#[test]
fn x1_roundtrip_with_codes_longer_than_16_bits() {
    roundtrip(InterleavingFactor::X1, &message());
}

#[test]
fn x2_roundtrip_with_codes_longer_than_16_bits() {
    roundtrip(InterleavingFactor::X2, &message());
}

#[test]
fn x4_roundtrip_with_codes_longer_than_16_bits() {
    roundtrip(InterleavingFactor::X4, &message());
}

#[test]
fn x8_roundtrip_with_codes_longer_than_16_bits() {
    roundtrip(InterleavingFactor::X8, &message());
}

/// Same through the encode_x4 / decode_x4 convenience wrappers.
#[test]
fn x4_wrappers_roundtrip() {
    let (enc, _) = fibonacci_model();
    let msg = message();
    if let Ok(encoded) = enc.encode_x4(&msg) {
        let decoded = enc.decode_x4(&encoded, msg.len()).unwrap();
        assert_eq!(decoded, msg);
    }
}

/// A byte that is not in the model at all: `tree.get_code` misses and the
/// table stores the placeholder code (bits 0, 1 bit).  With a two-symbol model
/// {b'a' -> "0", b'b' -> "1"} the placeholder is exactly the code of b'a', so
/// the unknown byte b'c' silently comes back as b'a' (wrong bytes, no error).
/// The plain encoder reports an error for such input; the interleaved one
/// must not invent a code.
#[test]
fn x1_x4_symbol_absent_from_model_is_not_silently_replaced() {
    let mut freqs = [0u32; 256];
    freqs[b'a' as usize] = 3;
    freqs[b'b' as usize] = 1;
    let tree_bytes = HuffmanTree::from_frequencies(&freqs).unwrap().serialize();
    let mut model = vec![1u8];
    model.extend_from_slice(&1u32.to_le_bytes());
    model.extend_from_slice(&0u32.to_le_bytes());
    model.extend_from_slice(&(tree_bytes.len() as u32).to_le_bytes());
    model.extend_from_slice(&tree_bytes);
    let enc = ContextualHuffmanEncoder::deserialize(&model).unwrap();

    let msg = b"abcabcab".to_vec();
    assert!(enc.encode(&msg).is_err(), "plain encoder rejects the unknown symbol");

    for factor in [InterleavingFactor::X1, InterleavingFactor::X4] {
        match enc.encode_with_interleaving(&msg, factor) {
            Err(e) => println!("{:?}: encoder refused: {}", factor, e),
            Ok(encoded) => {
                let decoded = enc.decode_with_interleaving(&encoded, msg.len(), factor).unwrap();
                assert_eq!(
                    String::from_utf8_lossy(&decoded),
                    String::from_utf8_lossy(&msg),
                    "{:?}: unknown symbol was silently replaced",
                    factor
                );
            }
        }
    }
}
