//! Round-trip demonstration: after `build_tree()`, `HuffmanBlobStore::put`
//! stores the Huffman-coded bytes in the inner store, but `get` returns the
//! inner bytes unchanged (no decoding), and `size` reports the coded size.

use zipora::blob_store::{BlobStore, HuffmanBlobStore, MemoryBlobStore};

fn trained_store() -> HuffmanBlobStore<MemoryBlobStore> {
    let mut store = HuffmanBlobStore::new(MemoryBlobStore::new());
    store.add_training_data(b"hello world hello world, the quick brown fox jumps over the lazy dog");
    store.build_tree().unwrap();
    store
}

#[test]
fn control_untrained_store_roundtrips() {
    let mut store = HuffmanBlobStore::new(MemoryBlobStore::new());
    let data = b"hello world";
    let id = store.put(data).unwrap();
    assert_eq!(store.get(id).unwrap(), data);
    assert_eq!(store.size(id).unwrap(), Some(data.len()));
}

#[test]
fn trained_store_get_returns_what_was_put() {
    let mut store = trained_store();
    let data = b"hello world, the lazy dog jumps over the quick brown fox";
    let id = store.put(data).unwrap();
    assert_eq!(store.compression_stats().compressions, 1, "record went through the Huffman path");

    let back = store.get(id).unwrap();
    assert_eq!(
        String::from_utf8_lossy(&back),
        String::from_utf8_lossy(data),
        "get(put(x)) != x ({} bytes returned, {} stored)",
        back.len(),
        data.len()
    );
}

#[test]
fn trained_store_size_reports_record_length() {
    let mut store = trained_store();
    let data = b"hello world hello world hello world hello world";
    let id = store.put(data).unwrap();
    assert_eq!(store.size(id).unwrap(), Some(data.len()));
}

/// Records that cannot be Huffman-coded (byte not in the training data) take
/// the uncompressed fallback inside `put`; they, empty records and records
/// written before training must stay readable next to compressed ones.
#[test]
fn mixed_compressed_fallback_and_untrained_records() {
    let mut store = HuffmanBlobStore::new(MemoryBlobStore::new());
    let before_training = b"stored before the tree exists";
    let id0 = store.put(before_training).unwrap();

    store.add_training_data(b"hello world hello world, the quick brown fox jumps over the lazy dog");
    store.build_tree().unwrap();

    let compressible = b"the quick brown fox";
    let unknown_symbols = b"HELLO WORLD 12345 \x00\x01\xff"; // not in training data -> fallback
    let id1 = store.put(compressible).unwrap();
    let id2 = store.put(unknown_symbols).unwrap();
    let id3 = store.put(b"").unwrap();

    assert_eq!(store.get(id0).unwrap(), before_training);
    assert_eq!(store.get(id1).unwrap(), compressible);
    assert_eq!(store.get(id2).unwrap(), unknown_symbols);
    assert_eq!(store.get(id3).unwrap(), b"");
    assert_eq!(store.size(id1).unwrap(), Some(compressible.len()));
    assert_eq!(store.size(id2).unwrap(), Some(unknown_symbols.len()));
    assert_eq!(store.len(), 4);
}
