//! Round-trip demonstration: `HybridCompressor::compress` keeps the input
//! unchanged when no candidate compressor beats the raw size, but tags it with
//! algorithm id 0; `decompress` routes id 0 to the Huffman decompressor.

use zipora::compression::{Algorithm, Compressor, CompressorFactory, HybridCompressor};

/// Deterministic pseudo-random (incompressible) bytes.
fn pseudo_random(n: usize, mut seed: u64) -> Vec<u8> {
    let mut v = Vec::with_capacity(n);
    for _ in 0..n {
        // xorshift64*
        seed ^= seed >> 12;
        seed ^= seed << 25;
        seed ^= seed >> 27;
        v.push((seed.wrapping_mul(0x2545F4914F6CDD1D) >> 56) as u8);
    }
    v
}

#[test]
fn control_compressible_data_roundtrips() {
    let training = b"hello hello hello world world world hello world ".repeat(40);
    let hybrid = HybridCompressor::new(&training).unwrap();
    let compressed = hybrid.compress(&training).unwrap();
    assert!(compressed.len() < training.len());
    let out = hybrid.decompress(&compressed).unwrap();
    assert!(out == training, "control round trip");
}

#[test]
fn incompressible_data_roundtrips() {
    let data = pseudo_random(4096, 0x9E3779B97F4A7C15);
    let hybrid = HybridCompressor::new(&data).unwrap();

    let compressed = hybrid.compress(&data).unwrap();
    println!(
        "input {} bytes -> output {} bytes, leading tag byte {}",
        data.len(),
        compressed.len(),
        compressed[0]
    );
    // nothing beat the raw size: payload is the input itself
    assert_eq!(compressed.len(), data.len() + 1);
    assert!(compressed[1..] == data[..]);

    let out = hybrid
        .decompress(&compressed)
        .unwrap_or_else(|e| panic!("decompress(compress(x)) failed: {e}"));
    assert!(out == data, "decompress(compress(x)) != x");
}

#[test]
fn incompressible_data_roundtrips_via_factory() {
    let data = pseudo_random(1000, 42);
    let c = CompressorFactory::create(Algorithm::Hybrid, Some(&data)).unwrap();
    let compressed = c.compress(&data).unwrap();
    let out = c
        .decompress(&compressed)
        .unwrap_or_else(|e| panic!("decompress(compress(x)) failed: {e}"));
    assert!(out == data, "decompress(compress(x)) != x");
}

/// Short input: any header makes every candidate larger than the input.
#[test]
fn short_input_roundtrips() {
    let training = b"hello hello hello world world world hello world ".repeat(40);
    let hybrid = HybridCompressor::new(&training).unwrap();
    let data = b"hello world";
    let compressed = hybrid.compress(data).unwrap();
    let out = hybrid
        .decompress(&compressed)
        .unwrap_or_else(|e| panic!("decompress(compress(x)) failed: {e}"));
    assert_eq!(out, data);
}
