//! PA-Zip `PaZipCompressor`: the legacy encoder writes `Far1Short` as
//! [u16 distance][u8 length] and `Far2Short` as [u32 distance][u8 length], while
//! `decompress_match` reads [u8][u8] and [u16][u8] respectively.
//!
//! This file is a REACHABILITY PROBE, not a failing demonstration: through the
//! public API the writer side of that mismatch is never executed.
//! `PaZipCompressor::compress` never feeds its `LocalMatcher` (no `add_byte`
//! call anywhere in the compressor) and calls `find_match(&input[pos..], ..)`,
//! i.e. always with `input_pos == 0`, so RLE detection (`input_pos == 0 ->
//! None`) and the hash-chain search (empty table) never return a local match.
//! No `CompressionStrategy::Local` is ever selected and no Far1Short/Far2Short
//! token is ever written.  The tests below compress inputs whose repeats lie at
//! exactly the distances that `choose_best_compression_type` maps to Far1Short
//! (distance 10..=257, length 6..=33) and Far2Short (distance 258..=65793) and
//! check (1) the round trip is exact and (2) the statistics show zero local
//! matches / zero tokens of type 4 and 5.

use std::sync::Arc;
use zipora::compression::dict_zip::{
    choose_best_compression_type, CompressionType, DictionaryBuilder, DictionaryBuilderConfig,
    PaZipCompressor, PaZipCompressorConfig,
};
use zipora::memory::{SecureMemoryPool, SecurePoolConfig};

fn compressor(max_local_probe_distance: u32) -> PaZipCompressor {
    // dictionary trained on unrelated text so global matches do not hide the repeats
    let training = b"zzzz yyyy xxxx wwww vvvv uuuu tttt ssss rrrr qqqq pppp oooo nnnn mmmm llll";
    let dict_config = DictionaryBuilderConfig {
        target_dict_size: 2048,
        max_dict_size: 4096,
        validate_result: true,
        ..Default::default()
    };
    let dictionary = DictionaryBuilder::with_config(dict_config).build(training).unwrap();
    let config = PaZipCompressorConfig {
        max_local_probe_distance,
        adaptive_thresholds: false,
        ..PaZipCompressorConfig::default()
    };
    let pool: Arc<SecureMemoryPool> =
        SecureMemoryPool::new(SecurePoolConfig::new(4096, 1024, 8)).unwrap();
    PaZipCompressor::new(dictionary, config, pool).unwrap()
}

/// `unit` (20 distinct bytes) ... filler of `gap` distinct-ish bytes ... `unit` again.
fn input_with_repeat_at(distance: usize) -> Vec<u8> {
    let unit: Vec<u8> = (0..20u8).map(|i| b'A' + i).collect();
    let mut v = unit.clone();
    let mut x = 12345u32;
    while v.len() < distance {
        x = x.wrapping_mul(1103515245).wrapping_add(12345);
        v.push(b'a' + ((x >> 16) % 26) as u8 % 6 + 20); // bytes disjoint from `unit`
    }
    v.extend_from_slice(&unit);
    v
}

#[test]
fn strategy_maps_these_distances_to_far1short_and_far2short() {
    assert_eq!(choose_best_compression_type(40, 20), Some(CompressionType::Far1Short));
    assert_eq!(choose_best_compression_type(200, 20), Some(CompressionType::Far1Short));
    assert_eq!(choose_best_compression_type(300, 20), Some(CompressionType::Far2Short));
    assert_eq!(choose_best_compression_type(5000, 20), Some(CompressionType::Far2Short));
}

#[test]
fn far_matches_are_never_emitted_so_roundtrip_holds() {
    for &distance in &[40usize, 200, 300, 5000] {
        for &probe in &[8u32, 100_000] {
            let mut c = compressor(probe);
            let input = input_with_repeat_at(distance);
            let mut compressed = Vec::new();
            let stats = c.compress(&input, &mut compressed).unwrap();
            let mut out = Vec::new();
            c.decompress(&compressed, &mut out).unwrap();
            println!(
                "distance {:5} probe {:6}: in {} out {} literals {} local {} global {} type_usage {:?} local_matcher.bytes_added {}",
                distance,
                probe,
                input.len(),
                compressed.len(),
                stats.literal_count,
                stats.local_matches,
                stats.global_matches,
                stats.compression_type_usage,
                c.local_matcher_stats().bytes_added
            );
            assert!(out == input, "round trip differs at distance {}", distance);
            // the writer side of the mismatch is not reached:
            assert_eq!(stats.local_matches, 0);
            assert_eq!(stats.compression_type_usage[CompressionType::Far1Short as usize], 0);
            assert_eq!(stats.compression_type_usage[CompressionType::Far2Short as usize], 0);
            assert_eq!(c.local_matcher_stats().bytes_added, 0);
            // no token of type 4/5 in the stream ([type][len][byte] literals / [1][u16][u16] globals)
            let mut pos = 0;
            while pos < compressed.len() {
                match compressed[pos] {
                    0 => pos += 2 + compressed[pos + 1] as usize,
                    1 => pos += 5,
                    t => panic!("unexpected token type {} at {}", t, pos),
                }
            }
        }
    }
}
