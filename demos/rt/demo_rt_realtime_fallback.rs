//! Round-trip demonstration: `RealtimeCompressor` sometimes returns the input
//! unchanged (deadline fallback in `handle_timeout`, and the `< 64 bytes`
//! shortcut of `compress_internal` in UltraLowLatency mode) but `decompress`
//! always runs the current compressor's decompressor, and the output carries
//! no marker telling the two cases apart.
//!
//! Mode -> compressor (default features: zstd on, lz4 off):
//!   UltraLowLatency -> NoCompressor (identity: the shortcut is harmless here)
//!   LowLatency      -> Lz4Compressor (compress() is Err without the lz4 feature)
//!   Balanced        -> Zstd(3)
//!   HighCompression -> Zstd(9)

use std::time::{Duration, Instant};
use zipora::compression::{CompressionMode, RealtimeCompressor};

fn sample() -> Vec<u8> {
    b"real-time payload real-time payload real-time payload 0123456789 ".repeat(20)
}

/// Control: with a generous deadline Balanced mode round-trips.
#[tokio::test]
async fn control_balanced_mode_with_generous_deadline() {
    let c = RealtimeCompressor::with_mode(CompressionMode::Balanced).unwrap();
    let data = sample();
    let compressed = c
        .compress_with_deadline(&data, Instant::now() + Duration::from_secs(30))
        .await
        .unwrap();
    assert!(compressed.len() < data.len());
    assert!(c.decompress(&compressed).await.unwrap() == data);
}

/// Control: UltraLowLatency uses the no-op compressor, so its `< 64 bytes`
/// shortcut round-trips.
#[tokio::test]
async fn control_ultra_low_latency_small_input() {
    let c = RealtimeCompressor::with_mode(CompressionMode::UltraLowLatency).unwrap();
    let data = b"tiny";
    let compressed = c
        .compress_with_deadline(data, Instant::now() + Duration::from_secs(30))
        .await
        .unwrap();
    assert_eq!(c.decompress(&compressed).await.unwrap(), data);
}

/// (A) Deadline already over -> `handle_timeout` returns the raw input
/// (`fallback_on_timeout` defaults to true); `decompress` hands it to zstd.
#[tokio::test]
async fn timeout_fallback_output_must_decompress() {
    let c = RealtimeCompressor::with_mode(CompressionMode::Balanced).unwrap();
    let data = sample();
    let out = c.compress_with_deadline(&data, Instant::now()).await.unwrap();
    assert!(c.stats().fallback_operations > 0, "fallback path was taken");
    let back = c
        .decompress(&out)
        .await
        .unwrap_or_else(|e| panic!("decompress(compress(x)) failed after deadline fallback: {e}"));
    assert!(back == data, "decompress(compress(x)) != x after deadline fallback");
}

/// (A') Same path, but the payload is itself a zstd frame (e.g. data that was
/// compressed upstream): the raw fallback output is "decompressed" into other
/// bytes without any error.
#[tokio::test]
async fn timeout_fallback_of_zstd_looking_payload_returns_same_bytes() {
    let c = RealtimeCompressor::with_mode(CompressionMode::Balanced).unwrap();
    let inner = sample();
    let payload = c
        .compress_with_deadline(&inner, Instant::now() + Duration::from_secs(30))
        .await
        .unwrap(); // a valid zstd frame, used as the user's data x

    let out = c.compress_with_deadline(&payload, Instant::now()).await.unwrap();
    let back = c.decompress(&out).await.unwrap();
    assert!(
        back == payload,
        "decompress(compress(x)) != x: got {} bytes, expected the {}-byte payload",
        back.len(),
        payload.len()
    );
}

/// (B) The small-input shortcut keys on `config.mode`, which `set_mode` does not
/// update: after switching an UltraLowLatency instance to Balanced, inputs
/// below 64 bytes are still returned raw while `decompress` uses zstd.
#[tokio::test]
async fn small_input_shortcut_after_set_mode() {
    let c = RealtimeCompressor::with_mode(CompressionMode::UltraLowLatency).unwrap();
    c.set_mode(CompressionMode::Balanced).unwrap();
    let data = b"short message below 64 bytes";
    let out = c
        .compress_with_deadline(data, Instant::now() + Duration::from_secs(30))
        .await
        .unwrap();
    let back = c
        .decompress(&out)
        .await
        .unwrap_or_else(|e| panic!("decompress(compress(x)) failed for small input: {e}"));
    assert_eq!(back, data);
}
