//! `ZipOffsetBlobStore::save_to_writer` / `load_from_reader` never write nor
//! read the offset index (`offsets`), so a saved-and-loaded store could not
//! answer `get`.
//!
//! That defect cannot be isolated through the public API, because a
//! `ZipOffsetBlobStore` that holds records cannot be obtained at all:
//!  * `ZipOffsetBlobStore::put` always fails (read-only store);
//!  * `ZipOffsetBlobStoreBuilder::finish` is a placeholder: it builds the
//!    offset index, drops it (`let _offsets = ...`), drops the content buffer
//!    and returns a brand-new EMPTY store.
//! So `get(add_record(x))` already fails right after `finish()`, before any
//! save/load.  The first test documents that (it FAILS on the current code);
//! the second shows what save/load does with the only kind of store that
//! exists (an empty one).

use zipora::blob_store::{
    BlobStore, ZipOffsetBlobStore, ZipOffsetBlobStoreBuilder, ZipOffsetBlobStoreConfig,
};

fn config() -> ZipOffsetBlobStoreConfig {
    ZipOffsetBlobStoreConfig {
        compress_level: 0,
        checksum_level: 0,
        ..ZipOffsetBlobStoreConfig::default()
    }
}

const RECORDS: [&[u8]; 3] = [b"First record", b"Second record", b"Third record"];

#[test]
fn builder_finish_then_save_load_then_get() {
    let mut builder = ZipOffsetBlobStoreBuilder::with_config(config()).unwrap();
    let ids: Vec<_> = RECORDS.iter().map(|r| builder.add_record(r).unwrap()).collect();
    assert_eq!(builder.len(), 3);
    assert!(builder.content_size() > 0);

    let store = builder.finish().unwrap();
    println!(
        "after finish(): len() = {}, contains(0) = {}, memory_usage = {}",
        store.len(),
        store.contains(0),
        store.memory_usage()
    );

    // get(put(x)) == x straight after the build ...
    for (id, rec) in ids.iter().zip(RECORDS.iter()) {
        let got = store
            .get(*id)
            .unwrap_or_else(|e| panic!("get({}) on the freshly built store failed: {}", id, e));
        assert_eq!(&got, rec);
    }

    // ... and after a save/load cycle
    let mut file = Vec::new();
    store.save_to_writer(&mut file).unwrap();
    let loaded = ZipOffsetBlobStore::load_from_reader(&mut file.as_slice()).unwrap();
    for (id, rec) in ids.iter().zip(RECORDS.iter()) {
        let got = loaded
            .get(*id)
            .unwrap_or_else(|e| panic!("get({}) on the loaded store failed: {}", id, e));
        assert_eq!(&got, rec);
    }
}

/// What save/load handles today: the empty store only (passes).
#[test]
fn empty_store_save_load() {
    let store = ZipOffsetBlobStoreBuilder::with_config(config()).unwrap().finish().unwrap();
    let mut file = Vec::new();
    store.save_to_writer(&mut file).unwrap();
    println!("saved empty store: {} bytes (header only, no offset index, no footer)", file.len());
    let loaded = ZipOffsetBlobStore::load_from_reader(&mut file.as_slice()).unwrap();
    assert_eq!(loaded.len(), 0);
    assert!(loaded.get(0).is_err());
}
