// zfacts: rustc_private fact extractor (E1 in DESIGN.md).
// Used as RUSTC_WORKSPACE_WRAPPER: argv = [zfacts, <rustc path>, rustc args...].
// For the crates named in ZFACTS_CRATES (default "zipora") it dumps, in
// after_analysis, every MIR body (mir_promoted: post-borrowck, pre drop elaboration,
// pre coroutine transform) plus ADT / impl records as tab-prefixed JSON lines into
// $ZFACTS_OUT/<crate>.facts. One write per process.
#![feature(rustc_private)]
#![allow(clippy::all)]

extern crate rustc_abi;
extern crate rustc_data_structures;
extern crate rustc_index;
extern crate rustc_driver;
extern crate rustc_hir;
extern crate rustc_interface;
extern crate rustc_middle;
extern crate rustc_span;

use rustc_driver::Compilation;
use rustc_hir::def::DefKind;
use rustc_hir::def_id::{DefId, LOCAL_CRATE};
use rustc_middle::mir::{
    self, AggregateKind, BasicBlock, Body, CastKind, Operand, Place, PlaceElem, Rvalue,
    StatementKind, TerminatorKind, VarDebugInfoContents,
};
use rustc_middle::ty::print::with_no_trimmed_paths;
use rustc_middle::ty::{self, Instance, Ty, TyCtxt, TypingEnv};
use rustc_span::Span;
use std::fmt::Write as _;

fn esc(s: &str, out: &mut String) {
    out.push('"');
    for c in s.chars() {
        match c {
            '"' => out.push_str("\\\""),
            '\\' => out.push_str("\\\\"),
            '\n' => out.push_str("\\n"),
            '\t' => out.push_str("\\t"),
            '\r' => out.push_str("\\r"),
            c if (c as u32) < 0x20 => {
                let _ = write!(out, "\\u{:04x}", c as u32);
            }
            c => out.push(c),
        }
    }
    out.push('"');
}

struct Ctx<'tcx> {
    tcx: TyCtxt<'tcx>,
}

impl<'tcx> Ctx<'tcx> {
    fn path(&self, did: DefId) -> String {
        with_no_trimmed_paths!(self.tcx.def_path_str(did))
    }
    fn ty_s(&self, t: Ty<'tcx>) -> String {
        with_no_trimmed_paths!(format!("{}", t))
    }
    fn line(&self, sp: Span) -> (String, usize) {
        let sp = sp.source_callsite();
        let loc = self.tcx.sess.source_map().lookup_char_pos(sp.lo());
        let fname = with_no_trimmed_paths!(format!(
            "{}",
            loc.file.name.prefer_local_unconditionally()
        ));
        (fname, loc.line)
    }
    fn lineno(&self, sp: Span) -> usize {
        let sp = sp.source_callsite();
        self.tcx.sess.source_map().lookup_char_pos(sp.lo()).line
    }

    fn place(&self, body: &Body<'tcx>, p: &Place<'tcx>, out: &mut String) {
        let tcx = self.tcx;
        let _ = write!(out, "[{}", p.local.as_usize());
        let mut pty = mir::PlaceTy::from_ty(body.local_decls[p.local].ty);
        for elem in p.projection.iter() {
            out.push(',');
            match elem {
                PlaceElem::Deref => out.push_str("\"*\""),
                PlaceElem::Field(f, _) => {
                    let mut s = String::from(".");
                    match pty.ty.kind() {
                        ty::Adt(adt, _) => {
                            let vi = pty.variant_index.unwrap_or(rustc_abi::FIRST_VARIANT);
                            let v = adt.variant(vi);
                            let _ = write!(s, "{}::{}", self.path(adt.did()), v.fields[f].name);
                        }
                        _ => {
                            let _ = write!(s, "{}", f.as_usize());
                        }
                    }
                    esc(&s, out);
                }
                PlaceElem::Index(l) => {
                    let _ = write!(out, "\"[_{}]\"", l.as_usize());
                }
                PlaceElem::ConstantIndex { offset, from_end, .. } => {
                    let _ = write!(out, "\"[c{}{}]\"", if from_end { "-" } else { "" }, offset);
                }
                PlaceElem::Subslice { from, to, from_end } => {
                    let _ = write!(out, "\"[s{}..{}{}]\"", from, if from_end { "-" } else { "" }, to);
                }
                PlaceElem::Downcast(name, vi) => {
                    let n = match name {
                        Some(n) => n.to_string(),
                        None => format!("{}", vi.as_usize()),
                    };
                    esc(&format!("@{}", n), out);
                }
                PlaceElem::OpaqueCast(_) => out.push_str("\"opaque\""),
                PlaceElem::UnwrapUnsafeBinder(_) => out.push_str("\"unbind\""),
            }
            pty = pty.projection_ty(tcx, elem);
        }
        out.push(']');
    }

    fn operand(&self, body: &Body<'tcx>, env: TypingEnv<'tcx>, o: &Operand<'tcx>, out: &mut String) {
        match o {
            Operand::Copy(p) => {
                out.push_str("[\"c\",");
                self.place(body, p, out);
                out.push(']');
            }
            Operand::Move(p) => {
                out.push_str("[\"m\",");
                self.place(body, p, out);
                out.push(']');
            }
            Operand::Constant(c) => {
                out.push_str("[\"k\",");
                let t = c.const_.ty();
                match t.kind() {
                    ty::FnDef(did, _) => {
                        esc(&format!("fn:{}", self.path(*did)), out);
                    }
                    _ => {
                        let v = match t.kind() {
                            ty::Bool | ty::Char | ty::Int(_) | ty::Uint(_) => {
                                c.const_.try_eval_scalar_int(self.tcx, env)
                            }
                            _ => None,
                        };
                        match v {
                            Some(si) => {
                                let bits = si.to_bits(si.size());
                                // signed types: emit the sign-extended value
                                let s = match t.kind() {
                                    ty::Int(_) => {
                                        let sz = si.size().bits();
                                        let sh = 128 - sz as u32;
                                        let sv = ((bits as i128) << sh) >> sh;
                                        format!("{}", sv)
                                    }
                                    _ => format!("{}", bits),
                                };
                                esc(&s, out);
                            }
                            None => out.push_str("null"),
                        }
                    }
                }
                out.push(',');
                esc(&self.ty_s(t), out);
                out.push(']');
            }
            #[allow(unreachable_patterns)]
            _ => out.push_str("[\"?\"]"),
        }
    }

    fn rvalue(&self, body: &Body<'tcx>, env: TypingEnv<'tcx>, rv: &Rvalue<'tcx>, out: &mut String) {
        let tcx = self.tcx;
        match rv {
            Rvalue::Use(o, ..) => {
                out.push_str("[\"use\",");
                self.operand(body, env, o, out);
                out.push(']');
            }
            Rvalue::Repeat(o, n) => {
                out.push_str("[\"rep\",");
                self.operand(body, env, o, out);
                out.push(',');
                esc(&with_no_trimmed_paths!(format!("{}", n)), out);
                out.push(']');
            }
            Rvalue::Ref(_, bk, p) => {
                let k = match bk {
                    mir::BorrowKind::Shared => "ref",
                    mir::BorrowKind::Fake(_) => "fakeref",
                    mir::BorrowKind::Mut { .. } => "refmut",
                };
                let _ = write!(out, "[\"{}\",", k);
                self.place(body, p, out);
                out.push(']');
            }
            Rvalue::RawPtr(k, p) => {
                let _ = write!(out, "[\"raw\",\"{:?}\",", k);
                self.place(body, p, out);
                out.push(']');
            }
            Rvalue::ThreadLocalRef(did) => {
                out.push_str("[\"tls\",");
                esc(&self.path(*did), out);
                out.push(']');
            }
            Rvalue::Cast(kind, o, t) => {
                let ks = match kind {
                    CastKind::IntToInt => "IntToInt".to_string(),
                    CastKind::Transmute => "Transmute".to_string(),
                    CastKind::PtrToPtr => "PtrToPtr".to_string(),
                    k => format!("{:?}", k),
                };
                out.push_str("[\"cast\",");
                esc(&ks, out);
                out.push(',');
                self.operand(body, env, o, out);
                out.push(',');
                esc(&self.ty_s(*t), out);
                out.push(']');
            }
            Rvalue::BinaryOp(op, ab) => {
                let (a, b) = &**ab;
                let _ = write!(out, "[\"bin\",\"{:?}\",", op);
                self.operand(body, env, a, out);
                out.push(',');
                self.operand(body, env, b, out);
                out.push(']');
            }
            Rvalue::UnaryOp(op, a) => {
                let _ = write!(out, "[\"un\",\"{:?}\",", op);
                self.operand(body, env, a, out);
                out.push(']');
            }
            Rvalue::Discriminant(p) => {
                out.push_str("[\"disc\",");
                self.place(body, p, out);
                out.push(',');
                esc(&self.ty_s(p.ty(body, tcx).ty), out);
                out.push(']');
            }
            Rvalue::Aggregate(kind, ops) => {
                out.push_str("[\"agg\",");
                let mut names: Vec<String> = Vec::new();
                match &**kind {
                    AggregateKind::Array(_) => out.push_str("\"array\""),
                    AggregateKind::Tuple => out.push_str("\"tuple\""),
                    AggregateKind::Adt(did, vi, _, _, active) => {
                        let adt = tcx.adt_def(*did);
                        let v = adt.variant(*vi);
                        esc(&format!("adt:{}::{}", self.path(*did), v.name), out);
                        if let Some(a) = active {
                            names.push(v.fields[*a].name.to_string());
                        } else {
                            for f in v.fields.iter() {
                                names.push(f.name.to_string());
                            }
                        }
                    }
                    AggregateKind::Closure(did, _) => esc(&format!("closure:{}", self.path(*did)), out),
                    AggregateKind::Coroutine(did, _) => esc(&format!("coroutine:{}", self.path(*did)), out),
                    AggregateKind::CoroutineClosure(did, _) => {
                        esc(&format!("coroutine_closure:{}", self.path(*did)), out)
                    }
                    AggregateKind::RawPtr(_, _) => out.push_str("\"rawptr\""),
                }
                out.push_str(",[");
                for (i, o) in ops.iter().enumerate() {
                    if i > 0 {
                        out.push(',');
                    }
                    self.operand(body, env, o, out);
                }
                out.push_str("],[");
                for (i, n) in names.iter().enumerate() {
                    if i > 0 {
                        out.push(',');
                    }
                    esc(n, out);
                }
                out.push_str("]]");
            }
            Rvalue::CopyForDeref(p) => {
                out.push_str("[\"use\",[\"c\",");
                self.place(body, p, out);
                out.push_str("]]");
            }
            other => {
                out.push_str("[\"other\",");
                esc(&with_no_trimmed_paths!(format!("{:?}", other)), out);
                out.push(']');
            }
        }
    }

    fn dump_body(&self, did: DefId, body: &Body<'tcx>, stolen_fallback: bool, out: &mut String, cg: &mut String) {
        let tcx = self.tcx;
        let env = TypingEnv::post_analysis(tcx, did);
        let id = self.path(did);
        let (file, line) = self.line(body.span);
        let kind = tcx.def_kind(did);
        let is_fn = matches!(kind, DefKind::Fn | DefKind::AssocFn);
        let vis = if is_fn && tcx.visibility(did).is_public() { "pub" } else { "priv" };
        let unsafe_fn = is_fn && tcx.fn_sig(did).skip_binder().safety().is_unsafe();
        let root = tcx.typeck_root_def_id(did);
        let tf: Vec<String> = if matches!(kind, DefKind::Fn | DefKind::AssocFn | DefKind::Closure) {
            tcx.codegen_fn_attrs(did)
                .target_features
                .iter()
                .map(|f| f.name.to_string())
                .collect()
        } else {
            Vec::new()
        };
        // container: impl self type / trait
        let mut self_ty = String::new();
        let mut trait_s = String::new();
        let mut cont = "";
        if let Some(parent) = tcx.opt_parent(root) {
            match tcx.def_kind(parent) {
                DefKind::Impl { of_trait } => {
                    self_ty = self.ty_s(tcx.type_of(parent).instantiate_identity().skip_norm_wip());
                    cont = "impl";
                    if of_trait {
                        let tr = tcx.impl_trait_ref(parent).instantiate_identity().skip_norm_wip();
                        trait_s = self.path(tr.def_id);
                    }
                }
                DefKind::Trait => {
                    cont = "trait";
                    trait_s = self.path(parent);
                }
                _ => {}
            }
        }

        // header: F \t file \t id \t json
        out.push_str("F\t");
        out.push_str(&file);
        out.push('\t');
        out.push_str(&id);
        out.push('\t');
        out.push_str("{\"id\":");
        esc(&id, out);
        out.push_str(",\"file\":");
        esc(&file, out);
        let _ = write!(out, ",\"line\":{}", line);
        let _ = write!(out, ",\"kind\":\"{:?}\"", kind);
        let _ = write!(out, ",\"vis\":\"{}\",\"unsafe\":{},\"fallback\":{}", vis, unsafe_fn, stolen_fallback);
        out.push_str(",\"root\":");
        esc(&self.path(root), out);
        out.push_str(",\"cont\":");
        esc(cont, out);
        out.push_str(",\"self_ty\":");
        esc(&self_ty, out);
        out.push_str(",\"trait\":");
        esc(&trait_s, out);
        out.push_str(",\"tf\":[");
        for (i, f) in tf.iter().enumerate() {
            if i > 0 {
                out.push(',');
            }
            esc(f, out);
        }
        let _ = write!(out, "],\"nargs\":{},\"coroutine\":{}", body.arg_count, body.coroutine.is_some());
        out.push_str(",\"locals\":[");
        for (i, d) in body.local_decls.iter().enumerate() {
            if i > 0 {
                out.push(',');
            }
            esc(&self.ty_s(d.ty), out);
        }
        out.push_str("],\"names\":{");
        let mut first = true;
        for vdi in body.var_debug_info.iter() {
            if let VarDebugInfoContents::Place(p) = &vdi.value {
                if let Some(l) = p.as_local() {
                    if !first {
                        out.push(',');
                    }
                    first = false;
                    let _ = write!(out, "\"{}\":", l.as_usize());
                    esc(&vdi.name.to_string(), out);
                }
            }
        }
        out.push_str("},\"bbs\":[");

        let mut callees: Vec<(String, bool, bool, usize)> = Vec::new();
        for (bi, bb) in body.basic_blocks.iter_enumerated() {
            if bi.as_usize() > 0 {
                out.push(',');
            }
            let _ = write!(out, "{{\"c\":{},\"s\":[", bb.is_cleanup);
            let mut firsts = true;
            for st in bb.statements.iter() {
                let mut s = String::new();
                match &st.kind {
                    StatementKind::Assign(b) => {
                        let (p, rv) = &**b;
                        s.push_str("[\"a\",");
                        self.place(body, p, &mut s);
                        s.push(',');
                        self.rvalue(body, env, rv, &mut s);
                        let _ = write!(s, ",{}]", self.lineno(st.source_info.span));
                    }
                    StatementKind::StorageDead(l) => {
                        let _ = write!(s, "[\"sd\",{}]", l.as_usize());
                    }
                    StatementKind::SetDiscriminant { place, variant_index } => {
                        s.push_str("[\"setdisc\",");
                        self.place(body, place, &mut s);
                        let _ = write!(s, ",{}]", variant_index.as_usize());
                    }
                    StatementKind::Intrinsic(i) => {
                        s.push_str("[\"intr\",");
                        esc(&with_no_trimmed_paths!(format!("{:?}", i)), &mut s);
                        s.push(']');
                    }
                    _ => {}
                }
                if !s.is_empty() {
                    if !firsts {
                        out.push(',');
                    }
                    firsts = false;
                    out.push_str(&s);
                }
            }
            out.push_str("],\"t\":");
            let term = bb.terminator();
            let tl = self.lineno(term.source_info.span);
            let bbn = |b: &BasicBlock| b.as_usize();
            match &term.kind {
                TerminatorKind::Goto { target } => {
                    let _ = write!(out, "[\"goto\",{}]", bbn(target));
                }
                TerminatorKind::SwitchInt { discr, targets } => {
                    out.push_str("[\"sw\",");
                    self.operand(body, env, discr, out);
                    out.push_str(",[");
                    for (i, (v, t)) in targets.iter().enumerate() {
                        if i > 0 {
                            out.push(',');
                        }
                        let _ = write!(out, "[\"{}\",{}]", v, bbn(&t));
                    }
                    let _ = write!(out, "],{},{}]", bbn(&targets.otherwise()), tl);
                }
                TerminatorKind::Return => out.push_str("[\"ret\"]"),
                TerminatorKind::Unreachable => out.push_str("[\"unr\"]"),
                TerminatorKind::UnwindResume => out.push_str("[\"resume\"]"),
                TerminatorKind::UnwindTerminate(_) => out.push_str("[\"abort\"]"),
                TerminatorKind::Drop { place, target, unwind, .. } => {
                    out.push_str("[\"drop\",");
                    self.place(body, place, out);
                    let u = match unwind {
                        mir::UnwindAction::Cleanup(b) => format!("{}", bbn(b)),
                        _ => "null".to_string(),
                    };
                    let _ = write!(out, ",{},{},{}]", bbn(target), u, tl);
                }
                TerminatorKind::Call { func, args, destination, target, unwind, fn_span, .. } => {
                    let fty = func.ty(body, tcx);
                    let mut callee = String::new();
                    let mut resolved = false;
                    let mut local = false;
                    let mut gargs = String::new();
                    let mut callee_self = String::new();
                    match fty.kind() {
                        ty::FnDef(cdid, cargs) => {
                            let mut rdid = *cdid;
                            let mut rargs = *cargs;
                            match Instance::try_resolve(tcx, env, *cdid, cargs) {
                                Ok(Some(inst)) => {
                                    resolved = true;
                                    rdid = inst.def_id();
                                    rargs = inst.args;
                                }
                                _ => {
                                    // not a trait item => trivially resolved
                                    if tcx.trait_of_assoc(*cdid).is_none() {
                                        resolved = true;
                                    }
                                }
                            }
                            callee = self.path(rdid);
                            local = rdid.is_local();
                            gargs = with_no_trimmed_paths!(format!("{:?}", rargs));
                            // self type of the original (pre-resolution) generic args for trait calls
                            if tcx.trait_of_assoc(*cdid).is_some() && cargs.len() > 0 {
                                if let Some(t0) = cargs[0].as_type() {
                                    callee_self = self.ty_s(t0);
                                }
                            }
                            if rdid != *cdid {
                                // keep the trait item path too
                                callee_self.push('|');
                                callee_self.push_str(&self.path(*cdid));
                            }
                        }
                        _ => {
                            callee = format!("<indirect:{}>", self.ty_s(fty));
                        }
                    }
                    let expn = fn_span.from_expansion() || term.source_info.span.from_expansion();
                    callees.push((callee.clone(), resolved, local, tl));
                    out.push_str("[\"call\",{\"f\":");
                    esc(&callee, out);
                    let _ = write!(out, ",\"r\":{},\"loc\":{},\"x\":{},\"ln\":{}", resolved, local, expn, tl);
                    out.push_str(",\"ga\":");
                    esc(&gargs, out);
                    out.push_str(",\"st\":");
                    esc(&callee_self, out);
                    if !matches!(fty.kind(), ty::FnDef(..)) {
                        out.push_str(",\"fop\":");
                        self.operand(body, env, func, out);
                    }
                    out.push_str(",\"a\":[");
                    for (i, a) in args.iter().enumerate() {
                        if i > 0 {
                            out.push(',');
                        }
                        self.operand(body, env, &a.node, out);
                    }
                    out.push_str("],\"d\":");
                    self.place(body, destination, out);
                    match target {
                        Some(t) => {
                            let _ = write!(out, ",\"t\":{}", bbn(t));
                        }
                        None => out.push_str(",\"t\":null"),
                    }
                    match unwind {
                        mir::UnwindAction::Cleanup(b) => {
                            let _ = write!(out, ",\"u\":{}", bbn(b));
                        }
                        _ => out.push_str(",\"u\":null"),
                    }
                    out.push_str("}]");
                }
                TerminatorKind::TailCall { .. } => out.push_str("[\"tailcall\"]"),
                TerminatorKind::Assert { cond, expected, msg, target, .. } => {
                    out.push_str("[\"assert\",");
                    self.operand(body, env, cond, out);
                    let _ = write!(out, ",{},", expected);
                    let (k, ops): (String, Vec<&Operand<'tcx>>) = match &**msg {
                        mir::AssertKind::BoundsCheck { len, index } => ("BoundsCheck".into(), vec![len, index]),
                        mir::AssertKind::Overflow(op, a, b) => (format!("Overflow:{:?}", op), vec![a, b]),
                        mir::AssertKind::OverflowNeg(a) => ("OverflowNeg".into(), vec![a]),
                        mir::AssertKind::DivisionByZero(a) => ("DivisionByZero".into(), vec![a]),
                        mir::AssertKind::RemainderByZero(a) => ("RemainderByZero".into(), vec![a]),
                        other => (format!("{:?}", std::mem::discriminant(other)), vec![]),
                    };
                    esc(&k, out);
                    out.push_str(",[");
                    for (i, o) in ops.iter().enumerate() {
                        if i > 0 {
                            out.push(',');
                        }
                        self.operand(body, env, o, out);
                    }
                    let _ = write!(out, "],{},{}]", bbn(target), tl);
                }
                TerminatorKind::Yield { value, resume, drop, .. } => {
                    out.push_str("[\"yield\",");
                    self.operand(body, env, value, out);
                    let d = match drop {
                        Some(b) => format!("{}", bbn(b)),
                        None => "null".into(),
                    };
                    let _ = write!(out, ",{},{}]", bbn(resume), d);
                }
                TerminatorKind::CoroutineDrop => out.push_str("[\"cordrop\"]"),
                TerminatorKind::FalseEdge { real_target, imaginary_target } => {
                    let _ = write!(out, "[\"fe\",{},{}]", bbn(real_target), bbn(imaginary_target));
                }
                TerminatorKind::FalseUnwind { real_target, .. } => {
                    let _ = write!(out, "[\"goto\",{}]", bbn(real_target));
                }
                TerminatorKind::InlineAsm { targets, .. } => {
                    out.push_str("[\"asm\",[");
                    for (i, t) in targets.iter().enumerate() {
                        if i > 0 {
                            out.push(',');
                        }
                        let _ = write!(out, "{}", bbn(t));
                    }
                    out.push_str("]]");
                }
            }
            out.push('}');
        }
        out.push_str("]}\n");

        // call-graph line
        cg.push_str("G\t");
        cg.push_str(&file);
        cg.push('\t');
        cg.push_str(&id);
        cg.push('\t');
        cg.push_str("{\"id\":");
        esc(&id, cg);
        cg.push_str(",\"file\":");
        esc(&file, cg);
        let _ = write!(cg, ",\"line\":{},\"vis\":\"{}\",\"unsafe\":{}", line, vis, unsafe_fn);
        cg.push_str(",\"root\":");
        esc(&self.path(root), cg);
        cg.push_str(",\"self_ty\":");
        esc(&self_ty, cg);
        cg.push_str(",\"trait\":");
        esc(&trait_s, cg);
        cg.push_str(",\"cont\":");
        esc(cont, cg);
        cg.push_str(",\"tf\":[");
        for (i, f) in tf.iter().enumerate() {
            if i > 0 {
                cg.push(',');
            }
            esc(f, cg);
        }
        cg.push_str("],\"calls\":[");
        for (i, (c, r, l, ln)) in callees.iter().enumerate() {
            if i > 0 {
                cg.push(',');
            }
            cg.push('[');
            esc(c, cg);
            let _ = write!(cg, ",{},{},{}]", r, l, ln);
        }
        cg.push_str("]}\n");
    }

    fn dump_adts(&self, out: &mut String) {
        let tcx = self.tcx;
        for ldid in tcx.hir_crate_items(()).definitions() {
            let did = ldid.to_def_id();
            match tcx.def_kind(did) {
                DefKind::Struct | DefKind::Enum | DefKind::Union => {
                    let adt = tcx.adt_def(did);
                    out.push_str("A\t");
                    let (file, line) = self.line(tcx.def_span(did));
                    out.push_str(&file);
                    out.push('\t');
                    let id = self.path(did);
                    out.push_str(&id);
                    out.push('\t');
                    out.push_str("{\"id\":");
                    esc(&id, out);
                    out.push_str(",\"file\":");
                    esc(&file, out);
                    let _ = write!(out, ",\"line\":{},\"kind\":\"{:?}\"", line, tcx.def_kind(did));
                    let g = tcx.generics_of(did);
                    let nlt = g.own_params.iter().filter(|p| matches!(p.kind, ty::GenericParamDefKind::Lifetime)).count();
                    let _ = write!(out, ",\"lifetimes\":{}", nlt);
                    let _ = write!(out, ",\"vis\":\"{}\"", if tcx.visibility(did).is_public() { "pub" } else { "priv" });
                    match adt.destructor(tcx) {
                        Some(d) => {
                            out.push_str(",\"drop\":");
                            esc(&self.path(d.did), out);
                        }
                        None => out.push_str(",\"drop\":null"),
                    }
                    out.push_str(",\"variants\":[");
                    let discrs: Vec<(rustc_abi::VariantIdx, ty::util::Discr<'tcx>)> =
                        if adt.is_enum() { adt.discriminants(tcx).collect() } else { Vec::new() };
                    for (vi, v) in adt.variants().iter_enumerated() {
                        if vi.as_usize() > 0 {
                            out.push(',');
                        }
                        out.push_str("{\"name\":");
                        esc(&v.name.to_string(), out);
                        let dv = discrs.iter().find(|(i, _)| *i == vi).map(|(_, d)| d.val);
                        match dv {
                            Some(d) => {
                                let _ = write!(out, ",\"discr\":\"{}\"", d);
                            }
                            None => out.push_str(",\"discr\":null"),
                        }
                        out.push_str(",\"fields\":[");
                        for (fi, f) in v.fields.iter().enumerate() {
                            if fi > 0 {
                                out.push(',');
                            }
                            out.push('[');
                            esc(&f.name.to_string(), out);
                            out.push(',');
                            esc(&self.ty_s(tcx.type_of(f.did).instantiate_identity().skip_norm_wip()), out);
                            let _ = write!(out, ",\"{}\"]", if f.vis.is_public() { "pub" } else { "priv" });
                        }
                        out.push_str("]}");
                    }
                    out.push_str("]}\n");
                }
                DefKind::Impl { of_trait } => {
                    out.push_str("I\t");
                    let (file, line) = self.line(tcx.def_span(did));
                    out.push_str(&file);
                    out.push('\t');
                    let selfty = self.ty_s(tcx.type_of(did).instantiate_identity().skip_norm_wip());
                    out.push_str(&selfty);
                    out.push('\t');
                    out.push_str("{\"self_ty\":");
                    esc(&selfty, out);
                    out.push_str(",\"file\":");
                    esc(&file, out);
                    let _ = write!(out, ",\"line\":{}", line);
                    if of_trait {
                        let tr = tcx.impl_trait_ref(did).instantiate_identity().skip_norm_wip();
                        out.push_str(",\"trait\":");
                        esc(&self.path(tr.def_id), out);
                        out.push_str(",\"trait_full\":");
                        esc(&with_no_trimmed_paths!(format!("{}", tr)), out);
                        let hdr = tcx.impl_trait_header(did);
                        let _ = write!(out, ",\"unsafe\":{}", hdr.safety.is_unsafe());
                        let _ = write!(out, ",\"negative\":{}", matches!(hdr.polarity, ty::ImplPolarity::Negative));
                    } else {
                        out.push_str(",\"trait\":null");
                    }
                    out.push_str(",\"items\":[");
                    let mut first = true;
                    for it in tcx.associated_items(did).in_definition_order() {
                        if matches!(it.kind, ty::AssocKind::Fn { .. }) {
                            if !first {
                                out.push(',');
                            }
                            first = false;
                            esc(&self.path(it.def_id), out);
                        }
                    }
                    out.push_str("]}\n");
                }
                DefKind::Static { .. } => {
                    out.push_str("S\t");
                    let (file, line) = self.line(tcx.def_span(did));
                    out.push_str(&file);
                    out.push('\t');
                    let id = self.path(did);
                    out.push_str(&id);
                    out.push('\t');
                    out.push_str("{\"id\":");
                    esc(&id, out);
                    let _ = write!(out, ",\"line\":{},\"ty\":", line);
                    esc(&self.ty_s(tcx.type_of(did).instantiate_identity().skip_norm_wip()), out);
                    let _ = write!(out, ",\"thread_local\":{}", tcx.is_thread_local_static(did));
                    out.push_str("}\n");
                }
                _ => {}
            }
        }
    }
}

struct Cb {
    crates: Vec<String>,
    outdir: String,
}

// Bodies are cloned at the moment `mir_promoted` is computed (before const-eval or the
// coroutine transform can steal them); after_analysis dumps the clones.
static DEFAULT_MIR_PROMOTED: std::sync::OnceLock<usize> = std::sync::OnceLock::new();
static CLONES: std::sync::Mutex<Vec<(u32, usize)>> = std::sync::Mutex::new(Vec::new());

type MirPromotedFn = for<'tcx> fn(
    TyCtxt<'tcx>,
    rustc_hir::def_id::LocalDefId,
) -> (
    &'tcx rustc_data_structures::steal::Steal<Body<'tcx>>,
    &'tcx rustc_data_structures::steal::Steal<rustc_index::IndexVec<mir::Promoted, Body<'tcx>>>,
);

fn my_mir_promoted<'tcx>(
    tcx: TyCtxt<'tcx>,
    def: rustc_hir::def_id::LocalDefId,
) -> (
    &'tcx rustc_data_structures::steal::Steal<Body<'tcx>>,
    &'tcx rustc_data_structures::steal::Steal<rustc_index::IndexVec<mir::Promoted, Body<'tcx>>>,
) {
    let f: MirPromotedFn = unsafe { std::mem::transmute(*DEFAULT_MIR_PROMOTED.get().unwrap()) };
    let r = f(tcx, def);
    {
        let b = r.0.borrow();
        let cl: Box<Body<'tcx>> = Box::new((*b).clone());
        let ptr = Box::into_raw(cl) as usize;
        CLONES.lock().unwrap().push((def.local_def_index.as_u32(), ptr));
    }
    r
}

impl rustc_driver::Callbacks for Cb {
    fn config(&mut self, config: &mut rustc_interface::interface::Config) {
        config.override_queries = Some(|_sess, providers| {
            let _ = DEFAULT_MIR_PROMOTED.set(providers.queries.mir_promoted as usize);
            providers.queries.mir_promoted = my_mir_promoted;
        });
    }
    fn after_analysis<'tcx>(&mut self, _c: &rustc_interface::interface::Compiler, tcx: TyCtxt<'tcx>) -> Compilation {
        let cname = tcx.crate_name(LOCAL_CRATE).to_string();
        if !self.crates.iter().any(|c| *c == cname) {
            return Compilation::Continue;
        }
        let cx = Ctx { tcx };
        let mut out = String::with_capacity(64 << 20);
        let mut cg = String::with_capacity(8 << 20);
        let mut n = 0usize;
        let mut stolen = 0usize;
        for ldid in tcx.mir_keys(()).iter() {
            let did = ldid.to_def_id();
            let kind = tcx.def_kind(did);
            if !matches!(
                kind,
                DefKind::Fn | DefKind::AssocFn | DefKind::Closure | DefKind::SyntheticCoroutineBody
            ) {
                continue;
            }
            let (steal, _) = tcx.mir_promoted(*ldid);
            let idx = ldid.local_def_index.as_u32();
            let cl = CLONES.lock().unwrap().iter().find(|(i, _)| *i == idx).map(|(_, p)| *p);
            if let Some(p) = cl {
                let body: &Body<'tcx> = unsafe { &*(p as *const Body<'tcx>) };
                cx.dump_body(did, body, false, &mut out, &mut cg);
                n += 1;
                continue;
            }
            if steal.is_stolen() {
                stolen += 1;
                if tcx.is_mir_available(did) && !matches!(kind, DefKind::SyntheticCoroutineBody) {
                    let body = tcx.optimized_mir(did);
                    cx.dump_body(did, body, true, &mut out, &mut cg);
                    n += 1;
                }
                continue;
            }
            let body = steal.borrow();
            cx.dump_body(did, &body, false, &mut out, &mut cg);
            n += 1;
        }
        cx.dump_adts(&mut out);
        let cfgs: Vec<String> = std::env::var("ZFACTS_TAG").ok().into_iter().collect();
        let mut meta = String::new();
        let _ = write!(
            meta,
            "M\t\t\t{{\"crate\":\"{}\",\"bodies\":{},\"stolen\":{},\"tag\":\"{}\",\"rustc\":\"{}\"}}\n",
            cname,
            n,
            stolen,
            cfgs.join(","),
            tcx.sess.cfg_version
        );
        let path = format!("{}/{}.facts", self.outdir, cname);
        let tmp = format!("{}.tmp.{}", path, std::process::id());
        let mut all = String::with_capacity(meta.len() + out.len() + cg.len());
        all.push_str(&meta);
        all.push_str(&out);
        all.push_str(&cg);
        std::fs::write(&tmp, all.as_bytes()).expect("zfacts: cannot write facts");
        std::fs::rename(&tmp, &path).expect("zfacts: cannot rename facts");
        Compilation::Continue
    }
}

fn main() {
    let mut args: Vec<String> = std::env::args().collect();
    // RUSTC_WORKSPACE_WRAPPER passes the real rustc path as argv[1]
    if args.len() > 1 && (args[1].ends_with("rustc") || args[1].contains("/rustc")) {
        args.remove(1);
    }
    let crates: Vec<String> = std::env::var("ZFACTS_CRATES")
        .unwrap_or_else(|_| "zipora".to_string())
        .split(',')
        .map(|s| s.to_string())
        .collect();
    let outdir = std::env::var("ZFACTS_OUT").unwrap_or_else(|_| ".".to_string());
    let mut cb = Cb { crates, outdir };
    rustc_driver::run_compiler(&args, &mut cb);
}
