//! Rule fixtures: for every rule one violating (`bad_*`) and one conforming (`ok_*`) function.
//! The checker runs its rules on this crate on every run; a rule that is silent on its bad
//! fixture or fires on its ok fixture makes the check fail closed (BROKEN-MACHINERY).
#![allow(dead_code, unused_variables, clippy::all)]
use std::collections::VecDeque;
use std::sync::atomic::{AtomicPtr, AtomicU64, Ordering};
use std::sync::Mutex;

pub mod error {
    #[derive(Debug)]
    pub struct ZiporaError(pub &'static str);
}
use error::ZiporaError;
type Result<T> = std::result::Result<T, ZiporaError>;

// ---------------------------------------------------------------- R-TF
pub mod tf {
    #[cfg(target_arch = "x86_64")]
    #[target_feature(enable = "avx2")]
    pub unsafe fn kernel(x: &[u8]) -> usize {
        x.len()
    }
    #[cfg(target_arch = "x86_64")]
    pub fn ok_dispatch(x: &[u8]) -> usize {
        if is_x86_feature_detected!("avx2") {
            unsafe { kernel(x) }
        } else {
            x.len()
        }
    }
    #[cfg(target_arch = "x86_64")]
    pub fn bad_dispatch(x: &[u8]) -> usize {
        if is_x86_feature_detected!("sse2") {
            unsafe { kernel(x) }
        } else {
            x.len()
        }
    }
}

// ---------------------------------------------------------------- R-ERRDEAD
pub mod errdead {
    use super::*;
    pub fn step(x: u32) -> Result<u32> {
        if x == 3 { Err(ZiporaError("three")) } else { Ok(x) }
    }
    pub fn bad_swallow(xs: &[u32]) -> Result<Vec<u32>> {
        let mut out = Vec::new();
        for &x in xs {
            match step(x) {
                Ok(v) => out.push(v),
                Err(_) => break,
            }
        }
        Ok(out)
    }
    pub fn ok_propagate(xs: &[u32]) -> Result<Vec<u32>> {
        let mut out = Vec::new();
        for &x in xs {
            match step(x) {
                Ok(v) => out.push(v),
                Err(e) => return Err(e),
            }
        }
        Ok(out)
    }
    pub fn bad_discard(x: u32) {
        let _ = step(x);
    }
}

// ---------------------------------------------------------------- R-ATOM / R-ABA / R-LOCKCOV
pub mod sync {
    use super::*;
    pub struct Gate {
        pub writers: AtomicU64,
        pub version: AtomicU64,
        pub live: AtomicU64,
        pub lock: Mutex<()>,
    }
    impl Gate {
        pub fn bad_acquire(&self) -> bool {
            let w = self.writers.load(Ordering::Acquire);
            if w > 0 {
                return false;
            }
            self.writers.fetch_add(1, Ordering::AcqRel);
            true
        }
        pub fn ok_acquire(&self) -> bool {
            self.writers.compare_exchange(0, 1, Ordering::AcqRel, Ordering::Acquire).is_ok()
        }
        pub fn bad_count(&self) -> u64 {
            let v = {
                let _g = self.lock.lock().unwrap();
                self.version.fetch_add(1, Ordering::AcqRel)
            };
            self.live.fetch_add(1, Ordering::Relaxed);
            v
        }
        pub fn ok_count(&self) -> u64 {
            let _g = self.lock.lock().unwrap();
            let v = self.version.fetch_add(1, Ordering::AcqRel);
            self.live.fetch_add(1, Ordering::Relaxed);
            v
        }
    }
    pub struct Node {
        pub next: *mut Node,
        pub v: u64,
    }
    pub struct Stack {
        pub head: AtomicPtr<Node>,
    }
    impl Stack {
        pub fn bad_pop(&self) -> Option<u64> {
            loop {
                let head = self.head.load(Ordering::Acquire);
                if head.is_null() {
                    return None;
                }
                let next = unsafe { (*head).next };
                if self.head.compare_exchange_weak(head, next, Ordering::Release, Ordering::Relaxed).is_ok() {
                    return Some(unsafe { (*head).v });
                }
            }
        }
    }
    pub struct Tagged {
        pub head: AtomicU64,
        pub mem: *mut u32,
    }
    impl Tagged {
        pub fn ok_pop(&self) -> Option<u32> {
            loop {
                let cur = self.head.load(Ordering::Acquire);
                let off = (cur & 0xFFFF_FFFF) as u32;
                let gener = (cur >> 32) as u32;
                if off == u32::MAX {
                    return None;
                }
                let next = unsafe { *self.mem.add(off as usize) };
                let new = ((gener.wrapping_add(1) as u64) << 32) | next as u64;
                if self.head.compare_exchange_weak(cur, new, Ordering::Release, Ordering::Relaxed).is_ok() {
                    return Some(off);
                }
            }
        }
        fn advance(current: u64, offset: u32) -> u64 {
            ((((current >> 32) as u32).wrapping_add(1) as u64) << 32) | offset as u64
        }
        fn same_generation(current: u64, offset: u32) -> u64 {
            (current & 0xFFFF_FFFF_0000_0000) | offset as u64
        }
        pub fn ok_pop_helper(&self) -> Option<u32> {
            loop {
                let cur = self.head.load(Ordering::Acquire);
                let off = cur as u32;
                if off == u32::MAX {
                    return None;
                }
                let next = unsafe { *self.mem.add(off as usize) };
                if self.head.compare_exchange_weak(cur, Self::advance(cur, next), Ordering::Release, Ordering::Relaxed).is_ok() {
                    return Some(off);
                }
            }
        }
        pub fn bad_pop_helper(&self) -> Option<u32> {
            loop {
                let cur = self.head.load(Ordering::Acquire);
                let off = cur as u32;
                if off == u32::MAX {
                    return None;
                }
                let next = unsafe { *self.mem.add(off as usize) };
                if self.head.compare_exchange_weak(cur, Self::same_generation(cur, next), Ordering::Release, Ordering::Relaxed).is_ok() {
                    return Some(off);
                }
            }
        }
    }
}

// ---------------------------------------------------------------- R-ALLOC / R-GUARD
pub mod taint {
    use super::*;
    pub fn bad_decode_alloc(data: &[u8]) -> Result<Vec<u64>> {
        if data.len() < 4 {
            return Err(ZiporaError("short"));
        }
        let count = u32::from_le_bytes([data[0], data[1], data[2], data[3]]) as usize;
        let mut v = Vec::with_capacity(count);
        for i in 0..count {
            v.push(i as u64);
        }
        Ok(v)
    }
    pub fn ok_decode_alloc(data: &[u8]) -> Result<Vec<u64>> {
        if data.len() < 4 {
            return Err(ZiporaError("short"));
        }
        let count = u32::from_le_bytes([data[0], data[1], data[2], data[3]]) as usize;
        if count > data.len() {
            return Err(ZiporaError("count"));
        }
        let mut v = Vec::with_capacity(count);
        for i in 0..count {
            v.push(i as u64);
        }
        Ok(v)
    }
    pub fn bad_decode_slice(data: &[u8]) -> Result<&[u8]> {
        if data.len() < 2 {
            return Err(ZiporaError("short"));
        }
        let n = u16::from_le_bytes([data[0], data[1]]) as usize;
        Ok(&data[2..2 + n])
    }
    pub fn ok_decode_slice(data: &[u8]) -> Result<&[u8]> {
        if data.len() < 2 {
            return Err(ZiporaError("short"));
        }
        let n = u16::from_le_bytes([data[0], data[1]]) as usize;
        if 2 + n > data.len() {
            return Err(ZiporaError("trunc"));
        }
        Ok(&data[2..2 + n])
    }
}

// ---------------------------------------------------------------- R-ORDER
pub mod order {
    use std::fs::File;
    use std::io::Write;
    pub fn ok_put(f: &mut File, data: &[u8]) -> std::io::Result<()> {
        f.write_all(data)?;
        f.sync_all()?;
        Ok(())
    }
    pub fn bad_put(f: &mut File, data: &[u8]) -> std::io::Result<()> {
        f.write_all(data)?;
        if data.len() > 4096 {
            f.sync_all()?;
        }
        Ok(())
    }
}

// ---------------------------------------------------------------- R-PAIR
pub mod pair {
    #[derive(Clone, Copy)]
    pub enum Kind {
        Short = 0,
        Long = 1,
    }
    pub fn write(kind: Kind, dist: u32, len: u8, out: &mut Vec<u8>) {
        match kind {
            Kind::Short => {
                out.extend_from_slice(&(dist as u16).to_le_bytes());
                out.push(len);
            }
            Kind::Long => {
                out.extend_from_slice(&dist.to_le_bytes());
                out.push(len);
            }
        }
    }
    pub fn ok_read(kind: Kind, input: &[u8]) -> (u32, u8) {
        match kind {
            Kind::Short => (u16::from_le_bytes([input[0], input[1]]) as u32, input[2]),
            Kind::Long => (u32::from_le_bytes([input[0], input[1], input[2], input[3]]), input[4]),
        }
    }
    pub fn bad_read(kind: Kind, input: &[u8]) -> (u32, u8) {
        match kind {
            Kind::Short => (input[0] as u32, input[1]),
            Kind::Long => (u32::from_le_bytes([input[0], input[1], input[2], input[3]]), input[4]),
        }
    }
}

// ---------------------------------------------------------------- R-PAIR.marker
pub mod marker {
    pub trait DataOutput {
        fn write_u8(&mut self, v: u8) -> Result<(), String>;
        fn write_u32(&mut self, v: u32) -> Result<(), String>;
    }
    pub trait DataInput {
        fn read_u8(&mut self) -> Result<u8, String>;
        fn read_u32(&mut self) -> Result<u32, String>;
    }
    pub fn write_field<O: DataOutput>(present: bool, v: u32, out: &mut O) -> Result<(), String> {
        if present {
            out.write_u8(1)?;
            out.write_u32(v)
        } else {
            out.write_u8(0)?;
            Ok(())
        }
    }
    pub fn ok_read_field<I: DataInput>(wanted: bool, input: &mut I) -> Result<Option<u32>, String> {
        match input.read_u8()? {
            0 => Ok(None),
            1 => {
                if wanted {
                    Ok(Some(input.read_u32()?))
                } else {
                    let _ = input.read_u32()?;
                    Ok(None)
                }
            }
            _ => Err("marker".to_string()),
        }
    }
    pub fn bad_read_field<I: DataInput>(wanted: bool, input: &mut I) -> Result<Option<u32>, String> {
        match input.read_u8()? {
            0 => Ok(None),
            1 if wanted => Ok(Some(input.read_u32()?)),
            1 => Ok(None),
            _ => Err("marker".to_string()),
        }
    }
}

// ---------------------------------------------------------------- R-PROBE
pub mod probe {
    pub struct Slot {
        pub mark: u64,
        pub key: u32,
        pub val: u32,
    }
    pub struct Table {
        pub slots: Vec<Slot>,
    }
    impl Table {
        pub fn remove(&mut self, key: u32, h: u64) -> bool {
            let n = self.slots.len();
            for i in 0..n {
                let s = &mut self.slots[(h as usize + i) % n];
                if s.mark == 0 {
                    return false;
                }
                if s.mark == h && s.key == key {
                    s.mark = u64::MAX;
                    return true;
                }
            }
            false
        }
        pub fn bad_insert(&mut self, key: u32, val: u32, h: u64) -> bool {
            let n = self.slots.len();
            for i in 0..n {
                let s = &mut self.slots[(h as usize + i) % n];
                if s.mark == 0 || s.mark == u64::MAX {
                    s.mark = h;
                    s.key = key;
                    s.val = val;
                    return true;
                } else if s.mark == h && s.key == key {
                    s.val = val;
                    return true;
                }
            }
            false
        }
        pub fn ok_insert(&mut self, key: u32, val: u32, h: u64) -> bool {
            let n = self.slots.len();
            let mut tomb: Option<usize> = None;
            for i in 0..n {
                let at = (h as usize + i) % n;
                let s = &mut self.slots[at];
                if s.mark == 0 {
                    let s = &mut self.slots[tomb.unwrap_or(at)];
                    s.mark = h;
                    s.key = key;
                    s.val = val;
                    return true;
                } else if s.mark == u64::MAX {
                    if tomb.is_none() {
                        tomb = Some(at);
                    }
                } else if s.mark == h && s.key == key {
                    s.val = val;
                    return true;
                }
            }
            if let Some(at) = tomb {
                let s = &mut self.slots[at];
                s.mark = h;
                s.key = key;
                s.val = val;
                return true;
            }
            false
        }
    }
}

// ---------------------------------------------------------------- R-SIBLING.index
pub mod sib {
    pub struct T {
        pub marks: Vec<u64>,
        pub mask: usize,
    }
    impl T {
        pub fn ok_get(&self, hash: u64) -> u64 {
            self.marks[(hash as usize) & self.mask]
        }
        pub fn ok_put(&mut self, hash: u64) {
            let i = (hash as usize) & self.mask;
            self.marks[i] = hash;
        }
        pub fn bad_get(&self, hash: u64) -> u64 {
            self.marks[(hash as usize) & self.mask]
        }
        pub fn bad_del(&mut self, hash: u64) {
            let i = (hash as usize) & self.mask;
            self.marks[i] = 0;
        }
        pub fn bad_put(&mut self, hash: u64) {
            let n = self.marks.len();
            self.marks[(hash as usize) % n] = hash;
        }
    }
}

// ---------------------------------------------------------------- R-ARITH.mul
pub mod arith {
    use super::*;
    fn file_size(cap: usize) -> usize {
        80 + cap * 8
    }
    pub fn bad_open(data: &[u8], file_len: usize) -> Result<usize> {
        if data.len() < 8 {
            return Err(ZiporaError("short"));
        }
        let cap = u64::from_le_bytes([data[0], data[1], data[2], data[3], data[4], data[5], data[6], data[7]]) as usize;
        let required = file_size(cap);
        if required > file_len {
            return Err(ZiporaError("cut short"));
        }
        Ok(cap)
    }
    pub fn ok_open(data: &[u8], file_len: usize) -> Result<usize> {
        if data.len() < 8 {
            return Err(ZiporaError("short"));
        }
        let cap = u64::from_le_bytes([data[0], data[1], data[2], data[3], data[4], data[5], data[6], data[7]]) as usize;
        let required = cap.checked_mul(8).and_then(|b| b.checked_add(80)).ok_or(ZiporaError("overflow"))?;
        if required > file_len {
            return Err(ZiporaError("cut short"));
        }
        Ok(cap)
    }
}

// ---------------------------------------------------------------- R-DIV
pub mod div {
    use super::*;
    pub fn bad_decode(data: &[u8], out: &mut Vec<u8>) -> Result<()> {
        if data.len() < 4 {
            return Err(ZiporaError("short"));
        }
        let dist = u32::from_le_bytes([data[0], data[1], data[2], data[3]]) as usize;
        let Some(start) = out.len().checked_sub(dist) else {
            return Err(ZiporaError("distance"));
        };
        for i in 0..4usize {
            let b = out[start + i % dist];
            out.push(b);
        }
        Ok(())
    }
    pub fn ok_decode(data: &[u8], out: &mut Vec<u8>) -> Result<()> {
        if data.len() < 4 {
            return Err(ZiporaError("short"));
        }
        let dist = u32::from_le_bytes([data[0], data[1], data[2], data[3]]) as usize;
        if dist == 0 || out.len() < dist {
            return Err(ZiporaError("distance"));
        }
        let start = out.len() - dist;
        for i in 0..4usize {
            let b = out[start + i % dist];
            out.push(b);
        }
        Ok(())
    }
}

// ---------------------------------------------------------------- R-PRUNE
pub mod prune {
    pub struct Node {
        pub children: [Option<usize>; 4],
        pub is_final: bool,
    }
    pub fn ok_remove(nodes: &mut Vec<Node>, path: &[(usize, u8)]) {
        for &(parent, sym) in path.iter().rev() {
            nodes[parent].children[sym as usize] = None;
            let has_children = nodes[parent].children.iter().any(|c| c.is_some());
            if has_children || nodes[parent].is_final {
                break;
            }
        }
    }
    pub fn bad_remove(nodes: &mut Vec<Node>, path: &[(usize, u8)]) {
        for &(parent, sym) in path.iter().rev() {
            nodes[parent].children[sym as usize] = None;
            if nodes[parent].children.iter().any(|c| c.is_some()) {
                break;
            }
        }
    }
}

// ---------------------------------------------------------------- R-PARALLEL
pub mod par {
    pub struct Tab {
        pub entries: Vec<(u32, bool)>,
        pub cache: Vec<u64>,
    }
    impl Tab {
        pub fn ok_compact(&mut self) {
            let mut w = 0;
            for r in 0..self.entries.len() {
                if self.entries[r].1 {
                    self.entries[w] = self.entries[r];
                    self.cache[w] = self.cache[r];
                    w += 1;
                }
            }
            self.entries.truncate(w);
            self.cache.truncate(w);
        }
        pub fn bad_compact(&mut self) {
            self.entries.retain(|e| e.1);
            let n = self.entries.len();
            self.cache.truncate(n);
        }
    }
}

// ---------------------------------------------------------------- R-SIGNED
#[cfg(target_arch = "x86_64")]
pub mod simdsign {
    use std::arch::x86_64::*;
    #[target_feature(enable = "sse2")]
    pub unsafe fn bad_memcmp16(a: *const u8, b: *const u8) -> i32 {
        let va = _mm_loadu_si128(a as *const __m128i);
        let vb = _mm_loadu_si128(b as *const __m128i);
        let ne = !_mm_movemask_epi8(_mm_cmpeq_epi8(va, vb)) & 0xFFFF;
        if ne == 0 {
            return 0;
        }
        let lt = _mm_movemask_epi8(_mm_cmplt_epi8(va, vb));
        if lt & (ne & -ne) != 0 { -1 } else { 1 }
    }
    #[target_feature(enable = "sse4.2")]
    pub unsafe fn bad_find_nul(set: *const u8, hay: *const u8) -> i32 {
        let s = _mm_loadu_si128(set as *const __m128i);
        let h = _mm_loadu_si128(hay as *const __m128i);
        _mm_cmpistri::<0>(s, h)
    }
    #[target_feature(enable = "sse4.2")]
    pub unsafe fn ok_find_len(set: *const u8, n: i32, hay: *const u8, m: i32) -> i32 {
        let s = _mm_loadu_si128(set as *const __m128i);
        let h = _mm_loadu_si128(hay as *const __m128i);
        _mm_cmpestri::<0>(s, n, h, m)
    }
    #[target_feature(enable = "sse2")]
    pub unsafe fn ok_memcmp16(a: *const u8, b: *const u8) -> i32 {
        let bias = _mm_set1_epi8(-128);
        let va = _mm_xor_si128(_mm_loadu_si128(a as *const __m128i), bias);
        let vb = _mm_xor_si128(_mm_loadu_si128(b as *const __m128i), bias);
        let ne = !_mm_movemask_epi8(_mm_cmpeq_epi8(va, vb)) & 0xFFFF;
        if ne == 0 {
            return 0;
        }
        let lt = _mm_movemask_epi8(_mm_cmplt_epi8(va, vb));
        if lt & (ne & -ne) != 0 { -1 } else { 1 }
    }
}

// ---------------------------------------------------------------- R-SHRINK / R-REMAINDER
pub mod shrink {
    pub struct Bits {
        pub blocks: Vec<u64>,
        pub len: usize,
    }
    pub struct BadBits {
        pub blocks: Vec<u64>,
        pub len: usize,
    }
    impl Bits {
        pub fn pop(&mut self) -> Option<bool> {
            if self.len == 0 {
                return None;
            }
            self.len -= 1;
            let (b, i) = (self.len / 64, self.len % 64);
            let v = (self.blocks[b] >> i) & 1 == 1;
            self.blocks[b] &= !(1u64 << i);
            Some(v)
        }
    }
    impl BadBits {
        pub fn pop(&mut self) -> Option<bool> {
            if self.len == 0 {
                return None;
            }
            self.len -= 1;
            let (b, i) = (self.len / 64, self.len % 64);
            Some((self.blocks[b] >> i) & 1 == 1)
        }
    }
    pub fn ok_max(values: &[u64], n: usize) -> u64 {
        let it = values.chunks_exact(n);
        let rem = it.remainder();
        let mut m = 0;
        for c in it {
            for &v in c {
                m = m.max(v);
            }
        }
        for &v in rem {
            m = m.max(v);
        }
        m
    }
    pub fn bad_max(values: &[u64], n: usize) -> u64 {
        let mut m = 0;
        for c in values.chunks_exact(n) {
            for &v in c {
                m = m.max(v);
            }
        }
        m
    }
}

// ---------------------------------------------------------------- R-WRAP
pub mod wrap {
    pub struct Ring {
        pub buf: Vec<u32>,
        pub head: usize,
        pub tail: usize,
        pub mask: usize,
        pub len: usize,
    }
    impl Ring {
        pub fn ok_bulk(&mut self, items: &[u32]) {
            for &x in items {
                self.buf[self.tail] = x;
                self.tail = (self.tail + 1) & self.mask;
                self.len += 1;
            }
        }
    }
    pub struct BadRing {
        pub buf: Vec<u32>,
        pub head: usize,
        pub tail: usize,
        pub mask: usize,
        pub len: usize,
    }
    impl BadRing {
        pub fn bad_bulk(&mut self, items: &[u32]) {
            for (i, &x) in items.iter().enumerate() {
                self.buf[self.tail + i] = x;
                self.len += 1;
            }
            self.tail += items.len();
        }
    }
}

// ---------------------------------------------------------------- R-EMPTYRANGE
pub mod emptyrange {
    pub struct V {
        pub items: Vec<Option<String>>,
        pub len: usize,
    }
    impl V {
        pub fn ok_shrink(&mut self, new_len: usize) {
            let old_len = self.len;
            self.len = new_len;
            for i in new_len..old_len {
                self.items[i] = None;
            }
        }
        pub fn bad_shrink(&mut self, new_len: usize) {
            self.len = new_len;
            for i in new_len..self.len {
                self.items[i] = None;
            }
        }
    }
}

// ---------------------------------------------------------------- R-TAGKIND / R-SIBLING.fallback
pub mod tagk {
    pub fn squeeze(data: &[u8]) -> Vec<u8> {
        data.to_ascii_uppercase()
    }
    pub struct OkC {
        pub raw_mode: bool,
    }
    impl OkC {
        fn tagged(tag: u8, payload: &[u8]) -> Vec<u8> {
            let mut out = Vec::with_capacity(payload.len() + 1);
            out.push(tag);
            out.extend_from_slice(payload);
            out
        }
        pub fn compress(&self, data: &[u8], late: bool) -> Vec<u8> {
            if late {
                return Self::tagged(0, data);
            }
            let c = squeeze(data);
            Self::tagged(1, &c)
        }
    }
}
pub mod tagk_bad {
    pub struct BadC {
        pub raw_mode: bool,
    }
    impl BadC {
        fn tagged(tag: u8, payload: &[u8]) -> Vec<u8> {
            let mut out = Vec::with_capacity(payload.len() + 1);
            out.push(tag);
            out.extend_from_slice(payload);
            out
        }
        fn frame(&self, payload: &[u8]) -> Vec<u8> {
            let tag = if self.raw_mode { 0 } else { 1 };
            Self::tagged(tag, payload)
        }
        pub fn compress(&self, data: &[u8], late: bool) -> Vec<u8> {
            if late {
                return self.frame(data);
            }
            let c = super::tagk::squeeze(data);
            self.frame(&c)
        }
    }
}
pub mod fallback {
    pub struct E;
    pub struct D;
    pub struct BadD;
    impl E {
        fn encode_single(&self, d: &[u8]) -> Vec<u8> {
            d.to_vec()
        }
        pub fn encode_parallel(&self, d: &[u8], n: usize) -> Vec<u8> {
            if d.len() < n {
                return self.encode_single(d);
            }
            d.iter().rev().cloned().collect()
        }
    }
    impl D {
        fn decode_single(&self, d: &[u8]) -> Vec<u8> {
            d.to_vec()
        }
        pub fn decode_parallel(&self, d: &[u8], n: usize) -> Vec<u8> {
            if d.len() < n {
                return self.decode_single(d);
            }
            d.iter().rev().cloned().collect()
        }
    }
}
pub mod fallback_bad {
    pub struct E;
    pub struct D;
    impl E {
        fn encode_single(&self, d: &[u8]) -> Vec<u8> {
            d.to_vec()
        }
        pub fn encode_parallel(&self, d: &[u8], n: usize) -> Vec<u8> {
            if d.len() < n {
                return self.encode_single(d);
            }
            d.iter().rev().cloned().collect()
        }
    }
    impl D {
        fn decode_single(&self, d: &[u8]) -> Vec<u8> {
            d.to_vec()
        }
        pub fn decode_parallel(&self, d: &[u8], n: usize) -> Vec<u8> {
            if d.len() <= n {
                return self.decode_single(d);
            }
            d.iter().rev().cloned().collect()
        }
    }
}

// ---------------------------------------------------------------- R-COMMIT
pub mod commit {
    use super::*;
    use std::sync::atomic::{AtomicU32, Ordering};
    pub struct Arena {
        pub next: AtomicU32,
        pub limit: usize,
    }
    impl Arena {
        pub fn bad_reserve(&self, size: usize) -> Result<u32> {
            let off = self.next.fetch_add(size as u32, Ordering::Relaxed);
            if (off as usize).checked_add(size).map_or(true, |end| end > self.limit) {
                return Err(ZiporaError("full"));
            }
            Ok(off)
        }
        pub fn ok_reserve(&self, size: usize) -> Result<u32> {
            self.next
                .fetch_update(Ordering::Relaxed, Ordering::Relaxed, |cur| {
                    (cur as usize).checked_add(size).filter(|&e| e <= self.limit).map(|e| e as u32)
                })
                .map_err(|_| ZiporaError("full"))
        }
        pub fn ok_undo(&self, size: usize) -> Result<u32> {
            let off = self.next.fetch_add(size as u32, Ordering::Relaxed);
            if off as usize + size > self.limit {
                self.next.fetch_sub(size as u32, Ordering::Relaxed);
                return Err(ZiporaError("full"));
            }
            Ok(off)
        }
    }
}

// ---------------------------------------------------------------- R-ABA.relink
pub mod relink {
    use std::sync::atomic::{AtomicU64, Ordering};
    pub struct List {
        pub head: AtomicU64,
        pub mem: *mut u32,
    }
    impl List {
        pub fn ok_push(&self, off: u32) {
            loop {
                let cur = self.head.load(Ordering::Acquire);
                unsafe { *self.mem.add(off as usize) = cur as u32 };
                let new = ((cur >> 32).wrapping_add(1) << 32) | off as u64;
                if self.head.compare_exchange_weak(cur, new, Ordering::Release, Ordering::Relaxed).is_ok() {
                    return;
                }
            }
        }
        pub fn bad_push(&self, off: u32) {
            let mut cur = self.head.load(Ordering::Acquire);
            unsafe { *self.mem.add(off as usize) = cur as u32 };
            loop {
                let new = ((cur >> 32).wrapping_add(1) << 32) | off as u64;
                match self.head.compare_exchange_weak(cur, new, Ordering::Release, Ordering::Acquire) {
                    Ok(_) => return,
                    Err(seen) => cur = seen,
                }
            }
        }
    }
}

// ---------------------------------------------------------------- R-TOUCH / R-LOCKCOV.lru
pub mod lrufx {
    use std::collections::HashMap;
    use std::sync::RwLock;
    pub struct Node {
        pub value: u64,
        pub stamp: u64,
    }
    pub struct LruList {
        pub order: RwLock<Vec<u32>>,
    }
    impl LruList {
        pub fn move_to_head(&self, nodes: &mut [Node], idx: u32) {
            nodes[idx as usize].stamp += 1;
            let mut o = self.order.write().unwrap();
            o.retain(|&x| x != idx);
            o.insert(0, idx);
        }
    }
    pub struct Map {
        pub hash_map: RwLock<HashMap<u32, u32>>,
        pub nodes: RwLock<Vec<Node>>,
        pub list: LruList,
    }
    impl Map {
        pub fn ok_get(&self, key: u32) -> Option<u64> {
            let index = self.hash_map.read().ok()?;
            let idx = *index.get(&key)?;
            let mut nodes = self.nodes.write().ok()?;
            self.list.move_to_head(&mut nodes, idx);
            Some(nodes[idx as usize].value)
        }
        pub fn bad_get_notouch(&self, key: u32) -> Option<u64> {
            let index = self.hash_map.read().ok()?;
            let idx = *index.get(&key)?;
            let mut nodes = self.nodes.write().ok()?;
            nodes[idx as usize].stamp += 1;
            Some(nodes[idx as usize].value)
        }
        fn evict_lru(&self, index: &mut HashMap<u32, u32>) {
            let victim = self.list.order.write().unwrap().pop();
            if let Some(v) = victim {
                index.retain(|_, i| *i != v);
            }
        }
        pub fn ok_put(&self, key: u32, value: u64) -> Option<u64> {
            let mut index = self.hash_map.write().ok()?;
            if let Some(&idx) = index.get(&key) {
                let mut nodes = self.nodes.write().ok()?;
                let old = std::mem::replace(&mut nodes[idx as usize].value, value);
                self.list.move_to_head(&mut nodes, idx);
                return Some(old);
            }
            if index.len() >= 2 {
                self.evict_lru(&mut index);
            }
            let mut nodes = self.nodes.write().ok()?;
            nodes.push(Node { value, stamp: 0 });
            index.insert(key, (nodes.len() - 1) as u32);
            None
        }
        pub fn bad_put(&self, key: u32, value: u64) -> Option<u64> {
            let mut index = self.hash_map.write().ok()?;
            if index.len() >= 2 {
                self.evict_lru(&mut index);
            }
            if let Some(&idx) = index.get(&key) {
                let mut nodes = self.nodes.write().ok()?;
                let old = std::mem::replace(&mut nodes[idx as usize].value, value);
                self.list.move_to_head(&mut nodes, idx);
                return Some(old);
            }
            let mut nodes = self.nodes.write().ok()?;
            nodes.push(Node { value, stamp: 0 });
            index.insert(key, (nodes.len() - 1) as u32);
            None
        }
        pub fn bad_get_unlocked(&self, key: u32) -> Option<u64> {
            let idx = {
                let index = self.hash_map.read().ok()?;
                *index.get(&key)?
            };
            let mut nodes = self.nodes.write().ok()?;
            self.list.move_to_head(&mut nodes, idx);
            Some(nodes[idx as usize].value)
        }
    }
}

// ---------------------------------------------------------------- R-VIEW / R-GUARD.cursor
pub mod viewfx {
    use super::*;
    use std::collections::HashMap;
    pub struct Region {
        pub ptr: usize,
        pub size: usize,
        pub actual_size: usize,
    }
    pub struct A {
        pub cache: HashMap<usize, Vec<(usize, usize)>>,
    }
    impl A {
        pub fn ok_alloc(&mut self, size: usize) -> Region {
            let actual_size = (size + 4095) & !4095;
            if let Some(v) = self.cache.get_mut(&actual_size) {
                if let Some((ptr, _)) = v.pop() {
                    return Region { ptr, size, actual_size };
                }
            }
            Region { ptr: 0, size, actual_size }
        }
    }
    pub struct B {
        pub cache: HashMap<usize, Vec<(usize, usize)>>,
    }
    impl B {
        pub fn bad_alloc(&mut self, size: usize) -> Region {
            let actual_size = (size + 4095) & !4095;
            if let Some(v) = self.cache.get_mut(&actual_size.next_power_of_two()) {
                if let Some((ptr, region_size)) = v.pop() {
                    return Region { ptr, size, actual_size: region_size };
                }
            }
            Region { ptr: 0, size, actual_size }
        }
    }
    pub struct Chunk {
        pub top: usize,
        pub capacity: usize,
        pub used: usize,
    }
    impl Chunk {
        pub fn ok_carve(&mut self, size: usize) -> Result<usize> {
            if self.top + size > self.capacity {
                return Err(ZiporaError("full"));
            }
            let off = self.top;
            self.top += size;
            self.used += size;
            Ok(off)
        }
        pub fn bad_carve(&mut self, size: usize) -> Result<usize> {
            if self.used + size > self.capacity {
                return Err(ZiporaError("full"));
            }
            let off = self.top;
            self.top += size;
            self.used += size;
            Ok(off)
        }
    }
}

// ---------------------------------------------------------------- R-LOCKSPLIT / R-CLEAR
pub mod locksplit {
    use std::sync::Mutex;
    pub struct Lazy {
        pub init: Mutex<bool>,
        pub cell: std::cell::UnsafeCell<u64>,
    }
    impl Lazy {
        pub fn ok_ensure(&self) {
            let mut done = self.init.lock().unwrap();
            if !*done {
                unsafe { *self.cell.get() = 7 };
                *done = true;
            }
        }
        pub fn bad_ensure(&self) {
            let done = *self.init.lock().unwrap();
            if !done {
                unsafe { *self.cell.get() = 7 };
                *self.init.lock().unwrap() = true;
            }
        }
    }
    pub struct Slots {
        pub entries: Vec<u32>,
        pub free: Vec<usize>,
        pub free_count: usize,
    }
    pub struct BadSlots {
        pub entries: Vec<u32>,
        pub free: Vec<usize>,
        pub free_count: usize,
    }
    impl Slots {
        pub fn clear(&mut self) {
            self.entries.clear();
            self.free.clear();
            self.free_count = 0;
        }
    }
    impl BadSlots {
        pub fn clear(&mut self) {
            self.entries.clear();
            self.free_count = 0;
        }
    }
}

// ---------------------------------------------------------------- R-TAILMASK
pub mod tailmask {
    pub fn ok_count(words: &[u64], len: usize) -> u32 {
        if len == 0 {
            return 0;
        }
        let last = (len - 1) / 64;
        let mut n = 0;
        for w in &words[..last] {
            n += w.count_ones();
        }
        let rem = len % 64;
        let tail = if rem == 0 { words[last] } else { words[last] & ((1u64 << rem) - 1) };
        n + tail.count_ones()
    }
    pub fn bad_count(words: &[u64], len: usize) -> u32 {
        if len == 0 {
            return 0;
        }
        let last = (len - 1) / 64;
        let mut n = 0;
        for w in &words[..last] {
            n += w.count_ones();
        }
        let rem = len % 64;
        let tail = words[last] & ((1u64 << rem) - 1);
        n + tail.count_ones()
    }
    pub fn ok_rank(words: &[u64], pos: usize) -> u32 {
        let mut n = 0;
        for w in &words[..pos / 64] {
            n += w.count_ones();
        }
        let rem = pos % 64;
        if rem > 0 {
            n += (words[pos / 64] & ((1u64 << rem) - 1)).count_ones();
        }
        n
    }
}

// ---------------------------------------------------------------- R-SIBLING.batch
pub mod batchfx {
    use std::collections::HashMap;
    pub struct OkStore {
        pub storage: HashMap<u32, Vec<u8>>,
        pub cache: HashMap<u32, Vec<u8>>,
    }
    pub struct BadStore {
        pub storage: HashMap<u32, Vec<u8>>,
        pub cache: HashMap<u32, Vec<u8>>,
    }
    impl OkStore {
        pub fn remove(&mut self, id: u32) -> bool {
            self.cache.remove(&id);
            self.storage.remove(&id).is_some()
        }
        pub fn remove_batch(&mut self, ids: &[u32]) -> usize {
            let mut n = 0;
            for &id in ids {
                self.cache.remove(&id);
                if self.storage.remove(&id).is_some() {
                    n += 1;
                }
            }
            n
        }
    }
    impl BadStore {
        pub fn remove(&mut self, id: u32) -> bool {
            self.cache.remove(&id);
            self.storage.remove(&id).is_some()
        }
        pub fn remove_batch(&mut self, ids: &[u32]) -> usize {
            let mut n = 0;
            for &id in ids {
                if self.storage.remove(&id).is_some() {
                    n += 1;
                }
            }
            n
        }
    }
}

// ---------------------------------------------------------------- R-INFLIGHT / R-LOCKORDER
pub mod inflight {
    use std::sync::atomic::{AtomicUsize, Ordering};
    use std::sync::Mutex;
    pub struct W {
        pub active: AtomicUsize,
        pub a: Mutex<Vec<u32>>,
        pub b: Mutex<Vec<u32>>,
    }
    impl W {
        pub fn ok_loop(&self, jobs: &[u32]) -> u32 {
            let mut done = 0;
            for &j in jobs {
                self.active.fetch_add(1, Ordering::Relaxed);
                let failed = j % 7 == 0;
                self.active.fetch_sub(1, Ordering::Relaxed);
                if failed {
                    continue;
                }
                done += 1;
            }
            done
        }
        pub fn bad_loop(&self, jobs: &[u32]) -> u32 {
            let mut done = 0;
            for &j in jobs {
                self.active.fetch_add(1, Ordering::Relaxed);
                if j % 7 == 0 {
                    continue;
                }
                done += 1;
                self.active.fetch_sub(1, Ordering::Relaxed);
            }
            done
        }
    }
}
pub mod lockorder_ok {
    use std::sync::Mutex;
    pub struct Q {
        pub a: Mutex<Vec<u32>>,
        pub b: Mutex<Vec<u32>>,
    }
    impl Q {
        pub fn balance(&self) {
            let mut a = self.a.lock().unwrap();
            let mut b = self.b.lock().unwrap();
            if let Some(x) = a.pop() {
                b.push(x);
            }
        }
        pub fn steal(&self) -> Option<u32> {
            if let Some(x) = self.b.lock().unwrap().pop() {
                return Some(x);
            }
            self.a.lock().unwrap().pop()
        }
    }
}
pub mod lockorder_bad {
    use std::sync::Mutex;
    pub struct Q {
        pub a: Mutex<Vec<u32>>,
        pub b: Mutex<Vec<u32>>,
    }
    impl Q {
        pub fn balance(&self) {
            let mut a = self.a.lock().unwrap();
            let mut b = self.b.lock().unwrap();
            if let Some(x) = a.pop() {
                b.push(x);
            }
        }
        pub fn steal(&self) -> Option<u32> {
            let mut b = self.b.lock().unwrap();
            if let Some(x) = b.pop() {
                return Some(x);
            }
            self.a.lock().unwrap().pop()
        }
    }
}

// ---------------------------------------------------------------- R-ORDER.drop
pub mod dropwrite {
    pub struct OkFile {
        pub path: String,
        pub data: Vec<u8>,
    }
    pub struct BadFile {
        pub path: String,
        pub data: Vec<u8>,
    }
    impl Drop for OkFile {
        fn drop(&mut self) {
            self.data.clear();
        }
    }
    impl BadFile {
        fn persist(&self) {
            let _ = std::fs::write(&self.path, &self.data);
        }
    }
    impl Drop for BadFile {
        fn drop(&mut self) {
            self.persist();
        }
    }
}

// ---------------------------------------------------------------- R-GUARD.region
pub mod region {
    use super::*;
    pub struct Pool {
        pub base: *mut u8,
        pub memory_size: usize,
    }
    impl Pool {
        pub fn ok_ptr_to_offset(&self, ptr: *mut u8) -> Result<u32> {
            let base = self.base as usize;
            let addr = ptr as usize;
            if addr < base || addr >= base + self.memory_size {
                return Err(ZiporaError("outside"));
            }
            Ok((addr - base) as u32)
        }
        pub fn bad_ptr_to_offset(&self, ptr: *mut u8) -> Result<u32> {
            let base = self.base as usize;
            let addr = ptr as usize;
            addr.checked_sub(base).and_then(|o| u32::try_from(o).ok()).ok_or(ZiporaError("outside"))
        }
    }
}

// ---------------------------------------------------------------- R-DELEGATE
pub mod delegate {
    use std::collections::HashMap;
    pub trait BlobStore {
        fn get(&self, id: u32) -> Option<Vec<u8>>;
        fn contains(&self, id: u32) -> bool;
        fn size(&self, id: u32) -> Option<usize>;
    }
    pub struct Mem {
        pub data: HashMap<u32, Vec<u8>>,
    }
    impl BlobStore for Mem {
        fn get(&self, id: u32) -> Option<Vec<u8>> {
            self.data.get(&id).cloned()
        }
        fn contains(&self, id: u32) -> bool {
            self.data.contains_key(&id)
        }
        fn size(&self, id: u32) -> Option<usize> {
            self.data.get(&id).map(|v| v.len())
        }
    }
    pub struct OkWrap {
        pub inner: Mem,
        pub meta: HashMap<u32, usize>,
    }
    impl BlobStore for OkWrap {
        fn get(&self, id: u32) -> Option<Vec<u8>> {
            self.inner.get(id)
        }
        fn contains(&self, id: u32) -> bool {
            self.inner.contains(id)
        }
        fn size(&self, id: u32) -> Option<usize> {
            self.inner.size(id)
        }
    }
    pub struct BadWrap {
        pub inner: Mem,
        pub meta: HashMap<u32, usize>,
    }
    impl BlobStore for BadWrap {
        fn get(&self, id: u32) -> Option<Vec<u8>> {
            self.inner.get(id)
        }
        fn contains(&self, id: u32) -> bool {
            self.meta.contains_key(&id)
        }
        fn size(&self, id: u32) -> Option<usize> {
            self.meta.get(&id).copied()
        }
    }
}

// ---------------------------------------------------------------- R-FLOW.serde
pub mod serdefx {
    pub trait SeqAccess {
        fn next_element(&mut self) -> Option<u64>;
    }
    pub struct OkStoreBlobStore {
        pub count: u64,
        pub next_id: u64,
    }
    pub struct BadStoreBlobStore {
        pub count: u64,
        pub next_id: u64,
    }
    pub fn ok_visit_seq<A: SeqAccess>(mut seq: A) -> Option<OkStoreBlobStore> {
        let count = seq.next_element()?;
        let next_id = seq.next_element()?;
        Some(OkStoreBlobStore { count, next_id })
    }
    fn initial_next_id() -> u64 {
        1
    }
    pub fn bad_visit_seq<A: SeqAccess>(mut seq: A) -> Option<BadStoreBlobStore> {
        let count = seq.next_element()?;
        let next_id = initial_next_id();
        Some(BadStoreBlobStore { count, next_id })
    }
}

// ---------------------------------------------------------------- R-RANGE.dep
pub mod rangedep {
    pub fn ok_range(current: usize, size: usize, align: usize, cap: usize) -> Option<(usize, usize)> {
        let start = current.checked_add(align - 1)? & !(align - 1);
        let end = start.checked_add(size)?;
        (end <= cap).then_some((start, end))
    }
    pub fn bad_range(current: usize, size: usize, align: usize, cap: usize) -> Option<(usize, usize)> {
        let pad = current.wrapping_neg() & (align - 1);
        let start = current.checked_add(pad)?;
        let end = current.checked_add(size)?;
        (start <= cap && end <= cap).then_some((start, end))
    }
}

// ---------------------------------------------------------------- R-VARIANT
pub mod variant {
    pub enum Storage {
        A { keys: Vec<Vec<u8>> },
        B { keys: Vec<Vec<u8>> },
    }
    pub struct Set {
        pub storage: Storage,
    }
    fn insert_a(keys: &mut Vec<Vec<u8>>, key: &[u8]) -> bool {
        keys.push(key.to_vec());
        true
    }
    fn insert_b(keys: &mut Vec<Vec<u8>>, key: &[u8]) -> bool {
        false
    }
    fn insert_b_impl(keys: &mut Vec<Vec<u8>>, key: &[u8]) -> bool {
        keys.insert(0, key.to_vec());
        true
    }
    impl Set {
        pub fn bad_insert(&mut self, key: &[u8]) -> bool {
            match &mut self.storage {
                Storage::A { keys } => insert_a(keys, key),
                Storage::B { keys } => insert_b(keys, key),
            }
        }
        pub fn ok_insert(&mut self, key: &[u8]) -> bool {
            match &mut self.storage {
                Storage::A { keys } => insert_a(keys, key),
                Storage::B { keys } => insert_b_impl(keys, key),
            }
        }
        pub fn bad_remove(&mut self, key: &[u8]) -> bool {
            match &mut self.storage {
                Storage::A { keys } => {
                    let n = keys.len();
                    keys.retain(|k| k != key);
                    keys.len() != n
                }
                _ => false,
            }
        }
    }
}

// ---------------------------------------------------------------- R-LINEAR
pub mod linear {
    pub struct Chunk {
        pub ptr: *mut u8,
    }
    pub struct Cache {
        pub items: Vec<Chunk>,
        pub max: usize,
    }
    impl Cache {
        pub fn try_push(&mut self, c: Chunk) -> Result<(), Chunk> {
            if self.items.len() < self.max {
                self.items.push(c);
                Ok(())
            } else {
                Err(c)
            }
        }
    }
    pub fn bad_free(cache: &mut Cache, global: &mut Vec<Chunk>, c: Chunk) {
        if cache.try_push(c).is_err() {
            if let Some(x) = cache.items.pop() {
                global.push(x);
            }
        }
    }
    pub fn ok_free(cache: &mut Cache, global: &mut Vec<Chunk>, c: Chunk) {
        if let Err(c) = cache.try_push(c) {
            global.push(c);
        }
    }
}

// ---------------------------------------------------------------- R-LINEAR (follow) / R-SINK / R-SEQ
pub mod tasks {
    use std::collections::VecDeque;
    pub trait Job {
        fn movable(&self) -> bool;
    }
    pub struct Q {
        pub local: VecDeque<Box<dyn Job>>,
        pub shared: VecDeque<Box<dyn Job>>,
        pub cap: usize,
    }
    impl Q {
        pub fn push(&mut self, j: Box<dyn Job>) -> Result<(), String> {
            if self.local.len() >= self.cap {
                return Err("full".to_string());
            }
            self.local.push_back(j);
            Ok(())
        }
        pub fn bad_balance(&mut self) {
            for _ in 0..2 {
                let Some(j) = self.local.pop_back() else {
                    break;
                };
                if !j.movable() {
                    break;
                }
                self.shared.push_back(j);
            }
        }
        pub fn ok_balance(&mut self) {
            for _ in 0..2 {
                if let Some(j) = self.local.pop_back() {
                    if j.movable() {
                        self.shared.push_back(j);
                    } else {
                        self.local.push_back(j);
                        break;
                    }
                }
            }
        }
        pub fn bad_refill(&mut self, more: Vec<Box<dyn Job>>) {
            for j in more {
                let _ = self.push(j);
            }
        }
        pub fn ok_refill(&mut self, more: Vec<Box<dyn Job>>) -> Result<(), String> {
            for j in more {
                self.push(j)?;
            }
            Ok(())
        }
    }
    pub struct Stream<T>(pub Vec<T>);
    impl<T> Stream<T> {
        pub fn buffer_unordered(self, _n: usize) -> Vec<T> {
            self.0
        }
        pub fn buffered(self, _n: usize) -> Vec<T> {
            self.0
        }
    }
    pub fn bad_map(xs: Vec<u32>) -> Result<Vec<u32>, String> {
        Ok(Stream(xs).buffer_unordered(4))
    }
    pub fn ok_map(xs: Vec<u32>) -> Result<Vec<u32>, String> {
        Ok(Stream(xs).buffered(4))
    }
}

// ---------------------------------------------------------------- R-TRUNC
pub mod trunc {
    pub fn ok_varint(data: &[u8]) -> Result<(u64, usize), String> {
        let mut r = 0u64;
        let mut shift = 0u32;
        let mut pos = 0usize;
        loop {
            if pos >= data.len() {
                return Err("truncated".to_string());
            }
            if shift >= 64 {
                return Err("overflow".to_string());
            }
            let byte = data[pos];
            pos += 1;
            r |= ((byte & 0x7f) as u64) << shift;
            if byte & 0x80 == 0 {
                return Ok((r, pos));
            }
            shift += 7;
        }
    }
    pub fn bad_varint(data: &[u8]) -> Result<(u64, usize), String> {
        let mut r = 0u64;
        let mut shift = 0u32;
        let mut used = 0usize;
        for &byte in data {
            used += 1;
            if shift >= 64 {
                return Err("overflow".to_string());
            }
            r |= ((byte & 0x7f) as u64) << shift;
            if byte & 0x80 == 0 {
                break;
            }
            shift += 7;
        }
        Ok((r, used))
    }
}

// ---------------------------------------------------------------- R-MISS
pub mod miss {
    use super::*;
    pub struct Tree {
        pub codes: Vec<Option<Vec<bool>>>,
    }
    impl Tree {
        pub fn get_code(&self, s: u8) -> Option<&Vec<bool>> {
            self.codes[s as usize].as_ref()
        }
    }
    pub fn bad_encode(t: &Tree, data: &[u8]) -> Result<Vec<bool>> {
        let mut bits = Vec::new();
        for &s in data {
            if let Some(c) = t.get_code(s) {
                bits.extend_from_slice(c);
            }
        }
        Ok(bits)
    }
    pub fn ok_encode(t: &Tree, data: &[u8]) -> Result<Vec<bool>> {
        let mut bits = Vec::new();
        for &s in data {
            match t.get_code(s) {
                Some(c) => bits.extend_from_slice(c),
                None => return Err(ZiporaError("symbol")),
            }
        }
        Ok(bits)
    }
}

// ---------------------------------------------------------------- R-QUEUE (shape only), R-GUARD.state
pub mod state {
    pub struct Ring {
        pub buf: *mut u64,
        pub len: usize,
        pub cap: usize,
        pub tail: usize,
    }
    impl Ring {
        pub fn ok_push(&mut self, v: u64) -> bool {
            if self.len >= self.cap {
                return false;
            }
            unsafe { self.buf.add(self.tail).write(v) };
            self.tail = (self.tail + 1) % self.cap;
            self.len += 1;
            true
        }
        pub fn bad_push(&mut self, v: u64) -> bool {
            unsafe { self.buf.add(self.tail).write(v) };
            self.tail = (self.tail + 1) % self.cap;
            self.len += 1;
            true
        }
    }
}

pub fn _use(q: VecDeque<u8>) -> usize {
    q.len()
}

// ---------------------------------------------------------------- R-SCRATCH
pub mod scratchfx {
    pub struct Enc {
        pub scratch: Vec<u8>,
        pub log: Vec<u8>,
    }
    impl Enc {
        fn produce(&mut self, input: &[u8], out: &mut Vec<u8>) {
            for &b in input {
                self.scratch.push(b ^ 1);
            }
            out.extend_from_slice(&self.scratch);
        }
        fn produce_clean(&mut self, input: &[u8], out: &mut Vec<u8>) {
            self.scratch.clear();
            for &b in input {
                self.scratch.push(b ^ 1);
            }
            out.extend_from_slice(&self.scratch);
        }
        pub fn ok_encode(&mut self, input: &[u8], out: &mut Vec<u8>) {
            self.produce_clean(input, out);
        }
        pub fn ok_blocks(&mut self, input: &[u8], out: &mut Vec<u8>) {
            for block in input.chunks(4) {
                self.scratch.clear();
                self.produce(block, out);
            }
        }
        pub fn bad_blocks(&mut self, input: &[u8], out: &mut Vec<u8>) {
            self.scratch.clear();
            for block in input.chunks(4) {
                self.produce(block, out);
            }
        }
        // flush idiom: handed on, then emptied
        pub fn ok_flush(&mut self, b: u8, out: &mut Vec<u8>) {
            self.log.push(b);
            if self.log.len() >= 16 {
                out.extend_from_slice(&self.log);
                self.log.clear();
            }
        }
    }
    pub struct Enc2 {
        pub scratch: Vec<u8>,
    }
    impl Enc2 {
        fn produce(&mut self, input: &[u8], out: &mut Vec<u8>) {
            for &b in input {
                self.scratch.push(b ^ 1);
            }
            out.extend_from_slice(&self.scratch);
        }
        pub fn bad_encode(&mut self, input: &[u8], out: &mut Vec<u8>) {
            self.produce(input, out);
        }
    }
}

// ---------------------------------------------------------------- R-NARROWCHECK
pub mod narrowfx {
    pub fn ok_store(values: &[u64], base: u64, width: u32, out: &mut Vec<u32>) -> Result<(), String> {
        for &v in values {
            let delta = v - base;
            if delta >= (1u64 << width) {
                return Err(format!("delta {} too large", delta));
            }
            out.push(delta as u32);
        }
        Ok(())
    }
    pub fn bad_store(values: &[u64], base: u64, width: u32, out: &mut Vec<u32>) -> Result<(), String> {
        let max = ((1u64 << width) - 1) as u32;
        for &v in values {
            let delta = (v - base) as u32;
            if delta > max {
                return Err(format!("delta {} too large", delta));
            }
            out.push(delta);
        }
        Ok(())
    }
    pub fn ok_masked(v: u64, out: &mut Vec<u8>) -> Result<(), String> {
        let low = (v & 0xff) as u8;
        if low > 200 {
            return Err("reserved".into());
        }
        out.push(low);
        Ok(())
    }
}

// ---------------------------------------------------------------- R-SIGNATURE
pub mod sigfx {
    pub struct St { pub flags: u8, pub next: Vec<(u8, u32)> }
    impl St {
        pub fn is_key(&self) -> bool { self.flags & 0x80 != 0 }
        pub fn is_mark(&self) -> bool { self.flags & 0x40 != 0 }
    }
    pub struct OkDawg { pub states: Vec<St> }
    impl OkDawg {
        fn compute_state_signature(&self, s: u32) -> Vec<u8> {
            let st = &self.states[s as usize];
            let mut v = vec![st.is_key() as u8];
            for (c, t) in &st.next { v.push(*c); v.extend_from_slice(&t.to_le_bytes()); }
            v
        }
        pub fn minimise(&self) -> usize { (0..self.states.len() as u32).map(|s| self.compute_state_signature(s).len()).sum() }
        pub fn accepts(&self, s: u32) -> bool { self.states[s as usize].is_key() }
    }
}
pub mod sigfx_bad {
    pub struct St { pub flags: u8, pub next: Vec<(u8, u32)> }
    impl St {
        pub fn is_key(&self) -> bool { self.flags & 0x80 != 0 }
        pub fn is_mark(&self) -> bool { self.flags & 0x40 != 0 }
    }
    pub struct BadDawg { pub states: Vec<St> }
    impl BadDawg {
        fn compute_state_signature(&self, s: u32) -> Vec<u8> {
            let st = &self.states[s as usize];
            let mut v = vec![st.is_mark() as u8];
            for (c, t) in &st.next { v.push(*c); v.extend_from_slice(&t.to_le_bytes()); }
            v
        }
        pub fn minimise(&self) -> usize { (0..self.states.len() as u32).map(|s| self.compute_state_signature(s).len()).sum() }
        pub fn accepts(&self, s: u32) -> bool { self.states[s as usize].is_key() }
    }
}

// ---------------------------------------------------------------- R-VARINT.threshold
pub mod varintfx {
    pub fn ok_write(out: &mut Vec<u8>, mut value: usize) {
        while value >= 0x80 {
            out.push((value & 0x7F) as u8 | 0x80);
            value >>= 7;
        }
        out.push(value as u8);
    }
    pub fn ok_write2(out: &mut Vec<u8>, mut value: u64) {
        loop {
            let mut byte = (value & 0x7F) as u8;
            value >>= 7;
            if value != 0 {
                byte |= 0x80;
            }
            out.push(byte);
            if value == 0 {
                break;
            }
        }
    }
    pub fn bad_write(out: &mut Vec<u8>, mut value: usize) {
        while value > 0x80 {
            out.push((value & 0x7F) as u8 | 0x80);
            value >>= 7;
        }
        out.push(value as u8);
    }
}

// ---------------------------------------------------------------- R-WIDTHCHECK
pub mod widthfx {
    fn store_bits_static(out: &mut Vec<u8>, at: usize, value: u64, bit_width: u8) -> Result<(), String> {
        let masked = if bit_width < 64 { value & ((1u64 << bit_width) - 1) } else { value };
        while out.len() < at + 8 { out.push(0); }
        out[at..at + 8].copy_from_slice(&masked.to_le_bytes());
        Ok(())
    }
    pub fn ok_build(values: &[u64], sw: u8, ow: u8, out: &mut Vec<u8>) -> Result<(), String> {
        let base = values[0];
        if sw < 64 && base >= (1u64 << sw) {
            return Err("base too wide".into());
        }
        store_bits_static(out, 0, base, sw)?;
        for (i, &v) in values.iter().enumerate() {
            let delta = v - base;
            if delta >= (1u64 << ow) {
                return Err("delta too wide".into());
            }
            store_bits_static(out, 8 + i * 8, delta as u32 as u64, ow)?;
        }
        Ok(())
    }
    fn ensure_fits(value: u64, bit_width: u8) -> Result<(), String> {
        if bit_width < 64 && value >= (1u64 << bit_width) {
            return Err("too wide".into());
        }
        Ok(())
    }
    pub fn ok_build_helper(values: &[u64], sw: u8, out: &mut Vec<u8>) -> Result<(), String> {
        let base = values[0];
        ensure_fits(base, sw)?;
        store_bits_static(out, 0, base, sw)
    }
    pub fn bad_build(values: &[u64], sw: u8, ow: u8, out: &mut Vec<u8>) -> Result<(), String> {
        let base = values[0];
        store_bits_static(out, 0, base, sw)?;
        for (i, &v) in values.iter().enumerate() {
            let delta = v - base;
            if delta >= (1u64 << ow) {
                return Err("delta too wide".into());
            }
            store_bits_static(out, 8 + i * 8, delta, ow)?;
        }
        Ok(())
    }
}

// ---------------------------------------------------------------- R-TAGKIND.record
pub mod recfx {
    #[derive(Clone, Copy, PartialEq)]
    pub enum Stage { None, Packed }
    pub struct Rec { pub bytes: Vec<u8>, pub n: usize, pub packed: bool, pub stage: Stage }
    fn pack(d: &[u8], out: &mut Vec<u8>) { out.extend(d.iter().map(|b| b ^ 0x55)); }
    pub struct Store { pub recs: Vec<Rec>, pub stage: Stage }
    impl Store {
        pub fn ok_put(&mut self, data: &[u8]) {
            let mut p = Vec::new();
            pack(data, &mut p);
            let stage = self.stage;
            let packed = p.len() < data.len();
            let rec = Rec {
                bytes: if packed { p } else { data.to_vec() },
                n: data.len(),
                packed,
                stage: if packed { stage } else { Stage::None },
            };
            self.recs.push(rec);
        }
        pub fn ok_put2(&mut self, data: &[u8]) {
            let mut p = Vec::new();
            pack(data, &mut p);
            let rec = if p.len() < data.len() {
                Rec { bytes: p, n: data.len(), packed: true, stage: self.stage }
            } else {
                Rec { bytes: data.to_vec(), n: data.len(), packed: false, stage: Stage::None }
            };
            self.recs.push(rec);
        }
        pub fn bad_put(&mut self, data: &[u8]) {
            let mut p = Vec::new();
            pack(data, &mut p);
            let stage = self.stage;
            let packed = p.len() < data.len();
            let rec = Rec {
                bytes: if packed { p } else { data.to_vec() },
                n: data.len(),
                packed,
                stage,
            };
            self.recs.push(rec);
        }
    }
}

// ---------------------------------------------------------------- R-CAPSRC
pub mod capfx {
    fn decompress_bounded(data: &[u8], cap: usize) -> Result<Vec<u8>, String> {
        let mut out = Vec::new();
        for &b in data {
            for _ in 0..(b as usize) {
                if out.len() == cap { return Err("too large".into()); }
                out.push(0);
            }
        }
        Ok(out)
    }
    pub fn ok_const(data: &[u8]) -> Result<Vec<u8>, String> {
        decompress_bounded(data, 1 << 20)
    }
    pub fn ok_stored(frame: &[u8]) -> Result<Vec<u8>, String> {
        let n = u32::from_le_bytes([frame[0], frame[1], frame[2], frame[3]]) as usize;
        decompress_bounded(&frame[4..], n.min(1 << 20))
    }
    pub fn bad_ratio(data: &[u8]) -> Result<Vec<u8>, String> {
        let cap = data.len().saturating_mul(64).clamp(1024, 1 << 20);
        decompress_bounded(data, cap)
    }
}

// ---------------------------------------------------------------- R-PAIRACCESS
pub mod pairfx {
    pub struct V { pub base: Vec<u64>, pub delta: Vec<u32>, pub n: usize }
    impl V {
        fn sample(&self, b: usize) -> Result<u64, String> { self.base.get(b).copied().ok_or_else(|| "b".to_string()) }
        fn delta_at(&self, b: usize, o: usize) -> Result<u32, String> { self.delta.get(b * 4 + o).copied().ok_or_else(|| "d".to_string()) }
        fn one(&self, i: usize) -> Result<u64, String> { Ok(self.sample(i >> 2)? + self.delta_at(i >> 2, i & 3)? as u64) }
        pub fn ok_get2(&self, index: usize) -> Result<(u64, u64), String> {
            if index + 1 >= self.n { return Err("oob".into()); }
            let a = self.one(index)?;
            let b = self.one(index + 1)?;
            Ok((a, b))
        }
        pub fn bad_get2(&self, index: usize) -> Result<(u64, u64), String> {
            if index + 1 >= self.n { return Err("oob".into()); }
            let blk = index >> 2;
            let off = index & 3;
            let m = self.sample(blk)?;
            Ok((m + self.delta_at(blk, off)? as u64, m + self.delta_at(blk, off + 1)? as u64))
        }
    }
}

// ---------------------------------------------------------------- R-PARTIALWRITE
pub mod partialfx {
    use std::io::{self, Write};
    pub struct Buf { pub data: Vec<u8>, pub pos: usize }
    impl Buf {
        fn drain_to<W: Write>(&mut self, w: &mut W) -> io::Result<usize> {
            let n = w.write(&self.data[self.pos..])?;
            self.pos += n;
            Ok(n)
        }
        pub fn ok_flush<W: Write>(&mut self, w: &mut W) -> io::Result<()> {
            while self.pos < self.data.len() {
                if self.drain_to(w)? == 0 {
                    return Err(io::Error::new(io::ErrorKind::WriteZero, "zero"));
                }
            }
            self.data.clear();
            self.pos = 0;
            Ok(())
        }
        pub fn ok_flush_strict<W: Write>(&mut self, w: &mut W) -> io::Result<()> {
            let want = self.data.len() - self.pos;
            let n = self.drain_to(w)?;
            if n != want {
                return Err(io::Error::new(io::ErrorKind::WriteZero, "short write"));
            }
            self.data.clear();
            self.pos = 0;
            Ok(())
        }
        pub fn bad_flush<W: Write>(&mut self, w: &mut W) -> io::Result<()> {
            if self.pos == self.data.len() {
                return Ok(());
            }
            if self.drain_to(w)? == 0 {
                return Err(io::Error::new(io::ErrorKind::WriteZero, "zero"));
            }
            self.data.clear();
            self.pos = 0;
            Ok(())
        }
    }
}

// ---------------------------------------------------------------- R-GUARD.open
pub mod openfx {
    pub struct Header { pub capacity: u64 }
    pub struct FV { pub header: Header, pub path: std::path::PathBuf }
    impl FV {
        pub fn capacity(&self) -> u64 { self.header.capacity }
        fn load(path: &std::path::Path) -> Result<FV, String> {
            let bytes = std::fs::read(path).map_err(|e| e.to_string())?;
            if bytes.len() < 8 { return Err("short".into()); }
            let mut c = [0u8; 8];
            c.copy_from_slice(&bytes[..8]);
            Ok(FV { header: Header { capacity: u64::from_le_bytes(c) }, path: path.to_path_buf() })
        }
        pub fn ok_open(path: &std::path::Path) -> Result<FV, String> {
            let v = FV::load(path)?;
            let file_len = std::fs::metadata(&v.path).map_err(|e| e.to_string())?.len();
            let need = v.capacity().checked_mul(4).and_then(|b| b.checked_add(8)).ok_or("overflow")?;
            if file_len < need { return Err("cut short".into()); }
            Ok(v)
        }
        fn check_len(&self) -> Result<(), String> {
            let file_len = std::fs::metadata(&self.path).map_err(|e| e.to_string())?.len();
            let need = self.capacity().checked_mul(4).and_then(|b| b.checked_add(8)).ok_or("overflow")?;
            if file_len < need { return Err("cut short".into()); }
            Ok(())
        }
        pub fn ok_open_helper(path: &std::path::Path) -> Result<FV, String> {
            let v = FV::load(path)?;
            v.check_len()?;
            Ok(v)
        }
        pub fn bad_open(path: &std::path::Path) -> Result<FV, String> {
            let v = FV::load(path)?;
            Ok(v)
        }
        pub fn bad_open_ignored(path: &std::path::Path) -> Result<FV, String> {
            let v = FV::load(path)?;
            let _ = v.check_len();
            Ok(v)
        }
    }
}

// ---------------------------------------------------------------- R-FLOW (save / load carry the field)
pub mod flowfx {
    use std::io::{Read, Write};
    pub struct St { pub content: Vec<u8>, pub index: Vec<u8> }
    impl St {
        fn append_content(&mut self, bytes: &[u8]) { self.content.extend_from_slice(bytes); }
        pub fn ok_load<R: Read>(r: &mut R, n: usize) -> std::io::Result<St> {
            let mut st = St { content: Vec::new(), index: Vec::new() };
            let mut buf = vec![0u8; n];
            r.read_exact(&mut buf)?;
            st.content.extend_from_slice(&buf);
            Ok(st)
        }
        pub fn ok_load_helper<R: Read>(r: &mut R, n: usize) -> std::io::Result<St> {
            let mut st = St { content: Vec::new(), index: Vec::new() };
            let mut buf = vec![0u8; n];
            r.read_exact(&mut buf)?;
            st.append_content(&buf);
            Ok(st)
        }
        pub fn bad_load<R: Read>(r: &mut R, n: usize) -> std::io::Result<St> {
            let mut st = St { content: Vec::new(), index: Vec::new() };
            let mut buf = vec![0u8; n];
            r.read_exact(&mut buf)?;
            st.index.push(buf.len() as u8);
            Ok(st)
        }
        pub fn ok_save<W: Write>(&self, w: &mut W) -> std::io::Result<()> { w.write_all(&self.content) }
        pub fn bad_save<W: Write>(&self, w: &mut W) -> std::io::Result<()> { w.write_all(&(self.content.len() as u64).to_le_bytes()) }
    }
}

// ---------------------------------------------------------------- R-MATCHVERIFY
pub mod matchfx {
    pub fn ok_from_zero(data: &[u8], cand: usize, pos: usize) -> usize {
        let mut n = 0;
        while pos + n < data.len() && data[cand + n] == data[pos + n] {
            n += 1;
        }
        n
    }
    pub fn ok_verified(data: &[u8], text: &[u8], cand: usize, pos: usize, min: usize) -> usize {
        if cand + min > text.len() || pos + min > data.len() || &text[cand..cand + min] != &data[pos..pos + min] {
            return 0;
        }
        let mut n = min;
        while pos + n < data.len() && cand + n < text.len() && text[cand + n] == data[pos + n] {
            n += 1;
        }
        n
    }
    pub fn bad_trusts_hash(data: &[u8], text: &[u8], cand: usize, pos: usize, min: usize) -> usize {
        if cand + min > text.len() || pos + min > data.len() {
            return 0;
        }
        let mut n = min;
        while pos + n < data.len() && cand + n < text.len() && text[cand + n] == data[pos + n] {
            n += 1;
        }
        n
    }
}

// ---------------------------------------------------------------- R-SEQ.shared
pub mod sharedfx {
    use std::sync::Mutex;
    pub fn bad_blocks(input: &[u8]) -> Vec<u8> {
        let out: Mutex<Vec<Vec<u8>>> = Mutex::new(Vec::new());
        std::thread::scope(|s| {
            for block in input.chunks(4) {
                let out = &out;
                s.spawn(move || {
                    let enc: Vec<u8> = block.iter().map(|b| b ^ 1).collect();
                    out.lock().unwrap().push(enc);
                });
            }
        });
        out.into_inner().unwrap().concat()
    }
    pub fn ok_blocks(input: &[u8]) -> Vec<u8> {
        let mut pieces: Vec<Vec<u8>> = Vec::new();
        std::thread::scope(|s| {
            let hs: Vec<_> = input.chunks(4).map(|block| s.spawn(move || block.iter().map(|b| b ^ 1).collect::<Vec<u8>>())).collect();
            for h in hs {
                pieces.push(h.join().unwrap());
            }
        });
        pieces.concat()
    }
    pub fn ok_sorted(input: &[u8]) -> Vec<u8> {
        let out: Mutex<Vec<(usize, Vec<u8>)>> = Mutex::new(Vec::new());
        std::thread::scope(|s| {
            for (i, block) in input.chunks(4).enumerate() {
                let out = &out;
                s.spawn(move || {
                    let enc: Vec<u8> = block.iter().map(|b| b ^ 1).collect();
                    out.lock().unwrap().push((i, enc));
                });
            }
        });
        let mut v = out.into_inner().unwrap();
        v.sort_by_key(|p| p.0);
        v.into_iter().flat_map(|p| p.1).collect()
    }
}

// ---------------------------------------------------------------- R-HINT
pub mod hintfx {
    use std::sync::atomic::{AtomicU32, Ordering};
    pub struct Store { pub next: AtomicU32, pub items: Vec<(u32, Vec<u8>)> }
    impl Store {
        pub fn ok_batch<I: IntoIterator<Item = Vec<u8>>>(&mut self, it: I) -> Vec<u32> {
            let it = it.into_iter();
            let mut ids = Vec::with_capacity(it.size_hint().0);
            for b in it {
                let id = self.next.fetch_add(1, Ordering::Relaxed);
                self.items.push((id, b));
                ids.push(id);
            }
            ids
        }
        pub fn bad_batch<I: IntoIterator<Item = Vec<u8>>>(&mut self, it: I) -> Vec<u32> {
            let it = it.into_iter();
            let expected = it.size_hint().0;
            let first = self.next.fetch_add(expected as u32, Ordering::Relaxed);
            let mut ids = Vec::with_capacity(expected);
            for (i, b) in it.enumerate() {
                let id = first + i as u32;
                self.items.push((id, b));
                ids.push(id);
            }
            ids
        }
    }
}

// ---------------------------------------------------------------- R-FLOW.builder
pub mod builderfx {
    pub struct Store { pub content: Vec<u8>, pub ends: Vec<usize> }
    pub struct OkBuilder { pub content: Vec<u8>, pub ends: Vec<usize>, pub n: usize }
    impl OkBuilder {
        pub fn add_record(&mut self, d: &[u8]) { self.content.extend_from_slice(d); self.ends.push(self.content.len()); self.n += 1; }
        fn into_store(self) -> Store { Store { content: self.content, ends: self.ends } }
        pub fn finish(self) -> Store { self.into_store() }
    }
    pub struct BadBuilder { pub content: Vec<u8>, pub ends: Vec<usize>, pub n: usize }
    impl BadBuilder {
        pub fn add_record(&mut self, d: &[u8]) { self.content.extend_from_slice(d); self.ends.push(self.content.len()); self.n += 1; }
        pub fn finish(self) -> Store { let _ends = self.ends; Store { content: Vec::new(), ends: Vec::new() } }
    }
}

// ---------------------------------------------------------------- R-DIV (field with a zero writer)
pub mod divfield {
    use super::*;
    pub struct Model { pub total: u32, pub table: Vec<u8> }
    impl Model {
        pub fn from_table(freqs: &[u32; 4]) -> Model {
            let sum: u32 = freqs.iter().sum();
            if sum == 0 {
                return Model { total: 0, table: Vec::new() };
            }
            Model { total: 4096, table: vec![0u8; 4096] }
        }
        pub fn bad_decode_step(&self, state: u64) -> Result<usize> {
            let slot = (state % self.total as u64) as usize;
            if slot >= self.table.len() {
                return Err(ZiporaError("slot"));
            }
            Ok(self.table[slot] as usize)
        }
        pub fn ok_decode_step(&self, state: u64) -> Result<usize> {
            if self.total == 0 {
                return Err(ZiporaError("empty model"));
            }
            let slot = (state % self.total as u64) as usize;
            if slot >= self.table.len() {
                return Err(ZiporaError("slot"));
            }
            Ok(self.table[slot] as usize)
        }
    }
}

// ---------------------------------------------------------------- R-RECURSE
pub mod recfx2 {
    use super::*;
    pub fn bad_decode(data: &[u8]) -> Result<usize> {
        if data.len() < 2 {
            return Err(ZiporaError("short"));
        }
        if data[0] == 0xF5 {
            return bad_decode_blocks(&data[1..]);
        }
        Ok(data[1] as usize)
    }
    fn bad_decode_blocks(data: &[u8]) -> Result<usize> {
        bad_decode(data)
    }
    pub fn ok_decode(data: &[u8], depth: u32) -> Result<usize> {
        if data.len() < 2 {
            return Err(ZiporaError("short"));
        }
        if data[0] == 0xF5 {
            if depth == 0 {
                return Err(ZiporaError("nested too deeply"));
            }
            return ok_decode(&data[1..], depth - 1);
        }
        Ok(data[1] as usize)
    }
}

// ---------------------------------------------------------------- R-UNINIT
pub mod uninitfx {
    use std::mem::MaybeUninit;
    pub fn ok_array<const N: usize>(mut next: impl FnMut() -> Option<String>) -> Option<[String; N]> {
        let mut a: [MaybeUninit<String>; N] = unsafe { MaybeUninit::uninit().assume_init() };
        for i in 0..N {
            match next() {
                Some(v) => a[i] = MaybeUninit::new(v),
                None => {
                    for s in &mut a[..i] { unsafe { s.assume_init_drop() } }
                    return None;
                }
            }
        }
        Some(unsafe { std::mem::transmute_copy::<_, [String; N]>(&a) })
    }
    pub fn bad_array<const N: usize>(mut next: impl FnMut() -> Option<String>) -> Option<[String; N]> {
        let mut a: [String; N] = unsafe { MaybeUninit::uninit().assume_init() };
        for slot in a.iter_mut() {
            unsafe { std::ptr::write(slot, next()?) };
        }
        Some(a)
    }
}

// ---------------------------------------------------------------- R-CLAMPLOOP
pub mod clampfx {
    pub struct In<'a> { pub d: &'a [u8], pub p: usize }
    impl<'a> In<'a> {
        pub fn read_u32(&mut self) -> Result<u32, String> {
            let b = self.d.get(self.p..self.p + 4).ok_or("eof")?;
            self.p += 4;
            Ok(u32::from_le_bytes([b[0], b[1], b[2], b[3]]))
        }
    }
    const MAX_PREALLOC: usize = 4096;
    pub fn ok_deserialize(input: &mut In) -> Result<Vec<u32>, String> {
        let len = input.read_u32()? as usize;
        let mut v = Vec::with_capacity(len.min(MAX_PREALLOC));
        for _ in 0..len {
            v.push(input.read_u32()?);
        }
        Ok(v)
    }
    pub fn bad_deserialize(input: &mut In) -> Result<Vec<u32>, String> {
        let len = (input.read_u32()? as usize).min(MAX_PREALLOC);
        let mut v = Vec::with_capacity(len);
        for _ in 0..len {
            v.push(input.read_u32()?);
        }
        Ok(v)
    }
}

// ---------------------------------------------------------------- R-TAKEEXACT
pub mod takefx {
    use std::io::Read;
    pub fn bad_section<R: Read>(r: &mut R, n: u64) -> Result<Vec<u8>, String> {
        let mut buf = Vec::new();
        r.by_ref().take(n).read_to_end(&mut buf).map_err(|e| e.to_string())?;
        Ok(buf)
    }
    pub fn ok_section<R: Read>(r: &mut R, n: u64) -> Result<Vec<u8>, String> {
        let mut buf = Vec::new();
        let got = r.by_ref().take(n).read_to_end(&mut buf).map_err(|e| e.to_string())?;
        if got as u64 != n {
            return Err("section cut short".into());
        }
        Ok(buf)
    }
    pub fn ok_section_len<R: Read>(r: &mut R, n: u64) -> Result<Vec<u8>, String> {
        let mut buf = Vec::new();
        r.by_ref().take(n).read_to_end(&mut buf).map_err(|e| e.to_string())?;
        if (buf.len() as u64) < n {
            return Err("section cut short".into());
        }
        Ok(buf)
    }
}

// ---------------------------------------------------------------- R-CREATE.truncate
pub mod createfx {
    use std::fs::{File, OpenOptions};
    pub struct Out { pub f: File }
    pub struct Out2 { pub f: File }
    impl Out {
        pub fn create(path: &std::path::Path, size: u64) -> std::io::Result<Out> {
            let f = OpenOptions::new().read(true).write(true).create(true).truncate(true).open(path)?;
            f.set_len(size)?;
            Ok(Out { f })
        }
    }
    impl Out2 {
        pub fn create(path: &std::path::Path, size: u64) -> std::io::Result<Out2> {
            let f = OpenOptions::new().read(true).write(true).create(true).open(path)?;
            if f.metadata()?.len() < size {
                f.set_len(size)?;
            }
            Ok(Out2 { f })
        }
    }
}

// ---------------------------------------------------------------- R-RELEASE / R-ORDER.untrack
pub mod releasefx {
    use std::ptr::NonNull;
    pub struct Pool { pub free: std::sync::Mutex<Vec<usize>> }
    impl Pool {
        fn deallocate(&self, ptr: NonNull<u8>, _size: usize) -> Result<(), String> {
            self.free.lock().unwrap().push(ptr.as_ptr() as usize);
            Ok(())
        }
        pub fn ok_scrub_then_free(&self, ptr: NonNull<u8>, size: usize) -> Result<(), String> {
            unsafe { std::ptr::write_bytes(ptr.as_ptr(), 0, size) };
            self.deallocate(ptr, size)
        }
        pub fn bad_free_then_scrub(&self, ptr: NonNull<u8>, size: usize) -> Result<(), String> {
            self.deallocate(ptr, size)?;
            unsafe { std::ptr::write_bytes(ptr.as_ptr(), 0, size) };
            Ok(())
        }
    }
}

// ---------------------------------------------------------------- R-PADMASK
#[cfg(target_arch = "x86_64")]
pub mod padfx {
    use std::arch::x86_64::*;
    pub fn bad_find(key: u8, keys: &[u8; 8], len: usize) -> Option<usize> {
        if len == 0 { return None; }
        unsafe {
            let mut scratch = [0u8; 8];
            for i in 0..len.min(8) { scratch[i] = keys[i]; }
            let v = _mm_loadl_epi64(scratch.as_ptr() as *const __m128i);
            let m = _mm_movemask_epi8(_mm_cmpeq_epi8(_mm_set1_epi8(key as i8), v)) as u32;
            if m != 0 { return Some(m.trailing_zeros() as usize); }
        }
        None
    }
    pub fn ok_find(key: u8, keys: &[u8; 8], len: usize) -> Option<usize> {
        if len == 0 { return None; }
        unsafe {
            let mut scratch = [0u8; 8];
            for i in 0..len.min(8) { scratch[i] = keys[i]; }
            let v = _mm_loadl_epi64(scratch.as_ptr() as *const __m128i);
            let m = (_mm_movemask_epi8(_mm_cmpeq_epi8(_mm_set1_epi8(key as i8), v)) as u32) & ((1u32 << len.min(8)) - 1);
            if m != 0 { return Some(m.trailing_zeros() as usize); }
        }
        None
    }
}

// ---------------------------------------------------------------- R-COMMIT through a deciding helper
pub mod commit2 {
    use super::*;
    use std::sync::atomic::{AtomicUsize, AtomicU32, Ordering};
    pub struct Mgr { pub readers: AtomicUsize, pub limit: usize, pub gen: AtomicU32 }
    fn check_limit(live: usize, limit: usize) -> Result<()> {
        if live > limit { return Err(ZiporaError("too many readers")); }
        Ok(())
    }
    fn make_chunk(generation: u32, size: usize) -> Result<Vec<u8>> {
        if size > (1 << 30) { return Err(ZiporaError("too large")); }
        let mut v = vec![0u8; size];
        if size > 0 { v[0] = generation as u8; }
        Ok(v)
    }
    impl Mgr {
        pub fn bad_acquire(&self) -> Result<usize> {
            let live = self.readers.fetch_add(1, Ordering::AcqRel) + 1;
            check_limit(live, self.limit)?;
            Ok(live)
        }
        pub fn ok_acquire(&self) -> Result<usize> {
            let live = self.readers.fetch_add(1, Ordering::AcqRel) + 1;
            if let Err(e) = check_limit(live, self.limit) {
                self.readers.fetch_sub(1, Ordering::AcqRel);
                return Err(e);
            }
            Ok(live)
        }
        pub fn ok_fresh_id(&self, size: usize) -> Result<Vec<u8>> {
            let generation = self.gen.fetch_add(1, Ordering::AcqRel);
            let chunk = make_chunk(generation, size)?;
            Ok(chunk)
        }
    }
}

// ---------------------------------------------------------------- R-FLATTEN
pub mod flattenfx {
    pub fn bad_join(rs: Vec<Result<u32, String>>) -> Result<Vec<u32>, String> {
        Ok(rs.into_iter().flatten().collect())
    }
    pub fn ok_join(rs: Vec<Result<u32, String>>) -> Result<Vec<u32>, String> {
        rs.into_iter().collect()
    }
    pub fn ok_flatten_options(xs: Vec<Vec<u32>>) -> Vec<u32> {
        xs.into_iter().flatten().collect()
    }
}

// ---------------------------------------------------------------- R-NARROWIDX
pub mod nidxfx {
    pub struct V32 { pub data: Vec<u64>, pub len: u32 }
    impl V32 {
        fn at32(&self, i: u32) -> &u64 { assert!(i < self.len); &self.data[i as usize] }
        pub fn bad_index(&self, index: usize) -> &u64 { self.at32(index as u32) }
        pub fn ok_index(&self, index: usize) -> &u64 {
            assert!(index < self.len as usize);
            self.at32(index as u32)
        }
    }
}

// ---------------------------------------------------------------- R-WRAP.pow2
pub mod pow2fx {
    pub struct OkRing { pub buf: Vec<u32>, pub head: usize, pub tail: usize, pub mask: usize }
    impl OkRing {
        pub fn new(cap: usize) -> OkRing {
            let cap = cap.max(2).next_power_of_two();
            OkRing { buf: vec![0; cap], head: 0, tail: 0, mask: cap - 1 }
        }
        pub fn push(&mut self, v: u32) { self.buf[self.tail] = v; self.tail = (self.tail + 1) & self.mask; }
    }
    pub struct BadRing<const N: usize> { pub buf: [u32; N], pub head: usize, pub tail: usize }
    impl<const N: usize> BadRing<N> {
        pub fn push(&mut self, v: u32) { self.buf[self.tail] = v; self.tail = (self.tail + 1) & (N - 1); }
    }
}

// ---------------------------------------------------------------- R-PANICSAFE.len
pub mod psfx {
    pub struct RawVec { pub ptr: *mut String, pub len: usize, pub cap: usize }
    impl RawVec {
        pub fn ok_extend<I: Iterator<Item = String>>(&mut self, mut it: I) {
            while self.len < self.cap {
                let Some(v) = it.next() else { break };
                unsafe { std::ptr::write(self.ptr.add(self.len), v) };
                self.len += 1;
            }
        }
        pub fn bad_extend<I: Iterator<Item = String>>(&mut self, mut it: I) {
            let mut written = 0;
            while self.len + written < self.cap {
                let Some(v) = it.next() else { break };
                unsafe { std::ptr::write(self.ptr.add(self.len + written), v) };
                written += 1;
            }
            self.len += written;
        }
    }
}

// ---------------------------------------------------------------- R-IDENTITY
pub mod identfx {
    pub fn bad_compare(a: &[u8], b: &[u8]) -> i32 {
        if a.as_ptr() == b.as_ptr() { return 0; }
        for (x, y) in a.iter().zip(b.iter()) { if x != y { return *x as i32 - *y as i32; } }
        a.len() as i32 - b.len() as i32
    }
    pub fn ok_compare(a: &[u8], b: &[u8]) -> i32 {
        if a.as_ptr() == b.as_ptr() && a.len() == b.len() { return 0; }
        for (x, y) in a.iter().zip(b.iter()) { if x != y { return *x as i32 - *y as i32; } }
        a.len() as i32 - b.len() as i32
    }
}

// ---------------------------------------------------------------- R-LOCKSPLIT through a locking getter / R-ATOM.lms through swap
pub mod locksplit2 {
    use std::sync::Mutex;
    use std::sync::atomic::{AtomicUsize, Ordering};
    pub struct Bump { pub mem: Mutex<usize>, pub head: AtomicUsize }
    impl Bump {
        fn used(&self) -> usize { *self.mem.lock().unwrap() }
        pub fn bad_free(&self, offset: usize, size: usize) {
            if offset + size == self.used() {
                let mut m = self.mem.lock().unwrap();
                *m = offset;
            }
        }
        pub fn ok_free(&self, offset: usize, size: usize) {
            let mut m = self.mem.lock().unwrap();
            if offset + size == *m {
                *m = offset;
            }
        }
        pub fn bad_take_some(&self, keep: usize) -> usize {
            let all = self.head.swap(0, Ordering::AcqRel);
            let rest = all.saturating_sub(keep);
            self.head.store(rest, Ordering::Release);
            all - rest
        }
        pub fn push(&self, n: usize) { self.head.fetch_add(n, Ordering::AcqRel); }
    }
}

// ---------------------------------------------------------------- R-ARITH.sum
pub mod sumfx {
    use super::*;
    fn bad_model(freqs: &[u32; 4]) -> Result<u32> {
        let total: u32 = freqs.iter().sum();
        if total == 0 { return Err(ZiporaError("empty")); }
        Ok(total)
    }
    fn ok_model(freqs: &[u32; 4]) -> Result<u32> {
        let total = freqs.iter().try_fold(0u32, |a, &f| a.checked_add(f)).ok_or(ZiporaError("overflow"))?;
        if total == 0 { return Err(ZiporaError("empty")); }
        Ok(total)
    }
    fn ok_wide(freqs: &[u32; 4]) -> u64 { freqs.iter().map(|&f| f as u64).sum::<u64>() }
    pub fn decode_bad(data: &[u8]) -> Result<u32> {
        if data.len() < 16 { return Err(ZiporaError("short")); }
        let mut f = [0u32; 4];
        for i in 0..4 { f[i] = u32::from_le_bytes([data[i * 4], data[i * 4 + 1], data[i * 4 + 2], data[i * 4 + 3]]); }
        bad_model(&f)
    }
    pub fn decode_ok(data: &[u8]) -> Result<u64> {
        if data.len() < 16 { return Err(ZiporaError("short")); }
        let mut f = [0u32; 4];
        for i in 0..4 { f[i] = u32::from_le_bytes([data[i * 4], data[i * 4 + 1], data[i * 4 + 2], data[i * 4 + 3]]); }
        Ok(ok_model(&f)? as u64 + ok_wide(&f))
    }
}

// ---------------------------------------------------------------- R-STRSLICE
pub mod strfx {
    use super::*;
    pub fn bad_parse(text: &str) -> Result<u8> {
        let mut pos = 0;
        while pos + 2 <= text.len() {
            let b = text.as_bytes();
            if !b[pos].is_ascii_hexdigit() || !b[pos + 1].is_ascii_hexdigit() {
                let _quoted = &text[pos..pos + 2];
                return Err(ZiporaError("bad digit pair"));
            }
            pos += 2;
        }
        Ok(pos as u8)
    }
    pub fn ok_parse(text: &str) -> Result<u8> {
        let mut pos = 0;
        while pos + 2 <= text.len() {
            let b = text.as_bytes();
            if !b[pos].is_ascii_hexdigit() || !b[pos + 1].is_ascii_hexdigit() {
                let _quoted = text.get(pos..pos + 2);
                return Err(ZiporaError("bad digit pair"));
            }
            pos += 2;
        }
        Ok(pos as u8)
    }
}

// ---------------------------------------------------------------- R-FLUSHWHOLE
pub mod flushfx {
    use std::io::Write;
    pub struct W<F: Write> { pub file: F, pub buffer: Vec<u8> }
    impl<F: Write> W<F> {
        pub fn bad_flush(&mut self) -> std::io::Result<()> {
            if self.buffer.len() >= 4096 {
                let whole = self.buffer.len() - self.buffer.len() % 4096;
                self.file.write_all(&self.buffer[..whole])?;
                self.buffer.clear();
            }
            Ok(())
        }
        pub fn ok_flush_all(&mut self) -> std::io::Result<()> {
            if self.buffer.len() >= 4096 {
                self.file.write_all(&self.buffer)?;
                self.buffer.clear();
            }
            Ok(())
        }
        pub fn ok_flush_drain(&mut self) -> std::io::Result<()> {
            if self.buffer.len() >= 4096 {
                let whole = self.buffer.len() - self.buffer.len() % 4096;
                self.file.write_all(&self.buffer[..whole])?;
                self.buffer.drain(..whole);
            }
            Ok(())
        }
    }
}

// ---------------------------------------------------------------- R-CACHEDVIEW
pub mod cviewfx {
    pub struct BadBuf { pub store: Vec<u8>, pub view: Option<&'static [u8]> }
    impl BadBuf {
        pub fn set(&mut self, d: &[u8]) {
            self.store.clear();
            self.store.extend_from_slice(d);
            let p = self.store.as_ptr();
            self.view = Some(unsafe { std::slice::from_raw_parts(p, self.store.len()) });
        }
        // refreshes the view only when the Vec reallocated: the length of the view goes stale
        pub fn bad_append(&mut self, d: &[u8]) {
            let cap = self.store.capacity();
            self.store.extend_from_slice(d);
            if self.store.capacity() != cap {
                let p = self.store.as_ptr();
                self.view = Some(unsafe { std::slice::from_raw_parts(p, self.store.len()) });
            }
        }
        pub fn bad_reserve(&mut self, n: usize) { self.store.reserve(n); }
        fn grow(&mut self, n: usize) { self.store.reserve(n); }
        pub fn bad_via_helper(&mut self, n: usize) -> usize { self.grow(n); self.store.capacity() }
        pub fn get(&self) -> &[u8] { self.view.unwrap_or(&[]) }
    }
    pub struct OkBuf { pub store: Vec<u8>, pub view: Option<&'static [u8]> }
    impl OkBuf {
        fn refresh(&mut self) {
            let p = self.store.as_ptr();
            self.view = Some(unsafe { std::slice::from_raw_parts(p, self.store.len()) });
        }
        pub fn ok_append(&mut self, d: &[u8]) {
            if d.is_empty() { return; }
            self.store.extend_from_slice(d);
            let p = self.store.as_ptr();
            self.view = Some(unsafe { std::slice::from_raw_parts(p, self.store.len()) });
        }
        pub fn ok_reserve(&mut self, n: usize) {
            self.store.reserve(n);
            self.refresh();
        }
        pub fn ok_clear(&mut self) { self.store.clear(); self.view = None; }
        pub fn capacity(&self) -> usize { self.store.capacity() }
    }
}
pub mod cviewfx2 {
    pub struct OkBuf2 { pub store: Vec<u8>, pub view: Option<&'static [u8]> }
    impl OkBuf2 {
        pub fn set(&mut self, d: &[u8]) {
            self.fill(d);
            let p = self.store.as_ptr();
            self.view = Some(unsafe { std::slice::from_raw_parts(p, self.store.len()) });
        }
        fn fill(&mut self, d: &[u8]) { self.store.clear(); self.store.extend_from_slice(d); }
        pub fn ok_reserve_if_some(&mut self, n: usize) {
            self.store.reserve(n);
            if let Some(v) = self.view {
                let len = v.len();
                self.view = Some(unsafe { std::slice::from_raw_parts(self.store.as_ptr(), len) });
            }
        }
    }
}

// ---------------------------------------------------------------- R-PARALLEL.build / R-MARKCOUNT
pub mod markfx {
    pub trait Link: Copy + PartialEq { const DEL: Self; }
    impl Link for u32 { const DEL: u32 = u32::MAX; }
    pub struct Ent<L> { pub key: u64, pub link: L }
    pub struct BadMap<L: Link> { pub entries: Vec<Ent<L>>, pub cache: Option<Vec<u64>>, pub dead: usize, pub reuse: bool, pub free: Vec<usize> }
    impl<L: Link> BadMap<L> {
        pub fn bad_build(&mut self) {
            let mut c = Vec::with_capacity(self.entries.len());
            for e in &self.entries {
                if e.link != L::DEL { c.push(e.key.wrapping_mul(31)); }
            }
            self.cache = Some(c);
        }
        pub fn bad_free(&mut self, i: usize) {
            self.dead += 1;
            if self.reuse {
                self.entries[i].link = L::DEL;
                self.free.push(i);
            }
        }
    }
    pub struct OkMap<L: Link> { pub entries: Vec<Ent<L>>, pub cache: Option<Vec<u64>>, pub dead: usize, pub reuse: bool, pub free: Vec<usize> }
    impl<L: Link> OkMap<L> {
        pub fn ok_build(&mut self) {
            let mut c = Vec::with_capacity(self.entries.len());
            for e in &self.entries {
                let h = if e.link != L::DEL { e.key.wrapping_mul(31) } else { 0 };
                c.push(h);
            }
            self.cache = Some(c);
        }
        pub fn ok_free(&mut self, i: usize) {
            self.entries[i].link = L::DEL;
            self.dead += 1;
            if self.reuse { self.free.push(i); }
        }
        fn count(&mut self, i: usize) { self.dead += 1; if self.reuse { self.free.push(i); } }
        pub fn ok_remove(&mut self, i: usize) -> bool {
            if i >= self.entries.len() { return false; }
            self.mark(i);
            self.count(i);
            true
        }
        fn mark(&mut self, i: usize) { self.entries[i].link = L::DEL; }
    }
}

// ---------------------------------------------------------------- R-SIBLING.keylimit
pub mod keylimfx {
    pub mod bad {
        pub fn insert(store: &mut Vec<u8>, key: &[u8]) -> bool {
            if key.len() > 255 { return false; }
            store.push(key.len() as u8); store.extend_from_slice(key); true
        }
        pub fn contains(store: &[u8], key: &[u8]) -> bool {
            if key.len() > 254 { return false; }
            store.windows(key.len().max(1)).any(|w| w == key)
        }
        pub fn position(store: &[u8], key: &[u8]) -> Option<usize> {
            if key.len() > 255 { return None; }
            store.windows(key.len().max(1)).position(|w| w == key)
        }
    }
    pub mod ok {
        pub fn insert(store: &mut Vec<u8>, key: &[u8]) -> bool {
            if key.len() > 255 { return false; }
            store.push(key.len() as u8); store.extend_from_slice(key); true
        }
        pub fn contains(store: &[u8], key: &[u8]) -> bool {
            if key.len() >= 256 { return false; }
            store.windows(key.len().max(1)).any(|w| w == key)
        }
        pub fn position(store: &[u8], key: &[u8]) -> Option<usize> {
            let n = key.len();
            if 255 < n { return None; }
            store.windows(n.max(1)).position(|w| w == key)
        }
    }
}

// ---------------------------------------------------------------- R-COUNT.rmw
pub mod countfx {
    use std::sync::atomic::{AtomicU64, Ordering};
    pub struct BadMgr { pub writers: AtomicU64, pub multi: bool }
    impl BadMgr {
        pub fn new() -> Self { let m = BadMgr { writers: AtomicU64::new(0), multi: false }; m.writers.store(0, Ordering::Relaxed); m }
        pub fn acquire(&self) { self.writers.fetch_add(1, Ordering::Relaxed); }
        pub fn bad_release(&self) {
            if self.multi { self.writers.fetch_sub(1, Ordering::Relaxed); } else { self.writers.store(0, Ordering::Release); }
        }
    }
    pub struct OkMgr { pub writers: AtomicU64 }
    impl OkMgr {
        pub fn acquire(&self) { self.writers.fetch_add(1, Ordering::Relaxed); }
        pub fn ok_release(&self) { self.writers.fetch_sub(1, Ordering::Relaxed); }
        pub fn live(&self) -> u64 { self.writers.load(Ordering::Relaxed) }
    }
}
pub mod markfx2 {
    use super::markfx::{Ent, Link};
    pub struct ItMap<L: Link> { pub entries: Vec<Ent<L>>, pub cache: Option<Vec<u64>> }
    impl<L: Link> ItMap<L> {
        pub fn ok_collect(&mut self) {
            self.cache = Some(self.entries.iter().map(|e| e.key.wrapping_mul(31)).collect());
        }
        pub fn bad_collect(&mut self) {
            let c: Vec<u64> = self.entries.iter().filter(|e| e.link != L::DEL).map(|e| e.key.wrapping_mul(31)).collect();
            self.cache = Some(c);
        }
    }
}

// ---------------------------------------------------------------- R-RAWWORDS
pub mod rawfx {
    pub struct Rs { pub words: Vec<u64>, pub size: usize, pub ones: usize }
    fn build(words: Vec<u64>, size: usize) -> Rs {
        let ones = words.iter().map(|w| w.count_ones() as usize).sum();
        Rs { words, size, ones }
    }
    fn build_masked(mut words: Vec<u64>, size: usize) -> Rs {
        words.resize((size + 63) / 64, 0);
        if size % 64 != 0 { let l = words.len() - 1; words[l] &= (1u64 << (size % 64)) - 1; }
        build(words, size)
    }
    pub fn bad_from_words(mut words: Vec<u64>, size: usize) -> Rs {
        words.resize((size + 63) / 64, 0);
        build(words, size)
    }
    pub fn ok_from_words(words: Vec<u64>, size: usize) -> Rs { build_masked(words, size) }
    pub fn ok_bitwise(words: Vec<u64>, size: usize) -> Rs {
        let mut v = vec![0u64; (size + 63) / 64];
        for i in 0..size { if i / 64 < words.len() && (words[i / 64] >> (i % 64)) & 1 == 1 { v[i / 64] |= 1 << (i % 64); } }
        build(v, size)
    }
}

// ---------------------------------------------------------------- R-CLEAR.cursors
pub mod curfx {
    use std::sync::atomic::{AtomicUsize, Ordering};
    pub struct BadRing { pub head: AtomicUsize, pub tail: AtomicUsize, pub count: AtomicUsize, pub plain: bool }
    impl BadRing {
        pub fn pop(&mut self) -> bool {
            if self.count.load(Ordering::Relaxed) == 0 { return false; }
            self.head.store((self.head.load(Ordering::Relaxed) + 1) % 8, Ordering::Relaxed);
            self.count.fetch_sub(1, Ordering::Relaxed); true
        }
        pub fn clear(&mut self) {
            if self.plain {
                self.head.store(0, Ordering::Release);
                self.count.store(0, Ordering::Release);
                return;
            }
            while self.pop() {}
        }
    }
    pub struct OkRing { pub head: usize, pub tail: usize, pub len: usize, pub plain: bool }
    impl OkRing {
        pub fn pop(&mut self) -> bool { if self.len == 0 { return false; } self.head = (self.head + 1) % 8; self.len -= 1; true }
        pub fn clear(&mut self) {
            if !self.plain { while self.pop() {} }
            self.head = 0;
            self.tail = 0;
            self.len = 0;
        }
    }
}
