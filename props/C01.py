"""C01 (partial): encoding never silently drops or substitutes a symbol (R-MISS); the serialised
model/table and stream framing of each codec is parsed back with the same widths and order (R-PAIR); the dictionary
coders extend a match only from compared bytes (R-MATCHVERIFY)."""
from vlib import fixtures
import re

from rules import miss, pair, sibling, matchverify, order
from vlib.mir import Fn
from vlib.run import Broken

FILES = ['src/entropy/huffman.rs', 'src/entropy/rans.rs', 'src/entropy/fse.rs', 'src/entropy/dictionary.rs',
         'src/entropy/parallel.rs', 'src/entropy/simd_huffman.rs']
LOOKUPS = r'HuffmanTree::get_code$|::encode_symbol$'
PAIRS = [
    ("entropy::huffman::HuffmanTree::serialize", "entropy::huffman::HuffmanTree::deserialize"),
    ("entropy::huffman::ContextualHuffmanEncoder::serialize", "entropy::huffman::ContextualHuffmanEncoder::deserialize"),
    ("entropy::dictionary::Dictionary::serialize", "entropy::dictionary::Dictionary::deserialize"),
]


def run(ctx):
    fx = ctx.facts("default")
    fixtures.run(ctx, ['miss', 'pair', 'fallback', 'matchverify', 'shared'])
    # encoder and decoder choose the single-stream fallback by the same test
    sibling.run(ctx, fx, ['src/entropy/rans.rs', 'src/entropy/fse.rs', 'src/entropy/huffman.rs'])
    ctx.floor('R-SIBLING.fallback.pairs', 2)
    # LZ-style dictionary coders: a match is extended only from bytes that were compared (hash candidates are verified)
    matchverify.run(ctx, fx, ['src/entropy/dictionary.rs'])
    ctx.floor('R-MATCHVERIFY.loops', 3)
    # parallel block encoders gather their blocks in input order
    order.shared_accumulator(ctx, fx, [f for f in fx.files() if f.startswith('src/entropy/')])
    ctx.floor('R-SEQ.shared.parallel_fns', 1)
    miss.run(ctx, fx, FILES, LOOKUPS, only=lambda f: not re.search(r'estimate|::tests::', f))
    ctx.floor("R-MISS.lookups", 12)
    ev = 0
    for w, r in PAIRS:
        if not (fx.has(w) and fx.has(r)):
            raise Broken("pair %s / %s not found" % (w, r))
        wf, rf = Fn(fx.raw(w)), Fn(fx.raw(r))
        ctx.analysed_fns.update([w, r])
        ws, wo = pair.fn_sequences(wf, "w")
        rs, ro = pair.fn_sequences(rf, "r")
        ev += pair.compare(ctx, "R-PAIR", w.rsplit("::", 2)[-2], wf, ws, rf, rs, opaque=wo or ro, mode="strong")
        ctx.instance("R-PAIR.pairs")
    # rANS parallel stream header: encode_parallel <-> decode_parallel
    for fid in fx.fn_ids('src/entropy/rans.rs'):
        if fid.endswith("::encode_parallel"):
            did = fid.replace("Encoder", "Decoder").replace("encode_parallel", "decode_parallel")
            if fx.has(did):
                wf, rf = Fn(fx.raw(fid)), Fn(fx.raw(did))
                ws, wo = pair.fn_sequences(wf, "w")
                rs, ro = pair.fn_sequences(rf, "r")
                ev += pair.compare(ctx, "R-PAIR", "rans-parallel", wf, ws, rf, rs, opaque=wo or ro, mode="strong")
                ctx.instance("R-PAIR.pairs")
                ctx.analysed_fns.update([fid, did])
    ctx.instance("R-PAIR.events", ev)
    ctx.floor("R-PAIR.pairs", 3)
    ctx.floor("R-PAIR.events", 8)
    return dict(
        level_note="decides the no-silent-substitution clause for code lookups on encode paths and the model/framing layout "
                   "agreement; prefix-freeness, normalisation arithmetic, chunk boundaries of the interleaved streams, "
                   "renormalisation bounds and the round trip itself are NOT decided",
        explanation="R-MISS: for each lookup (HuffmanTree::get_code, *::encode_symbol) whose Option is switched, the walk from the "
                    "miss edge must hit an Err / `?` / another lookup before it reaches the next loop iteration or a normal "
                    "return; in alphabet loops an all-zero entry counts as the unset marker. R-PAIR (strong projection) on the "
                    "serialize/deserialize pairs of the entropy models.",
        trusted_base=["rustc nightly MIR", "zfacts", "rules/miss.py", "rules/pair.py"],
        rule_text="obligation = lookup miss edge | (serialize, deserialize) pair",
    )
