"""C02 (partial): per match type the operand layout written equals the layout read (R-PAIR, byte and
bit level); tags decode to the variant the writer meant; every compress path (incl. raw fallback)
has its inverse on the decompress side (R-SYM)."""
from vlib import fixtures
from rules import pair, sym, tagmap, tagkind, scratch, trunc, capsrc, order
from vlib.mir import Fn, op_local
from vlib.run import Broken

PZ = "compression::dict_zip::compressor::PaZipCompressor::"
CT = "compression::dict_zip::compression_types::"


def need(fx, fid):
    rec = fx.raw(fid)
    if rec is None:
        raise Broken("anchor function %s not found" % fid)
    return Fn(rec)


def arm_pair(ctx, fx, w, r, enums, label, rule="R-PAIR"):
    wa = pair.arm_sequences(fx, w, enums, "w")
    ra = pair.arm_sequences(fx, r, enums, "r")
    n = 0
    for v in sorted(wa):
        if v not in ra or not wa[v][2] or not ra[v][2]:
            continue          # only variants with an explicit arm on both sides
        n += pair.compare(ctx, rule, "%s/%s" % (label, v), w, wa[v][0], r, ra[v][0], opaque=wa[v][1] or ra[v][1])
        ctx.instance(rule + ".arms")
    return n


def run(ctx):
    fx = ctx.facts("default")
    fixtures.run(ctx, ['pair', 'tagkind', 'scratch', 'varint', 'capsrc', 'shared'])
    ev = 0
    w, r = need(fx, PZ + "apply_compression_strategy"), need(fx, PZ + "decompress_match")
    ctx.analysed_fns.update([w.id, r.id])
    ev += arm_pair(ctx, fx, w, r, ["CompressionType"], "pazip-bytes")
    w, r = need(fx, CT + "encode_match"), need(fx, CT + "decode_match")
    ctx.analysed_fns.update([w.id, r.id])
    ev += arm_pair(ctx, fx, w, r, ["Match", "CompressionType"], "pazip-bits")
    ctx.instance("R-PAIR.events", ev)
    ctx.floor("R-PAIR.arms", 12)
    ctx.floor("R-PAIR.events", 24)
    # tag -> variant tables
    n = 0
    for fid in (CT + "CompressionType::from_u8", PZ + "decompress"):
        if fx.has(fid):
            n += tagmap.check(ctx, fx, Fn(fx.raw(fid)), CT + "CompressionType")
    for fid in fx.fn_ids("src/compression/dict_zip/compressor.rs"):
        if fid.endswith("::decompress_sequential") or fid.endswith("::decompress_data"):
            n += tagmap.check(ctx, fx, Fn(fx.raw(fid)), CT + "CompressionType")
    ctx.instance("R-PAIR.tag.arms", n)
    ctx.floor("R-PAIR.tag.arms", 8)
    # framing of the per-algorithm compressors: compress <-> decompress (strong events)
    for st in ("HuffmanCompressor", "RansCompressor", "DictCompressor"):
        c = "<compression::%s as compression::Compressor>::compress" % st
        d = "<compression::%s as compression::Compressor>::decompress" % st
        if fx.has(c) and fx.has(d):
            cf, df = Fn(fx.raw(c)), Fn(fx.raw(d))
            ws, wo = pair.fn_sequences(cf, "w")
            rs, ro = pair.fn_sequences(df, "r")
            pair.compare(ctx, "R-PAIR.frame", st, cf, ws, df, rs, opaque=wo or ro, mode="strong")
            ctx.instance("R-PAIR.frame.pairs")
    ctx.floor("R-PAIR.frame.pairs", 3)
    # R-SYM over every impl Compressor + front ends
    fl = sym.Flow(fx)
    k = 0
    for imp in fx.impls:
        if not (imp.get("trait") or "").endswith("compression::Compressor"):
            continue
        c = [i for i in imp["items"] if i.endswith("::compress")]
        d = [i for i in imp["items"] if i.endswith("::decompress")]
        if not c or not d:
            continue
        cf, df = Fn(fx.raw(c[0])), Fn(fx.raw(d[0]))
        pc = [i for i in range(1, cf.nargs + 1) if "[u8]" in cf.ty(i)]
        pd = [i for i in range(1, df.nargs + 1) if "[u8]" in df.ty(i)]
        _, s1 = fl.kinds(cf, pc, lambda *a: False)
        _, s2 = fl.kinds(df, pd, lambda *a: False)
        sk, lk = sym.ret_kinds(s1), sym.ret_kinds(s2)
        if not sk and not lk:
            continue
        ctx.analysed_fns.update([cf.id, df.id])
        sym.compare(ctx, "R-SYM", imp["self_ty"].rsplit("::", 1)[-1], sk, lk, cf, df, match_stems=False)
        k += 1
    # real-time front end (async bodies): compress_internal / handle_timeout vs decompress
    RT = "compression::realtime::RealtimeCompressor::"
    store_k = {}
    for name in ("compress_internal::{closure#0}", "handle_timeout::{closure#0}"):
        if fx.has(RT + name):
            f = Fn(fx.raw(RT + name))
            src = [l for l in range(f.nargs + 1, len(f.locals)) if f.ty(l) == "&[u8]"]
            _, st = fl.kinds(f, src, lambda *a: False)
            for kk, vv in sym.ret_kinds(st).items():
                store_k.setdefault(kk, set()).update(vv)
            ctx.analysed_fns.add(f.id)
    if fx.has(RT + "decompress::{closure#0}") and store_k:
        f = Fn(fx.raw(RT + "decompress::{closure#0}"))
        src = [l for l in range(f.nargs + 1, len(f.locals)) if f.ty(l) == "&[u8]"]
        _, st = fl.kinds(f, src, lambda *a: False)
        sym.compare(ctx, "R-SYM", "RealtimeCompressor", store_k, sym.ret_kinds(st),
                    Fn(fx.raw(RT + "compress_internal::{closure#0}")), f, match_stems=False)
        k += 1
    ctx.instance("R-SYM.pairs", k)
    # tagged frames of the real-time front end: the tag determines what was done to the payload
    tagkind.run(ctx, fx, "src/compression/realtime.rs")
    ctx.floor("R-TAGKIND.sites", 3)
    # scratch buffers that live in the compressor object are emptied before every use (a second payload, a second block)
    structs = sorted({(fx.raw(f)['file'], (fx.raw(f)['self_ty'] or '').split('<')[0]) for f in fx.fn_ids()
                      if (fx.raw(f)['file'].startswith('src/compression/') or ctx.tier == 'thorough') and fx.raw(f)['self_ty'] and '::tests::' not in f})
    for file, st in structs:
        scratch.run(ctx, fx, file, st)
    ctx.instance("R-SCRATCH.structs", len(structs))
    ctx.floor("R-SCRATCH.structs", 40)
    ctx.floor("R-SCRATCH.producers", 1)
    # size fields written as LEB128: the continuation test sits exactly at the 7-bit limit
    trunc.writer_threshold(ctx, fx, [f for f in fx.files() if f.startswith('src/compression/')])
    ctx.floor('R-VARINT.threshold.writers', 1)
    # bounded decompression calls: the bound is a constant or a stored size, never a multiple of the compressed length
    capsrc.run(ctx, fx, [f for f in fx.files() if f.startswith('src/compression/') or ctx.tier == 'thorough'])
    ctx.floor('R-CAPSRC.sites', 1)
    # block-wise compression: blocks are not gathered in completion order (no parallel driver on the pinned tree;
    # the fixture keeps the rule alive)
    order.shared_accumulator(ctx, fx, [f for f in fx.files() if f.startswith('src/compression/') or ctx.tier == 'thorough'])
    ctx.floor("R-SYM.pairs", 8)
    return dict(
        level_note="decides layout/tag agreement per match type and store/load path symmetry; match finding, the suffix-array "
                   "matcher, codec correctness and the round trip itself are NOT decided",
        explanation="R-PAIR: event sequences (byte widths+endianness, bit counts, helper stems) over the successful acyclic paths "
                    "of each enum arm of the writer must equal those of the reader's arm for the same variant. R-PAIR.tag: "
                    "integer->variant tables map k to the variant with discriminant k. R-SYM: def-use path kinds (identity / "
                    "through a transforming call) from the payload to the result of compress must be mirrored by decompress. R-TAGKIND: over "
                    "all `tagged(tag, payload)` sites of realtime.rs the relation (tag constant, payload kind) is one-to-one, with "
                    "framing helpers expanded into their callers.",
        trusted_base=["rustc nightly MIR", "zfacts", "rules/pair.py", "rules/sym.py", "rules/tagmap.py", "rules/tagkind.py", "rules/scratch.py"],
        rule_text="obligation = (writer arm, reader arm) | tag arm | (compress, decompress) pair | (scratch producer, field)",
    )
