"""C03 (partial): every wrapper store inverts on get what it applied on put, on every put path
(R-SYM); a saved and loaded store carries every persistent field (R-FLOW); file headers agree
between writer and reader (R-PAIR)."""
import re

from vlib import fixtures
from rules import sym, flow, pair, sibling, tagkind, capsrc, narrow, order
from vlib.mir import Fn, op_local
from vlib.run import Broken

ZO = "blob_store::zip_offset::"
DZ = "compression::dict_zip::blob_store::DictZipBlobStore::"


def run(ctx):
    fx = ctx.facts("default")
    fixtures.run(ctx, ['pair', 'batch', 'delegate', 'serde', 'record', 'capsrc', 'pairaccess', 'flow', 'hint', 'builder'])
    # batch operations do to the store's state what the single-item operations do
    bfiles = sorted({fx.raw(f)['file'] for f in fx.fn_ids() if fx.raw(f)['file'].startswith('src/blob_store/') or fx.raw(f)['file'] == 'src/compression/dict_zip/blob_store.rs'})
    sibling.batch_effects(ctx, fx, bfiles)
    ctx.floor('R-SIBLING.batch.pairs', 6)
    # wrapper stores answer from the store they wrap
    sibling.wrapper_delegation(ctx, fx)
    ctx.floor('R-DELEGATE.methods', 20)
    # serde round trip of the store structs restores every field (id counters included)
    flow.serde_fields_restored(ctx, fx, r'BlobStore$')
    ctx.floor('R-FLOW.serde.visitors', 6)
    # DictZip: the flags kept next to a blob (is_compressed, entropy_algorithm) follow what was done to its bytes
    dzput = "<compression::dict_zip::blob_store::DictZipBlobStore as blob_store::traits::BlobStore>::put"
    if not fx.has(dzput):
        raise Broken("anchor function %s not found" % dzput)
    tagkind.record_sites(ctx, fx, "src/compression/dict_zip/blob_store.rs", "compression::dict_zip::blob_store::CompressedBlob", "compressed_data",
                         ["is_compressed", "entropy_algorithm"])
    ctx.floor('R-TAGKIND.record.sites', 2)
    # bounded decompression in the stores (none on the pinned tree besides the async wrapper; the fixture keeps the rule alive)
    capsrc.run(ctx, fx, bfiles + ['src/concurrency/async_blob_store.rs'])
    # ids are booked per record consumed, never from an iterator's size_hint (zero sites on the pinned tree)
    capsrc.hint_only_reserves(ctx, fx, fx.files() if ctx.tier == 'thorough' else bfiles)
    # bulk builders: what add_record/push collected is read when the builder is finished
    nb = 0
    for f in bfiles:
        for st in sorted({(fx.raw(i)['self_ty'] or '').split('<')[0] for i in fx.fn_ids(f) if '::tests::' not in i}):
            if st.endswith('Builder') and fx.adts.get(st):
                nb += 1
                flow.builder_consumes(ctx, fx, f, st)
    ctx.instance('R-FLOW.builder.structs', nb)
    ctx.floor('R-FLOW.builder.structs', 4)
    ctx.floor('R-FLOW.builder.fields', 4)
    # the trie-store builder accepts a key several times and the last value wins: its sort keeps insertion order
    # among equal keys (comparators look at the key only)
    nsort = 0
    for fid in fx.fn_ids('src/blob_store/nest_louds_trie_blob_store.rs'):
        rec = fx.raw(fid)
        if '::tests::' in fid or not (rec['self_ty'] or '').split('<')[0].endswith('NestLoudsTrieBlobStoreBuilder'):
            continue
        f = Fn(rec)
        if any(re.search(r'::sort(_unstable)?(_by(_key|_cached_key)?)?$', c['f']) for b, c in f.calls()):
            nsort += order.forbidden_in(ctx, f, r'::sort_unstable(_by(_key)?)?$', 'R-STABLE',
                                        'entries with equal keys keep their insertion order (stable sort)', depth=0)
    ctx.instance('R-STABLE.sorts', nsort)
    ctx.floor('R-STABLE.sorts', 1)
    # the offset index hands out (offsets[i], offsets[i+1]): the second is located from i + 1
    narrow.pair_accessor(ctx, fx, "blob_store::sorted_uint_vec::SortedUintVec::get2")
    fl = sym.Flow(fx)
    nimpl = 0
    nwrap = 0

    def is_inner_put(fn, loc, c, l):
        return c["f"].rsplit("::", 1)[-1] in ("put", "put_batch") and len(c["a"]) >= 2 and op_local(c["a"][1]) == l

    for imp in fx.impls:
        if imp.get("trait") != "blob_store::traits::BlobStore":
            continue
        nimpl += 1
        put = [i for i in imp["items"] if i.endswith("::put")]
        get = [i for i in imp["items"] if i.endswith("::get")]
        if not put or not get or not fx.has(put[0]) or not fx.has(get[0]):
            continue
        pf, gf = Fn(fx.raw(put[0])), Fn(fx.raw(get[0]))
        sk, _ = fl.kinds(pf, [2], is_inner_put)
        srcs = [c["d"][0] for b, c in gf.calls()
                if c["f"].rsplit("::", 1)[-1] == "get" and c["f"] != get[0]
                and ("BlobStore" in c["f"] or "BlobStore" in c.get("st", ""))]
        if not sk and not srcs:
            continue          # not a wrapper around an inner store
        _, state = fl.kinds(gf, srcs, lambda *a: False)
        lk = sym.ret_kinds(state)
        ctx.analysed_fns.update([pf.id, gf.id])
        nwrap += 1
        sym.compare(ctx, "R-SYM", imp["self_ty"].rsplit("::", 1)[-1], sk, lk, pf, gf)
    ctx.instance("R-SYM.blobstore_impls", nimpl)
    ctx.instance("R-SYM.wrappers", nwrap)
    ctx.floor("R-SYM.blobstore_impls", 12)
    ctx.floor("R-SYM.wrappers", 4)
    # DictZip entropy stage: encode helper vs decode helper (codec family)
    if fx.has(DZ + "apply_huffman_o1_encoding") and fx.has(DZ + "decode_huffman_o1"):
        ef, df = Fn(fx.raw(DZ + "apply_huffman_o1_encoding")), Fn(fx.raw(DZ + "decode_huffman_o1"))
        _, s1 = fl.kinds(ef, [i for i in range(1, ef.nargs + 1) if "[u8]" in ef.ty(i)], lambda *a: False)
        _, s2 = fl.kinds(df, [i for i in range(1, df.nargs + 1) if "[u8]" in df.ty(i)], lambda *a: False)
        sym.compare(ctx, "R-SYM", "DictZip entropy stage", sym.ret_kinds(s1), sym.ret_kinds(s2), ef, df)
        ctx.analysed_fns.update([ef.id, df.id])
        ctx.instance("R-SYM.dictzip")
    else:
        raise Broken("DictZipBlobStore entropy helpers not found")
    # persistent fields of the offset-indexed store
    sv, ld = ZO + "ZipOffsetBlobStore::save_to_writer", ZO + "ZipOffsetBlobStore::load_from_reader"
    if not (fx.has(sv) and fx.has(ld)):
        raise Broken("save_to_writer / load_from_reader not found")
    sf, lf = Fn(fx.raw(sv)), Fn(fx.raw(ld))
    ctx.analysed_fns.update([sv, ld])
    for fld in ("ZipOffsetBlobStore::content", "ZipOffsetBlobStore::offsets"):
        ok = flow.field_reaches_sink(sf, fld, r"Write::write_all$|Write>::write_all$|::write_all$")
        ctx.obligation("R-FLOW", sv, "writes " + fld.rsplit("::", 1)[-1], ok,
                       sample={"fn": sv, "field": fld, "content_reaches_write_all": ok})
        if not ok:
            ctx.violation("R-FLOW", sv, "field %s never written" % fld.rsplit("::", 1)[-1],
                          "save_to_writer writes no bytes derived from the content of %s (only its size): a saved store "
                          "cannot answer get after load" % fld, sf.file, sf.line)
        ok = flow.source_reaches_field(lf, r"Read::read_exact$|Read>::read_exact$|::read_exact$|Read::read_to_end$", fld, fx=fx)
        ctx.obligation("R-FLOW", ld, "restores " + fld.rsplit("::", 1)[-1], ok,
                       sample={"fn": ld, "field": fld, "read_bytes_reach_field": ok})
        if not ok:
            ctx.violation("R-FLOW", ld, "field %s never restored" % fld.rsplit("::", 1)[-1],
                          "load_from_reader never stores bytes it read into %s" % fld, lf.file, lf.line)
    ctx.instance("R-FLOW.fields", 4)
    # header layout
    tb, fb = ZO + "FileHeader::to_bytes", ZO + "FileHeader::from_bytes"
    if fx.has(tb) and fx.has(fb):
        wf, rf = Fn(fx.raw(tb)), Fn(fx.raw(fb))
        ws, wo = pair.fn_sequences(wf, "w")
        rs, ro = pair.fn_sequences(rf, "r")
        ev = pair.compare(ctx, "R-PAIR", "zip_offset::FileHeader", wf, ws, rf, rs, opaque=wo or ro, mode="strong")
        ctx.instance("R-PAIR.events", ev)
        ctx.floor("R-PAIR.events", 4)
    return dict(
        level_note="decides store/load path symmetry of the wrapper stores, persistence of the offset store's fields and "
                   "header layout agreement; id monotonicity, len/contains/size bookkeeping, offset arithmetic and bitmap "
                   "logic are value-level and NOT decided",
        explanation="R-SYM: kinds of def-use paths (identity / through a transforming call, with the callee stem) from the "
                    "put payload to inner.put and from inner.get to the returned bytes must mirror each other, for every "
                    "impl BlobStore that wraps an inner store, and for the DictZip entropy stage helpers. R-FLOW: content "
                    "(not size) of each persistent field reaches write_all / is restored from read bytes. R-PAIR on the header.",
        trusted_base=["rustc nightly MIR", "zfacts", "rules/sym.py", "rules/flow.py", "rules/pair.py"],
        rule_text="obligation = (wrapper put, get) pair | persistent field x {save, load} | header pair",
    )
