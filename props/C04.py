"""C04 (two clauses): select1(k)/select0(k) refuse k >= count with an error and get/rank refuse an
out-of-range position before any unchecked word access; BitVector's shrinking methods clear the storage they
vacate (R-SHRINK: the rank/select builders popcount whole words). Numeric correctness is NOT decided."""
from vlib import fixtures
from props import _refusal_common as rc
from rules import shrink, tailmask

FILES = ['src/succinct/bit_vector.rs', 'src/succinct/rank_select/mod.rs', 'src/succinct/rank_select/interleaved.rs',
         'src/succinct/rank_select/separated.rs', 'src/succinct/rank_select/separated_512.rs',
         'src/succinct/rank_select/simple.rs', 'src/succinct/rank_select/few.rs', 'src/succinct/rank_select/trivial.rs',
         'src/succinct/rank_select/mixed_il_256.rs', 'src/succinct/rank_select/adaptive.rs',
         'src/succinct/rank_select/multidim_simd.rs', 'src/succinct/rank_select/simd.rs',
         'src/succinct/rank_select/bmi2_acceleration.rs', 'src/succinct/rank_select/bmi2_comprehensive.rs']


def run(ctx):
    fx = ctx.facts("default")
    fixtures.run(ctx, ['taint', 'shrink', 'tailmask', 'rawwords'])
    # rank/select builders popcount whole words: BitVector must clear what it vacates
    shrink.run(ctx, fx, 'src/succinct/bit_vector.rs', 'succinct::bit_vector::BitVector', 'len', 'blocks')
    ctx.floor('R-SHRINK.methods', 2)
    # the same invariant at the other door: raw words supplied by a caller enter a structure only behind a tail mask
    shrink.raw_words_masked(ctx, fx, [f for f in fx.files() if f.startswith('src/succinct/')])
    ctx.floor('R-RAWWORDS.constructors', 1)
    # the valid bits of the last word: (1 << (n % 64)) - 1 is only right for the word at n / 64
    tailmask.run(ctx, fx, FILES)
    ctx.floor('R-TAILMASK.masks', 6)
    rc.accessors(ctx, fx, FILES, r'^select[01](_.*)?$', "R-GUARD.refusal", all_success=True)
    ctx.floor("R-GUARD.refusal.accessors", 15)
    rc.unsafe_sinks(ctx, fx, FILES, "R-GUARD")
    ctx.floor("R-GUARD.entries", 60)
    return dict(
        level_note="decides the refusal clause of C04 (select refuses k >= count; positions are checked before unchecked "
                   "access) and the storage invariant 'bits beyond len are cleared by pop/resize/clear' that every whole-word popcount relies on. Rank directories, in-word select, block boundaries and agreement between implementations - the "
                   "substance of C04 - are value-level and NOT decided.",
        explanation="refusal form of R-GUARD: for every select1/select0 (incl. accelerated variants) the rank parameter must be "
                    "compared with a count-derived value on an edge that cannot reach a successful return, or be forwarded to a "
                    "callee checked the same way; index-like parameters of all public/trait functions of the files must be "
                    "guarded before get_unchecked / pointer arithmetic. R-RAWWORDS: a public constructor under src/succinct that takes a "
                    "Vec<u64> of raw words and a bit count moves the vector on (into a callee or the built value) only if it or the "
                    "receiving callee clears bits of a stored word.",
        trusted_base=["rustc nightly MIR", "zfacts", "rules/refusal.py", "rules/taint.py", "rules/shrink.py", "rules/tailmask.py"],
        rule_text="obligation = (accessor, index-like parameter) | unchecked sink with a parameter-derived operand",
    )
