"""C05 (partial): every trie operation routes every TrieStorage variant to a back end of the same
strategy that consumes the key; create_storage maps each strategy to its storage; num_keys is
maintained only by insert/remove/clear; the Patricia pruning loop of remove stops at final nodes (R-PRUNE);
the DAWG state signature covers every state flag that lookups read (R-SIGNATURE)."""
from vlib import fixtures
from rules import variant, prune, signature, sibling
from vlib.mir import Fn, op_place, rv_operands
from vlib.run import Broken

FILE = "src/fsa/zipora_trie.rs"
ENUM = "fsa::zipora_trie::TrieStorage"
# operations the property talks about (set membership, enumeration, automaton view)
OPS = ("::insert", "::contains", "::remove", "::keys", "::keys_with_prefix",
       "FiniteStateAutomaton>::is_final", "FiniteStateAutomaton>::transition", "FiniteStateAutomaton>::transitions")


def run(ctx):
    fx = ctx.facts("default")
    fixtures.run(ctx, ['variant', 'prune', 'signature', 'keylimit'])
    # removal unlinks dead-end chains but stops at nodes that are keys themselves
    prune.run(ctx, fx, FILE, "fsa::zipora_trie::PatriciaNode")
    ctx.floor("R-PRUNE.unlink_loops", 1)
    # insert and the lookups of the LOUDS back end bound the key length alike
    sibling.key_length_limits(ctx, fx, "src/fsa/zipora_trie.rs")
    ctx.floor("R-SIBLING.keylimit.sites", 1)   # one shared helper is a legitimate shape
    # DAWG minimisation: the state signature covers every flag that lookups read
    signature.run(ctx, fx, "src/fsa/dawg.rs", "fsa::dawg::DawgState")
    ctx.floor("R-SIGNATURE.flags", 1)
    ops = variant.run(ctx, fx, FILE, ENUM, "ZiporaTrie::storage",
                      only=lambda fid: any(fid.endswith(o) for o in OPS))
    ctx.floor("R-VARIANT.operations", 8)
    ctx.floor("R-VARIANT.arms", 40)
    # create_storage: strategy variant -> storage variant of the same name
    cs = [i for i in fx.fn_ids(FILE) if i.endswith("::create_storage")]
    if not cs:
        raise Broken("create_storage not found")
    fn = Fn(fx.raw(cs[0]))
    ctx.analysed_fns.add(fn.id)
    strat = fx.adts.get("fsa::zipora_trie::TrieStrategy")
    if strat is None:
        raise Broken("TrieStrategy enum not found")
    names = {int(v["discr"]) if v["discr"] is not None else i: v["name"] for i, v in enumerate(strat["variants"])}
    n = 0
    for b in fn.blocks():
        t = fn.term(b)
        if t[0] != "sw":
            continue
        l = t[1][1][0] if t[1][0] in ("c", "m") else None
        ds = fn.defs(l) if l is not None else []
        if len(ds) != 1 or ds[0][1] != "assign" or ds[0][2][2][0] != "disc" or "TrieStrategy" not in (ds[0][2][2][2] if len(ds[0][2][2]) > 2 else ""):
            continue
        targets = {int(v): tgt for v, tgt in t[2]}
        allt = set(targets.values()) | {t[3]}
        for d, sname in names.items():
            tgt = targets.get(d, t[3])
            region = variant.arm_region(fn, b, tgt, allt)
            built = set()
            for bb in region:
                for s in fn.stmts(bb):
                    if s[0] == "a" and s[2][0] == "agg" and isinstance(s[2][1], str) and s[2][1].startswith("adt:" + ENUM + "::"):
                        built.add(s[2][1].rsplit("::", 1)[-1])
            n += 1
            ok = built == {sname} or (not built and d not in targets)
            ctx.obligation("R-VARIANT.create", fn.id, sname, ok, sample={"strategy": sname, "storage_built": sorted(built)})
            if not ok:
                ctx.violation("R-VARIANT.create", fn.id, "strategy %s" % sname,
                              "create_storage maps strategy %s to storage %s" % (sname, sorted(built)), fn.file, fn.line)
    ctx.instance("R-VARIANT.create.arms", n)
    ctx.floor("R-VARIANT.create.arms", 5)
    # who may write stats.num_keys
    writers = set()
    for fid in fx.fn_ids(FILE):
        if "::tests::" in fid:
            continue
        f = Fn(fx.raw(fid))
        for loc, st in f.iter_locs():
            if st[0] == "a" and len(st[1]) > 1 and isinstance(st[1][-1], str) and st[1][-1].endswith("TrieStats::num_keys"):
                writers.add(fid)
    allowed = ("::insert", "::insert_and_get_node_id", "::remove", "::clear", "::new", "::with_config", "::update_stats")
    for w in sorted(writers):
        ok = any(w.endswith(a) or (a + "::") in w for a in allowed)
        ctx.obligation("R-ORDER.who", w, "writes num_keys", ok)
        if not ok:
            ctx.violation("R-ORDER.who", w, "writes num_keys", "stats.num_keys is written outside insert/remove/clear", FILE, None)
    ctx.instance("R-ORDER.who.writers", len(writers))
    ctx.floor("R-ORDER.who.writers", 2)
    return dict(
        level_note="decides the per-strategy routing clause of C05 (every operation x every storage variant reaches a "
                   "same-family back end that consumes the key). Patricia split/merge, double-array relocation, LOUDS label "
                   "search and enumeration order are value-level and NOT decided.",
        explanation="R-VARIANT: for each operation that switches on the discriminant of ZiporaTrie::storage, the blocks "
                    "exclusive to each variant's arm must read the variant payload or use the key, the crate-local callee "
                    "receiving the key must read that parameter, and its name must not carry another variant's stem; "
                    "create_storage arms must build the storage variant named like the strategy; who-may-write on num_keys.",
        trusted_base=["rustc nightly MIR", "zfacts", "rules/variant.py", "the operation list in props/C05.py"],
        rule_text="obligation = (operation, storage variant); all are non-trivial",
    )
