"""C06 (partial): the in-band occupancy marker never receives an unsanitised hash (R-TAINT-S);
every map operation routes every HashMapStorage variant to a back end that consumes the key."""
from vlib import fixtures
from rules import sentinel, variant

FILE = "src/hash_map/zipora_hash_map.rs"
OPS = ("::insert", "::get", "::get_mut", "::remove", "::clear", "::len")


def run(ctx):
    fx = ctx.facts("default")
    fixtures.run(ctx, ['variant', 'probe'])
    sents, _ = sentinel.run(ctx, fx, FILE, "hash_map::zipora_hash_map::HashEntry::hash")
    sentinel.completeness(ctx, fx, FILE, "hash_map::zipora_hash_map::HashEntry::hash", sents)
    sentinel.probe_past_tombstones(ctx, fx, FILE, "hash_map::zipora_hash_map::HashEntry::hash", sents)
    ctx.floor("R-PROBE.probes", 1)
    ctx.floor("R-TAINT-S.complete.enumerators", 1)
    ctx.floor("R-TAINT-S.sources", 4)
    ctx.floor("R-TAINT-S.sinks", 5)
    ctx.floor("R-TAINT-S.sentinels", 2)
    variant.run(ctx, fx, FILE, "hash_map::zipora_hash_map::HashMapStorage", "ZiporaHashMap::storage",
                only=lambda fid: any(fid.endswith(o) for o in OPS) and "ZiporaHashMap::<K, V, S>::" in fid)
    ctx.floor("R-VARIANT.operations", 6)
    ctx.floor("R-VARIANT.arms", 24)
    # SmallMap: every operation handles both the inline and the promoted representation
    variant.run(ctx, fx, "src/containers/specialized/small_map.rs", "containers::specialized::small_map::SmallMapStorage",
                "SmallMap::storage", rule="R-VARIANT.smallmap", panic_only=True)
    ctx.floor("R-VARIANT.smallmap.operations", 5)
    return dict(
        level_note="decides two structural clauses of C06 (sentinel sanitisation of caller-supplied hashes; per-strategy "
                   "routing). Probe sequences, tombstone reuse, resize and iteration completeness are value-level and NOT decided.",
        explanation="R-TAINT-S: sentinels are read from the comparisons against HashEntry.hash; every def-use path from "
                    "Hasher::finish to a store into / comparison with that field must pass a function that compares its "
                    "argument with every sentinel (inferred structurally). R-VARIANT as in C05 over HashMapStorage.",
        trusted_base=["rustc nightly MIR", "zfacts", "rules/sentinel.py", "rules/variant.py"],
        rule_text="obligation = (hash sink) | (operation, storage variant)",
    )
