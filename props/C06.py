"""C06 (partial): the in-band occupancy marker never receives an unsanitised hash (R-TAINT-S); enumerators exclude
every sentinel; insertion probes search past deleted slots (R-PROBE); every function maps a hash to a slot the same
way (R-SIBLING.index); every map operation routes every HashMapStorage variant to a back end that consumes the key."""
from vlib import fixtures
from rules import sentinel, variant, parallel, simdsign

FILE = "src/hash_map/zipora_hash_map.rs"
OPS = ("::insert", "::get", "::get_mut", "::remove", "::clear", "::len")


def run(ctx):
    fx = ctx.facts("default")
    fixtures.run(ctx, ['variant', 'probe', 'sibling', 'parallel', 'clear', 'padmask', 'markcount'])
    sents, _ = sentinel.run(ctx, fx, FILE, "hash_map::zipora_hash_map::HashEntry::hash")
    sentinel.completeness(ctx, fx, FILE, "hash_map::zipora_hash_map::HashEntry::hash", sents)
    sentinel.probe_past_tombstones(ctx, fx, FILE, "hash_map::zipora_hash_map::HashEntry::hash", sents)
    ctx.floor("R-PROBE.probes", 1)
    sentinel.index_reduction_agreement(ctx, fx, FILE, "hash_map::zipora_hash_map::HashEntry::hash")
    ctx.floor("R-SIBLING.index.sites", 4)
    # GoldHashMap keeps the cached hash of entries[i] in hash_cache[i]
    parallel.run(ctx, fx, "src/hash_map/gold_hash_map.rs", "hash_map::gold_hash_map::GoldHashMap", "entries", "hash_cache")
    ctx.floor("R-PARALLEL.functions", 2)
    # the companion vector is built slot by slot; a slot counted as deleted carries the deleted marker
    parallel.companion_built_per_entry(ctx, fx, "src/hash_map/gold_hash_map.rs", "hash_map::gold_hash_map::GoldHashMap", "hash_cache")
    ctx.floor("R-PARALLEL.build.loops", 1)
    parallel.deleted_count_marks(ctx, fx, "src/hash_map/gold_hash_map.rs", "hash_map::gold_hash_map::GoldHashMap", "freelist_size",
                                 ".hash_map::gold_hash_map::Entry::link", "L")
    ctx.floor("R-MARKCOUNT.increments", 1)
    parallel.clear_all(ctx, fx, ["src/hash_map/gold_hash_map.rs", "src/hash_map/zipora_hash_map.rs", "src/hash_map/gold_hash_idx.rs",
                                 "src/containers/specialized/small_map.rs"])
    ctx.floor("R-CLEAR.fields", 3)
    # SIMD key search over a partially filled inline array: the zero padding does not match key 0
    simdsign.padded_mask(ctx, fx, ['src/containers/specialized/small_map.rs', 'src/hash_map/cache_locality.rs',
                                   'src/hash_map/zipora_hash_map.rs', 'src/hash_map/gold_hash_map.rs'])
    ctx.floor("R-PADMASK.sites", 2)
    ctx.floor("R-TAINT-S.complete.enumerators", 1)
    ctx.floor("R-TAINT-S.sources", 4)
    ctx.floor("R-TAINT-S.sinks", 5)
    ctx.floor("R-TAINT-S.sentinels", 2)
    variant.run(ctx, fx, FILE, "hash_map::zipora_hash_map::HashMapStorage", "ZiporaHashMap::storage",
                only=lambda fid: any(fid.endswith(o) for o in OPS) and "ZiporaHashMap::<K, V, S>::" in fid)
    ctx.floor("R-VARIANT.operations", 6)
    ctx.floor("R-VARIANT.arms", 24)
    # SmallMap: every operation handles both the inline and the promoted representation
    variant.run(ctx, fx, "src/containers/specialized/small_map.rs", "containers::specialized::small_map::SmallMapStorage",
                "SmallMap::storage", rule="R-VARIANT.smallmap", panic_only=True)
    ctx.floor("R-VARIANT.smallmap.operations", 5)
    return dict(
        level_note="decides five structural clauses of C06 (sentinel sanitisation of caller-supplied hashes incl. enumerators; "
                   "insertion never settles on a deleted slot before the probe path is exhausted; all hash-to-slot "
                   "reductions agree; per-strategy routing). Probe-sequence values, resize contents and iteration order are "
                   "value-level and NOT decided.",
        explanation="R-TAINT-S: sentinels are read from the comparisons against HashEntry.hash; every def-use path from "
                    "Hasher::finish to a store into / comparison with that field must pass a function that compares its "
                    "argument with every sentinel (inferred structurally). R-PROBE: from the 'marker == tombstone' edge no store "
                    "into the marker is reachable within the same loop iteration without first taking the 'marker == empty' edge. "
                    "R-SIBLING.index: the binary operator applied to `hash as usize` (BitAnd vs Rem) is the same in every "
                    "function of the file. R-PARALLEL: GoldHashMap.entries and .hash_cache are reshaped by the same kind of Vec "
                    "operation in every function. R-PARALLEL.build: the loop that builds a new hash_cache pushes on every iteration. R-MARKCOUNT: "
                    "wherever freelist_size is incremented, the deleted marker is stored into Entry::link before it or on every path after "
                    "it (in the function or around each of its call sites). R-VARIANT as in C05 over HashMapStorage.",
        trusted_base=["rustc nightly MIR", "zfacts", "rules/sentinel.py", "rules/variant.py", "rules/parallel.py"],
        rule_text="obligation = (hash sink) | (operation, storage variant)",
    )
