"""C07 (partial): capacity guards cannot be wrapped by the request size (R-ARITH/R-GUARD); blocks are
filed under the class they were carved at (R-CLASS); RAII guards are tied to their pool (R-OWN +
witnesses); freed chunks are handed back, never dropped (R-LINEAR); a live arena is never freed by
an allocation path (R-ARENA)."""
from vlib import fixtures
from vlib.run import Broken
import re

from rules import linear, own, taint, sync, refusal, release
from vlib import witness
from vlib.mir import Fn

FILES = ['src/memory/secure_pool.rs', 'src/memory/lockfree_pool.rs', 'src/memory/threadlocal_pool.rs',
         'src/memory/fixed_capacity_pool.rs', 'src/memory/five_level_pool.rs', 'src/memory/pool.rs', 'src/memory/bump.rs',
         'src/memory/tiered.rs', 'src/memory/mmap.rs', 'src/memory/cache.rs', 'src/memory/hugepage.rs']
ENT = re.compile(r'^(alloc|allocate|alloc_bytes|alloc_slice|alloc_aligned|allocate_aligned|allocate_bulk|malloc|reserve|alloc_zeroed)')
SIZE_NAMES = ('size', 'align', 'count', 'len', 'alignment', 'capacity', 'n', 'additional', 'bytes')


def run(ctx):
    fx = ctx.facts("default")
    fixtures.run(ctx, ['linear', 'taint', 'commit', 'relink', 'viewcursor', 'locksplit', 'region', 'rangedep', 'release'])
    # (1) request sizes are untrusted integers for the allocator entry points
    cl = taint.new_closure(fx)
    n = 0
    for f in FILES:
        for fid in fx.fn_ids(f):
            if '::tests::' in fid or '{closure' in fid or fx.cg[fid]['vis'] != 'pub':
                continue
            if not ENT.search(fid.rsplit('::', 1)[-1]):
                continue
            fn = Fn(fx.raw(fid))
            sp = [i for i in range(1, fn.nargs + 1) if fn.ty(i) in ('usize', 'u32', 'u64') and fn.local_name(i) in SIZE_NAMES]
            if sp and cl.seed_entry(fid, buf_params=[], scalar_params=sp):
                n += 1
    res = cl.run()
    k = 0
    for fid, (fn, ft) in sorted(res.items()):
        ctx.analysed_fns.add(fid)
        k += taint.check_sinks(ctx, fn, ft, '', kinds=('unsafe',))
        k += taint.check_arith(ctx, fn, ft)
    ctx.instance("alloc.entries", n)
    ctx.instance("alloc.closure_fns", len(res))
    ctx.floor("alloc.entries", 15)
    ctx.floor("alloc.closure_fns", 40)
    # (2) class-size provenance
    c = 0
    c += linear.size_class(ctx, fx, 'memory::lockfree_pool::LockFreeMemoryPool::allocate_from_fast_bin',
                           r'::size_to_bin_index$', r'::allocate_new_block$')
    c += linear.size_class(ctx, fx, 'memory::threadlocal_pool::ThreadLocalCache::allocate',
                           r'::size_to_list_index$', r'HotArea::try_allocate$|::allocate_new_area_or_fallback$')
    ctx.instance("R-CLASS.carves", c)
    ctx.floor("R-CLASS.carves", 3)
    # (3) guards tied to their pool
    own.run(ctx, fx, FILES)
    ctx.floor("R-OWN.raw_owner_fields", 1)
    witness.run_dir(ctx, "W07", "C07")
    ctx.floor("W07.witnesses", 6)
    # (4) must-consume chunks
    m = 0
    for fid in fx.fn_ids('src/memory/secure_pool.rs'):
        if '::tests::' in fid:
            continue
        m += linear.linear(ctx, Fn(fx.raw(fid)), 'memory::secure_pool::SecureChunk')
        ctx.analysed_fns.add(fid)
    ctx.instance("R-LINEAR.sites", m)
    ctx.floor("R-LINEAR.sites", 6)   # Option/Result/ControlFlow/bare SecureChunk locals produced by calls (containers and references are not owners)
    # (4b) a refused request leaves the cursor untouched: no atomic RMW decides its own refusal without being undone
    rmw = 0
    nrel = 0
    for f in FILES:
        for fid in fx.fn_ids(f):
            if '::tests::' in fid:
                continue
            fnc = Fn(fx.raw(fid))
            rmw += sum(1 for b, op, fld, c in sync.atomic_sites(fnc) if op in ("fetch_add", "fetch_sub", "swap"))
            sync.commit_before_check(ctx, fnc, fx=fx)
            nrel += sync.push_relink(ctx, fnc, fx=fx)
            sync.lock_split(ctx, fnc, fx=fx)
    ctx.instance("R-COMMIT.rmw_sites", rmw)
    ctx.floor("R-COMMIT.rmw_sites", 40)
    ctx.instance("R-ABA.relink.pushes", nrel)
    ctx.floor("R-ABA.relink.pushes", 3)
    # (4c) a recycled mmap region is as long as the request it is handed out for
    linear.view_capacity(ctx, fx, "memory::mmap::MmapAllocation", "size", "actual_size", ["src/memory/mmap.rs"])
    ctx.floor("R-VIEW.constructions", 2)
    # (4e) a pointer handed back to a pool is refused unless it lies inside the pool's region (upper bound included)
    for pf in ("memory::lockfree_pool::LockFreeMemoryPool::ptr_to_offset", "memory::fixed_capacity_pool::FixedCapacityMemoryPool::ptr_to_offset"):
        rec = fx.raw(pf)
        if rec is None:
            raise Broken("%s not found" % pf)
        ctx.analysed_fns.add(pf)
        ctx.instance("R-GUARD.region.validators", refusal.region_upper_bound(ctx, fx, Fn(rec), 2, r"memory_size$|capacity$|total_capacity$"))
    ctx.floor("R-GUARD.region.validators", 2)
    ctx.instance('R-RANGE.dep.pairs', linear.end_from_start(ctx, fx, 'memory::bump::BumpAllocator::bump_range'))
    ctx.floor('R-RANGE.dep.pairs', 1)
    # (4d) the end-of-chunk carve of the five-level pool refuses on the cursor it advances
    linear.guard_on_cursor(ctx, fx, "memory::five_level_pool::NoLockingPool::alloc_from_end")
    # (5) who may drop an arena
    linear.arena(ctx, fx, FILES)
    ctx.floor("R-ARENA.arena_types", 5)
    # a freed block is not written any more (the next owner's contents, the free-list link in its first bytes)
    release.run(ctx, fx, [f for f in fx.files() if f.startswith('src/memory/')])
    ctx.floor('R-RELEASE.releases', 4)
    return dict(
        level_note="decides five structural clauses of C07; disjointness and content retention themselves, alignment "
                   "arithmetic and the double-free detection logic (generation / canary comparisons) are value-level and NOT decided",
        explanation="R-ARITH: a capacity check whose untrusted side is computed with unchecked +,* on a full-width request size can "
                    "wrap; R-CLASS: the amount carved on a class-list miss must depend on the class index; R-OWN + witnesses: raw "
                    "pool pointer in an RAII guard without lifetime/strong reference; R-LINEAR: a SecureChunk produced by a call "
                    "must be moved on every path (Option/Result payload edges followed); R-ARENA: Drop of a field whose type owns "
                    "a raw allocation only in drop/clear/reset/consuming methods.",
        trusted_base=["rustc nightly MIR + borrow checker", "zfacts", "rules/taint.py", "rules/linear.py", "rules/own.py"],
        rule_text="obligation = allocator sink/guard | carve call | guard/owner pair | witness | linear value | arena drop",
    )
