"""C08 (partial): every lock-free free list is ABA-safe by version tag or by lock (R-ABA); tagged
lists advance the tag on push as well; no ownership decision is a non-atomic check-then-act (R-ATOM)."""
from vlib import fixtures
from rules import sync, release, order
from vlib.mir import Fn

FILES = ['src/memory/secure_pool.rs', 'src/memory/lockfree_pool.rs', 'src/memory/five_level_pool.rs',
         'src/memory/fixed_capacity_pool.rs', 'src/memory/pool.rs', 'src/memory/bump.rs', 'src/memory/threadlocal_pool.rs']


def run(ctx):
    fx = ctx.facts("default")
    fixtures.run(ctx, ['aba', 'atom', 'relink', 'locksplit', 'release', 'order'])
    fns = []
    npop = 0
    ncas = 0
    nat = 0
    natom = 0
    nrel = 0
    nsplit = 0
    nlocks = 0
    for f in FILES:
        for fid in fx.fn_ids(f):
            if "::tests::" in fid:
                continue
            fn = Fn(fx.raw(fid))
            fns.append(fn)
            ctx.analysed_fns.add(fid)
            ncas += len(sync.cas_sites(fn))
            nat += len(sync.atomic_sites(fn))
            npop += sync.aba(ctx, fn, fx=fx)
            nrel += sync.push_relink(ctx, fn, fx=fx)
            natom += sync.check_then_act(ctx, fn)
            nsplit += sync.lock_split(ctx, fn, fx=fx)
            nlocks += len(sync.lock_sites(fn))
    # a block is not written after it went back onto a free structure
    release.run(ctx, fx, FILES)
    ctx.floor("R-RELEASE.releases", 4)
    # the secure pool forgets a chunk's tracking record before the chunk becomes visible to other threads
    di = "memory::secure_pool::SecureMemoryPool::deallocate_internal"
    if not fx.has(di):
        from vlib.run import Broken
        raise Broken("anchor function %s not found" % di)
    order.precede(ctx, Fn(fx.raw(di)), r"dashmap::DashMap::<[^>]*>::remove$", r"LockFreeStack::<[^>]*>::push$|LocalCache::try_push$",
                  "R-ORDER.untrack", "tracking record removed before the chunk is published")
    npush = sync.aba_push_tags(ctx, fns, fx=fx)
    sync.load_modify_store(ctx, fns)
    ctx.instance("R-ABA.cas_sites", ncas)
    ctx.instance("R-ABA.cas_pops", npop)
    ctx.instance("R-ABA.push.sites", npush)
    ctx.instance("R-ATOM.atomic_sites", nat)
    ctx.instance("R-LOCKSPLIT.lock_sites", nlocks)
    ctx.floor("R-LOCKSPLIT.lock_sites", 12)
    ctx.instance("R-ABA.relink.pushes", nrel)
    ctx.floor("R-ABA.relink.pushes", 3)
    ctx.floor("R-ABA.cas_sites", 8)
    ctx.floor("R-ABA.cas_pops", 3)
    ctx.floor("R-ABA.push.sites", 1)
    ctx.floor("R-ATOM.atomic_sites", 100)
    return dict(
        level_note="decides the structural well-formedness clause of C08 (ABA safety of every CAS-pop incl. a single head snapshot, tag advance on push, the pushed node relinked inside the retry loop, no "
                   "load-then-RMW ownership decision); linearizability, exactly-once hand-over and counter totals would need "
                   "schedule enumeration (a different technique family) and are NOT decided",
        explanation="R-ABA: a compare_exchange whose new value depends on a memory read through the loaded head (CAS-pop on an "
                    "intrusive list) must carry a version tag advanced by +1 derived from the loaded word, or run under a live "
                    "lock guard; lists popped under a tag must also advance it on every other CAS (push). R-ATOM as in C16.",
        trusted_base=["rustc nightly MIR", "zfacts", "rules/sync.py"],
        rule_text="obligation = CAS-pop site | CAS on a tagged head | atomic check-then-act pair",
    )
