"""C09 (two clauses): reads past the end are refused - every public indexed accessor compares the index
with the logical length before any unchecked access; chunked scans of the values do not drop their tail
(R-REMAINDER); a refusing range check on a stored value is not made after a narrowing cast (R-NARROWCHECK).
Width/strategy/delta arithmetic is NOT decided."""
from vlib import fixtures
from props import _refusal_common as rc
from rules import remainder, narrow, order
from vlib.mir import Fn

FILES = ['src/containers/specialized/int_vec.rs', 'src/containers/specialized/int_vec/int_vec_simd.rs',
         'src/containers/specialized/uint_vector.rs', 'src/containers/uint_vec_min0.rs', 'src/containers/zip_int_vec.rs',
         'src/blob_store/sorted_uint_vec.rs']


def run(ctx):
    fx = ctx.facts("default")
    fixtures.run(ctx, ['taint', 'remainder', 'narrow', 'widthcheck', 'pairaccess'])
    # every stored value is looked at: chunks_exact tails are handled
    remainder.run(ctx, fx, FILES)
    ctx.floor('R-REMAINDER.sites', 1)
    # a delta / value that is range-checked before it is packed is checked at full width
    narrow.run(ctx, fx, fx.files() if ctx.tier == 'thorough' else FILES)
    ctx.floor('R-NARROWCHECK.casts', 8)
    # block base and in-block delta are both refused when they do not fit their configured width
    narrow.packed_value_checked(ctx, fx, "blob_store::sorted_uint_vec::SortedUintVecBuilder",
                                r"::store_(sample|delta)_static$")
    ctx.floor('R-WIDTHCHECK.sites', 2)
    # predicates that pick a strategy which assumes a property of *every* element (sorted -> delta encoder subtracts
    # neighbours; uniform step -> only base and step are stored) look at every element: no strided scan
    npred = 0
    for fid in fx.fn_ids('src/containers/specialized/int_vec.rs'):
        if '::tests::' in fid or '{closure' in fid:
            continue
        if fid.rsplit('::', 1)[-1] in ('fast_sorted_check', 'detect_uniform_delta'):
            npred += order.forbidden_in(ctx, Fn(fx.raw(fid)), r'::step_by$|StepBy<', 'R-SAMPLE',
                                        'whole-sequence predicate inspects every element (no step_by)', depth=1)
    ctx.instance('R-SAMPLE.predicates', npred)
    ctx.floor('R-SAMPLE.predicates', 2)
    # get2(i): the neighbour is located from i + 1, not from element i's block
    narrow.pair_accessor(ctx, fx, "blob_store::sorted_uint_vec::SortedUintVec::get2")
    rc.accessors(ctx, fx, FILES, r'^(get|get2|get_block|set|get_unchecked_checked|at)$', "R-GUARD.refusal")
    ctx.floor("R-GUARD.refusal.accessors", 6)
    rc.unsafe_sinks(ctx, fx, FILES, "R-GUARD")
    ctx.floor("R-GUARD.entries", 10)
    return dict(
        level_note="decides the refusal clause of C09 and that no chunks_exact scan in the C09 files ignores its remainder. Bit-width computation, strategy thresholds, delta/base arithmetic, "
                   "the 64-bit width edge and padding for the trailing unaligned load are value-level and NOT decided.",
        explanation="refusal form of R-GUARD over the indexed accessors of the compressed integer containers: the index parameter "
                    "is compared with the logical length (None / Err / assert panic edge) before any successful return or "
                    "unchecked access that depends on it.",
        trusted_base=["rustc nightly MIR", "zfacts", "rules/refusal.py", "rules/taint.py", "rules/remainder.py", "rules/narrow.py"],
        rule_text="obligation = (accessor, index parameter) | unchecked sink with a parameter-derived operand",
    )
