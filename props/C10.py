"""C10 (three clauses): out-of-range indices and pops from empty containers are reported, a fixed-capacity
queue refuses the push that would exceed its capacity; ring cursors are stored only wrapped (R-WRAP); a loop over
`a..self.f` is not empty by construction (R-EMPTYRANGE: shrinking operations drop what they remove).
Sequence equality with Vec/VecDeque and drop counts are NOT decided."""
from vlib import fixtures
from props import _refusal_common as rc
from rules import wrap, shrink, order, parallel, sibling, linear, narrow
from vlib.mir import Fn
from vlib.run import Broken

FILES = ['src/containers/fast_vec.rs', 'src/containers/specialized/valvec32.rs', 'src/containers/specialized/circular_queue.rs',
         'src/containers/specialized/circular_queue_ultrafast.rs', 'src/containers/specialized/sortable_str_vec.rs',
         'src/containers/specialized/fixed_len_str_vec.rs', 'src/containers/specialized/zo_sorted_str_vec.rs',
         'src/containers/specialized/bit_packed_string_vec.rs', 'src/containers/specialized/advanced_string_vec.rs',
         'src/memory/cache.rs', 'src/memory/bump.rs', 'src/memory/mmap_vec.rs']


def run(ctx):
    fx = ctx.facts("default")
    order.use_facts(fx)
    fixtures.run(ctx, ['state', 'taint', 'wrap', 'emptyrange', 'clear', 'batch', 'rangedep', 'pow2', 'narrowidx', 'panicsafe', 'clearcursors'])
    # ring cursors are only ever stored wrapped; drop loops of shrinking operations are not empty by construction
    wrap.run(ctx, fx, 'src/containers/specialized/circular_queue.rs', 'containers::specialized::circular_queue::AutoGrowCircularQueue')
    # a mask wrap needs a power-of-two capacity
    # head and tail are a pair: a clear() that rewinds one to a constant stores the other on that path too
    for _ring in ('FixedCircularQueue', 'AutoGrowCircularQueue'):
        wrap.clear_resets_both_cursors(ctx, fx, 'src/containers/specialized/circular_queue.rs',
                                       'containers::specialized::circular_queue::' + _ring)
    ctx.floor('R-CLEAR.cursors.clears', 1)
    wrap.mask_needs_power_of_two(ctx, fx, ['src/containers/specialized/circular_queue.rs', 'src/containers/specialized/circular_queue_ultrafast.rs'])
    ctx.floor('R-WRAP.pow2.structs', 1)
    # positions handed in as usize are compared before they are narrowed
    narrow.index_param_narrowed(ctx, fx, FILES)
    # extend from a caller-supplied iterator keeps len in step with the raw writes
    shrink.len_committed_per_item(ctx, fx, FILES)
    ctx.floor('R-PANICSAFE.len.loops', 1)
    ctx.floor('R-WRAP.stores', 5)
    shrink.empty_range(ctx, fx, FILES)
    # clear() empties every collection field of the container
    parallel.clear_all(ctx, fx, FILES)
    ctx.floor('R-CLEAR.structs', 5)
    # bulk operations update at least the state the single-element operations update
    sibling.batch_effects(ctx, fx, FILES, pairs=(("push_back", "push_bulk"), ("pop_front", "pop_bulk"), ("push", "push_n_copy"),
                                                 ("push", "extend_from_slice")))
    ctx.floor('R-SIBLING.batch.pairs', 3)
    # the bump carve reserves what it hands out: end computed from the aligned start
    ctx.instance('R-RANGE.dep.pairs', linear.end_from_start(ctx, fx, 'memory::bump::BumpAllocator::bump_range'))
    ctx.floor('R-RANGE.dep.pairs', 1)
    # MmapVec grows by re-reading its file: the live mapping is written back first, unconditionally
    rec = fx.raw('memory::mmap_vec::MmapVec::<T>::resize_to_capacity')
    if rec is None:
        raise Broken('MmapVec::resize_to_capacity not found')
    order.precede(ctx, Fn(rec), r'MmapVec::<T>::sync$', r'::create_mmap$', 'R-ORDER', 'mapping written back before the file is re-read into the new mapping')
    ctx.floor('R-ORDER.events', 1)
    ctx.floor('R-EMPTYRANGE.ranges', 3)
    rc.unsafe_sinks(ctx, fx, FILES, "R-GUARD")
    ctx.floor("R-GUARD.entries", 25)
    ctx.floor("R-GUARD.unchecked_sinks", 20)
    rc.accessors(ctx, fx, FILES, r'^(get|get_mut|insert|remove|swap_remove|truncate|set|at)$', "R-GUARD.refusal")
    ctx.floor("R-GUARD.refusal.accessors", 12)
    rc.mutators(ctx, fx, FILES, "R-GUARD.state")
    ctx.floor("R-GUARD.state.effects", 15)
    return dict(
        level_note="decides the refusal clause of C10, the wrapped-cursor invariant of AutoGrowCircularQueue and the non-emptiness of field-bounded ranges (index parameters guarded before unchecked access; push/pop examine "
                   "the container's fullness/emptiness before touching a slot). Element sequences, wrap-around copies, growth "
                   "and drop counts are NOT decided.",
        explanation="taint analysis with index-like parameters as untrusted (struct fields are trusted state) over the public "
                    "functions of the container files: every get_unchecked / pointer arithmetic / raw copy operand must be "
                    "guarded; param_refusal on accessors; state_refusal: each raw read/write in push*/pop* is dominated by a "
                    "test of len/count/capacity (helper or field). R-CLEAR.cursors: where clear() of a ring stores a constant into head "
                    "(tail), a store to tail (head) dominates it or lies on every path from it to a normal return.",
        trusted_base=["rustc nightly MIR", "zfacts", "rules/refusal.py", "rules/taint.py", "rules/wrap.py", "rules/shrink.py"],
        rule_text="obligation = unchecked sink | (accessor, index parameter) | (mutator, raw effect)",
    )
