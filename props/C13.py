"""C13 (partial): primitive writers/readers agree on width and endianness in every back end; composite
serialisers and deserialisers agree on field order and prefix kind; per-strategy encode and decode
dispatch tables are inverse."""
from vlib import fixtures
import re

from rules import pair, order, trunc, partial, capsrc, remainder
from rules.variant import storage_switches, arm_region
from vlib.mir import Fn, op_local
from vlib.run import Broken

IO_FILES = ["src/io/var_int.rs", "src/io/var_int_variants.rs", "src/io/data_input.rs", "src/io/data_output.rs",
            "src/io/complex_types.rs", "src/io/smart_ptr.rs", "src/io/versioning.rs", "src/io/mmap.rs",
            "src/io/range_stream.rs", "src/io/stream_buffer.rs", "src/io/zero_copy.rs", "src/io/endian.rs"]
NAME_PAIRS = [("serialize", "deserialize"), ("serialize_with_version", "deserialize_with_version"),
              ("to_bytes", "from_bytes"), ("write_to", "read_from"), ("serialize_to", "deserialize_from")]


def run(ctx):
    fx = ctx.facts("default")
    fixtures.run(ctx, ['pair', 'marker', 'varint', 'partial', 'clamploop', 'remainder'])
    # 1. primitives: every DataOutput::write_K against every DataInput::read_K
    W, Rd = {}, {}
    for fid in fx.fn_ids():
        if "{closure" in fid or "::tests::" in fid:
            continue
        m = re.search(r"DataOutput(>)?::write_(\w+)$", fid)
        if m:
            fn = Fn(fx.raw(fid))
            W.setdefault(m.group(2), []).append((fn, pair.fn_sequences(fn, "w")))
        m = re.search(r"DataInput(>)?::read_(\w+)$", fid)
        if m:
            fn = Fn(fx.raw(fid))
            Rd.setdefault(m.group(2), []).append((fn, pair.fn_sequences(fn, "r")))
    nprim = 0
    for kind in sorted(set(W) & set(Rd)):
        for wf, (ws, wo) in W[kind]:
            for rf, (rs, ro) in Rd[kind]:
                ctx.analysed_fns.update([wf.id, rf.id])
                label = "%s: %s <-> %s" % (kind, wf.rec["self_ty"].rsplit("::", 1)[-1] or "default",
                                           rf.rec["self_ty"].rsplit("::", 1)[-1] or "default")
                nprim += pair.compare(ctx, "R-PAIR.prim", label, wf, ws, rf, rs, opaque=wo or ro, mode="strong")
                ctx.instance("R-PAIR.prim.pairs")
    ctx.instance("R-PAIR.prim.events", nprim)
    ctx.floor("R-PAIR.prim.pairs", 60)
    ctx.floor("R-PAIR.prim.events", 40)
    # 2. composite pairs discovered by name in the io files
    ids = set(fx.fn_ids())
    ncomp = 0
    for f in IO_FILES:
        for fid in fx.fn_ids(f):
            if "{closure" in fid or "::tests::" in fid or "_serde" in fid:
                continue
            for wn, rn in NAME_PAIRS:
                if fid.endswith("::" + wn):
                    rid = fid[:-len(wn)] + rn
                    if rid in ids:
                        wf, rf = Fn(fx.raw(fid)), Fn(fx.raw(rid))
                        ws, wo = pair.fn_sequences(wf, "w")
                        rs, ro = pair.fn_sequences(rf, "r")
                        ctx.analysed_fns.update([wf.id, rf.id])
                        ncomp += pair.compare(ctx, "R-PAIR.composite", fid.rsplit("::", 1)[0][-70:], wf, ws, rf, rs,
                                              opaque=wo or ro, mode="strong")
                        ctx.instance("R-PAIR.composite.pairs")
    ctx.instance("R-PAIR.composite.events", ncomp)
    ctx.floor("R-PAIR.composite.pairs", 20)
    ctx.floor("R-PAIR.composite.events", 20)
    # 2b. one-byte presence/kind markers: what follows marker c on the writer side is what the reader's arm c consumes
    from collections import defaultdict
    groups = defaultdict(lambda: ([], []))
    for f in IO_FILES:
        for fid in fx.fn_ids(f):
            if "{closure" in fid or "::tests::" in fid:
                continue
            fn = Fn(fx.raw(fid))
            pre = fid.rsplit("::", 1)[0]
            if pair.writer_markers(fn):
                groups[pre][0].append(fn)
            if pair.reader_markers(fn):
                groups[pre][1].append(fn)
    nmark = 0
    for pre, (ws, rs) in sorted(groups.items()):
        for w in ws:
            for r in rs:
                ctx.analysed_fns.update([w.id, r.id])
                nmark += pair.compare_markers(ctx, "R-PAIR.marker", "%s::%s<->%s" % (pre[-50:], w.id.rsplit("::", 1)[-1],
                                                                                       r.id.rsplit("::", 1)[-1]), w, r)
    ctx.instance("R-PAIR.marker.arms", nmark)
    ctx.floor("R-PAIR.marker.arms", 12)
    # 2c. a buffering writer drains its own buffer before it repositions the sink
    order.use_facts(fx)
    sk = [i for i in fx.fn_ids("src/io/stream_buffer.rs") if i.endswith("StreamBufferedWriter<W> as std::io::Seek>::seek")]
    if not sk:
        raise Broken("StreamBufferedWriter::seek not found")
    sf = Fn(fx.raw(sk[0]))
    ctx.analysed_fns.add(sf.id)
    order.precede(ctx, sf, r"StreamBufferedWriter<W> as std::io::Write>::flush$|StreamBufferedWriter::<W>::flush_buffer$",
                  r"as std::io::Seek>::seek$|io::Seek::seek$", "R-ORDER", "own buffer flushed before the sink is repositioned")
    ctx.floor("R-ORDER.events", 2)
    # 3. inverse dispatch of VarIntEncoder
    VE = "io::var_int_variants::VarIntEncoder::"
    ndisp = 0
    for enc, dec in (("encode_u64", "decode_u64"), ("encode_i64", "decode_i64"),
                     ("encode_u64_sequence", "decode_u64_sequence"), ("encode_i64_sequence", "decode_i64_sequence")):
        if not (fx.has(VE + enc) and fx.has(VE + dec)):
            raise Broken("VarIntEncoder::%s/%s not found" % (enc, dec))
        ef, df = Fn(fx.raw(VE + enc)), Fn(fx.raw(VE + dec))
        ctx.analysed_fns.update([ef.id, df.id])
        et, dt = dispatch_table(fx, ef), dispatch_table(fx, df)
        for v in sorted(set(et) | set(dt)):
            a, b = et.get(v), dt.get(v)
            ndisp += 1
            ok = a is not None and b is not None and a == b
            ctx.obligation("R-VARIANT.inverse", ef.id, "%s/%s" % (enc, v), ok,
                           sample={"variant": v, "encode_arm": a, "decode_arm": b})
            if not ok:
                ctx.violation("R-VARIANT.inverse", ef.id, "%s: strategy %s" % (enc, v),
                              "strategy %s encodes with '%s' but decodes with '%s'" % (v, a, b), df.file, df.line)
    ctx.instance("R-VARIANT.inverse.arms", ndisp)
    ctx.floor("R-VARIANT.inverse.arms", 20)
    # LEB128 writers decide "more bytes follow" exactly at the 7-bit limit
    trunc.writer_threshold(ctx, fx, [f for f in fx.files() if f.startswith('src/io/') or ctx.tier == 'thorough'])
    ctx.floor('R-VARINT.threshold.writers', 4)
    # buffering writers: the count of a partial write is returned or the write is retried
    partial.run(ctx, fx, [f for f in fx.files() if f.startswith('src/io/') or ctx.tier == 'thorough'])
    ctx.floor('R-PARTIALWRITE.sites', 5)
    # a count clamped for the reservation is not the bound of the element loop
    capsrc.clamped_count(ctx, fx, [f for f in fx.files() if f.startswith('src/io/') or ctx.tier == 'thorough'])
    ctx.floor('R-CLAMPLOOP.clamps', 3)
    # bulk conversions over value slices handle the tail of chunks_exact
    remainder.run(ctx, fx, [f for f in fx.files() if f.startswith('src/io/')])
    return dict(
        level_note="decides format agreement (widths, endianness, field order, prefix kinds, inverse dispatch); value round "
                   "trips (7-bit grouping, zigzag, delta, group-varint arithmetic), SIMD/scalar byte identity and buffered "
                   "refill behaviour are NOT decided",
        explanation="R-PAIR in 'strong' projection (multi-byte integers with endianness, primitive read/write kinds, nested "
                    "serialize/deserialize with their type) over every DataOutput x DataInput implementor pair and every "
                    "serialize/deserialize pair of the io files; R-PAIR.marker: for every constant one-byte marker a writer emits, "
                    "the events that follow it equal the events of every successful path of the reader's switch arm for that "
                    "value (both directions: nothing unread, nothing over-read); R-VARIANT.inverse: per VarIntStrategy variant the encode "
                    "arm and the decode arm call helpers with the same stem.",
        trusted_base=["rustc nightly MIR", "zfacts", "rules/pair.py (event table)"],
        rule_text="obligation = (writer, reader) pair | (strategy variant, encode arm, decode arm)",
    )


def dispatch_table(fx, fn):
    """variant name -> stem of the crate-local callee in that arm (or 'refuse' when the arm only errors)"""
    out = {}
    sws = storage_switches(fn, "::strategy")
    if not sws:
        return out
    b, place, table, otherwise = sws[0]
    adt = fx.adts.get("io::var_int_variants::VarIntStrategy")
    names = {int(v["discr"]) if v["discr"] is not None else i: v["name"] for i, v in enumerate(adt["variants"])}
    allt = set(table.values()) | {otherwise}
    for d, name in names.items():
        tgt = table.get(d, otherwise)
        region = arm_region(fn, b, tgt, allt)
        stems = []
        for bb in sorted(region):
            t = fn.term(bb)
            if t[0] == "call" and t[1]["loc"]:
                last = t[1]["f"].rsplit("::", 1)[-1]
                if re.match(r"^(en|de)code_", last):
                    stems.append(re.sub(r"^(en|de)code_", "", last))
        out[name] = stems[0] if stems else "refuse"
    return out
