"""C14 (one clause): no feature-gated kernel is reachable without its feature check and
every dispatcher keeps an ungated fallback. Decides dispatch soundness, not kernel values."""
from vlib import fixtures
from rules import tf


def run(ctx):
    fx = ctx.facts("default")
    fixtures.run(ctx, ['tf'])
    tf.run(ctx, fx)
    ctx.floor("R-TF.tf_fns", 100)
    ctx.floor("R-TF.sites", 100)
    ctx.floor("R-TF.dispatchers", 40)
    return dict(
        level_note="decides only the dispatch clause of C14 (feature-gated kernels are entered only under an implying "
                   "runtime check; a portable path exists). Kernel-vs-scalar value equality is NOT decided.",
        explanation="R-TF over the whole crate: for every call whose callee carries #[target_feature] and whose caller "
                    "does not, the set of features guaranteed by dominating runtime checks (std_detect / raw_cpuid roots, "
                    "propagated through struct fields, tier enums and selector functions by a crate-wide who-may-write "
                    "inference) must cover the callee's features; unsafe fns delegate the obligation to their callers; "
                    "every safe dispatcher has a path to return avoiding all gated calls.",
        trusted_base=["rustc nightly MIR construction", "zfacts extractor", "rules/tf.py",
                      "x86 feature implication tables (architectural + documented micro-architectural)"],
        rule_text="obligation = (call site of a #[target_feature] callee, required feature set); non-trivial when the "
                  "caller lacks at least one required feature",
    )
