"""C14 (two clauses): no feature-gated kernel is reachable without its feature check and every dispatcher keeps an
ungated fallback (R-TF); comparison kernels never order bytes with a signed lane comparison (R-SIGNED).
Decides dispatch soundness and one sign-correctness condition, not kernel values."""
from vlib import fixtures
from rules import tf, simdsign


def run(ctx):
    fx = ctx.facts("default")
    fixtures.run(ctx, ['tf', 'simdsign', 'lanes', 'padmask', 'identity'])
    tf.run(ctx, fx)
    ctx.floor("R-TF.tf_fns", 100)
    ctx.floor("R-TF.sites", 100)
    ctx.floor("R-TF.dispatchers", 40)
    # byte comparison kernels: the order of two bytes is never decided by a signed lane comparison
    simdsign.run(ctx, fx)
    ctx.floor("R-SIGNED.kernels", 8)
    simdsign.byte_kernels(ctx, fx)
    ctx.floor("R-LANES.functions", 60)
    # kernels over a zero-padded scratch array restrict the movemask to the lanes that were filled
    simdsign.padded_mask(ctx, fx)
    ctx.floor("R-PADMASK.sites", 2)
    # "same start address" fast paths of comparison kernels also compare the lengths (none on the pinned tree)
    simdsign.ptr_identity_fast_path(ctx, fx)
    return dict(
        level_note="decides the dispatch clause of C14 (feature-gated kernels are entered only under an implying "
                   "runtime check; a portable path exists) and one necessary condition of the compare clause (no unbiased "
                   "signed 8-bit lane comparison in a cmp/compare kernel). Kernel-vs-scalar value equality, tail handling and "
                   "window stepping are NOT decided.",
        explanation="R-TF over the whole crate: for every call whose callee carries #[target_feature] and whose caller "
                    "does not, the set of features guaranteed by dominating runtime checks (std_detect / raw_cpuid roots, "
                    "propagated through struct fields, tier enums and selector functions by a crate-wide who-may-write "
                    "inference) must cover the callee's features; unsafe fns delegate the obligation to their callers; "
                    "every safe dispatcher has a path to return avoiding all gated calls. R-SIGNED: in every function named "
                    "*cmp*/*compare*/*less*/*order* that calls x86 intrinsics, _mm*_cmp{gt,lt,ge,le}_epi8[_mask] and "
                    "_mm*_{min,max}_epi8 are allowed only on operands that pass through an xor/add/sub bias.",
        trusted_base=["rustc nightly MIR construction", "zfacts extractor", "rules/tf.py",
                      "x86 feature implication tables (architectural + documented micro-architectural)"],
        rule_text="obligation = (call site of a #[target_feature] callee, required feature set); non-trivial when the "
                  "caller lacks at least one required feature",
    )
