"""C15 (partial, strongest): in the closure of every parser entry point of the anchored files,
no length/index read from untrusted bytes sizes an allocation, indexes or slices memory, or
feeds an unsafe access without a dominating check; no unwrap/panic is decided by such a value."""
from vlib import fixtures
from vlib.mir import Fn
import re

from rules import taint, trunc, uninit

FILES = ['src/entropy/huffman.rs', 'src/entropy/fse.rs', 'src/entropy/rans.rs', 'src/entropy/dictionary.rs',
         'src/compression/mod.rs', 'src/compression/simd_lz77.rs', 'src/compression/dict_zip/compressor.rs',
         'src/compression/dict_zip/compression_types.rs', 'src/blob_store/zip_offset.rs',
         'src/blob_store/sorted_uint_vec.rs', 'src/blob_store/reorder_map.rs', 'src/memory/mmap_vec.rs',
         'src/io/var_int.rs', 'src/io/var_int_variants.rs', 'src/io/complex_types.rs', 'src/io/smart_ptr.rs',
         'src/io/data_input.rs', 'src/string/hex.rs', 'src/system/base64.rs', 'src/ffi/c_api.rs']
# parser entry points are recognised by name inside the anchored files (list written to the evidence)
ENTRY = re.compile(r'(decode|decompress|deserialize|from_bytes|load_from|^open$|^read_|parse|get_record|^load$|from_reader)')


def analyse(ctx, fx, files=FILES, prefix=""):
    # MmapVec's header lives in the mapped file: its fields are untrusted integers wherever they are read
    cl = taint.new_closure(fx, scalar_fields=[r"MmapVecHeader::(length|capacity|element_size)$"])
    entries = []
    for f in files:
        for fid in fx.fn_ids(f):
            if '::tests::' in fid or '{closure' in fid:
                continue
            if ENTRY.search(fid.rsplit('::', 1)[-1]):
                if cl.seed_entry(fid):
                    entries.append(fid)
    res = cl.run()
    zf = taint.zero_writable_fields(fx)
    nsinks = 0
    for fid, (fn, ft) in sorted(res.items()):
        ctx.analysed_fns.add(fid)
        nsinks += taint.check_sinks(ctx, fn, ft, prefix)
        nsinks += taint.check_panics(ctx, fn, ft, prefix + "R-PANIC")
        ctx.instance(prefix + "R-DIV.sites", taint.check_div(ctx, fn, ft, rule=prefix + "R-DIV", zero_fields=zf))
        taint.check_arith(ctx, fn, ft, rule=prefix + "R-ARITH.mul", ops=("Mul", "MulWithOverflow", "MulUnchecked"), fx=fx)
        ctx.instance(prefix + "R-ARITH.mul.guards_examined", len(taint.Guards(fn, ft).items))
    taint.recursion_cycles(ctx, res, rule=prefix + "R-RECURSE")
    taint.narrow_sums(ctx, fx, entries, rule=prefix + "R-ARITH.sum", res=res)
    taint.str_byte_slices(ctx, res, rule=prefix + "R-STRSLICE")
    ctx.instance(prefix + "entries", len(entries))
    ctx.instance(prefix + "closure_fns", len(res))
    ctx.instance(prefix + "untrusted_sinks", nsinks)
    return cl, entries, res


def run(ctx):
    fx = ctx.facts("default")
    fixtures.run(ctx, ['taint', 'trunc', 'arithmul', 'div', 'recurse', 'uninit', 'narrowsum', 'strslice'])
    cl, entries, res = analyse(ctx, fx)
    nt = 0
    for fid in fx.fn_ids():
        if '::tests::' in fid or '::test_' in fid:
            continue
        for k in range(fx.count(fid)):
            rec = fx.raw(fid, k)
            if rec['file'].startswith('src/'):
                nt += trunc.check(ctx, Fn(rec))
    # decoders that build arrays in place keep the storage wrapped in MaybeUninit until every slot is written
    uninit.run(ctx, fx, fx.files() if ctx.tier == 'thorough' else FILES)
    ctx.floor('R-UNINIT.sites', 1)
    ctx.instance('R-TRUNC.decoders', nt)
    ctx.floor('R-TRUNC.decoders', 5)
    ctx.floor("entries", 150)
    ctx.floor("closure_fns", 180)
    ctx.floor("untrusted_sinks", 35)
    ctx.floor("R-DIV.sites", 2)
    ctx.extra["entry_points"] = len(entries)
    ctx.extra["entry_sample"] = entries[:25]
    ctx.extra["untrusted_struct_fields"] = {"bytes": sorted(cl.summ.reg_buf)[:40], "integers": sorted(cl.summ.reg_scalar)[:60]}
    return dict(
        level_note="decides five structural clauses of C15 (allocation from unvalidated length, unguarded index/slice, "
                   "unguarded unsafe access, unwrap/panic decided by untrusted data - for the closure of the parser entry "
                   "points - and R-TRUNC: every variable-length integer decoder in the crate reports success only after a byte "
                   "with a clear continuation bit; R-DIV: an untrusted divisor is tested against zero on a dominating branch; R-ARITH.mul: "
                   "no bound check compares a value computed with unchecked multiplication on a full-width untrusted operand, "
                   "directly or inside a crate-local helper); guard SHAPE is checked (a dominating comparison of a value covering the untrusted operand "
                   "against a trusted bound, refusing on the large side), guard ARITHMETIC is not; loop termination and "
                   "decompression-bomb amplification are not decided; struct fields are abstracted by type.",
        explanation="interprocedural taint analysis over MIR: BUF (untrusted content) and SCALAR (integers read from it, each "
                    "with its source sites) are propagated flow-sensitively through reaching definitions, crate-local "
                    "callee summaries and a type-based struct-field registry; every allocation-size, bounds-check, slice "
                    "range and unsafe pointer/length operand that is SCALAR must be discharged by a dominating deciding "
                    "guard, a clamp against a trusted value, or a narrow source width.",
        trusted_base=["rustc nightly MIR", "zfacts", "rules/taint.py (source/sink/idiom tables)"],
        rule_text="obligation = (function, sink, untrusted operand); non-trivial = the operand carries at least one untrusted root",
    )
