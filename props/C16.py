"""C16 (partial): writer exclusivity is one atomic step (R-ATOM); version assignment, live-count
increment and threshold advance share one critical section (R-LOCKCOV); tokens are tied to
their manager (R-OWN + witnesses, incl. the per-thread cache)."""
from vlib import fixtures
from rules import own, sync
from vlib import witness
from vlib.mir import Fn
from vlib.run import Broken

VS = "src/fsa/version_sync.rs"
FILES = [VS, "src/fsa/token.rs"]
VM = "fsa::version_sync::VersionManager::"
MUTEX = "VersionManager::token_chain_mutex"


def need(fx, fid):
    rec = fx.raw(fid)
    if rec is None:
        raise Broken("anchor function %s not found" % fid)
    return Fn(rec)


def run(ctx):
    fx = ctx.facts("default")
    fixtures.run(ctx, ['atom', 'lockcov', 'commit', 'countrmw'])
    # clause 1: check-then-act on atomics anywhere in the two files
    n = 0
    nat = 0
    ncommit = 0
    for f in FILES:
        for fid in fx.fn_ids(f):
            fn = Fn(fx.raw(fid))
            ctx.analysed_fns.add(fid)
            nat += len(sync.atomic_sites(fn))
            n += sync.check_then_act(ctx, fn)
            # a count that was already raised when a limit refuses the request is lowered again on the refusing path
            if "::tests::" not in fid:
                ncommit += sync.commit_before_check(ctx, fn, fx=fx)
    ctx.instance("R-COMMIT.decisions", ncommit)
    vs_fns = [Fn(fx.raw(fid)) for fid in fx.fn_ids(VS) if "::tests::" not in fid]
    sync.load_modify_store(ctx, vs_fns)
    ctx.instance("R-ATOM.atomic_sites", nat)
    ctx.floor("R-ATOM.atomic_sites", 15)
    # the exclusivity decision itself must exist: acquire_writer_token touches active_writers with a
    # compare_exchange or under a guard
    w = need(fx, VM + "acquire_writer_token")
    ws = [s for s in sync.atomic_sites(w) if s[2] and s[2].endswith("::active_writers")]
    ctx.instance("R-ATOM.writer_sites", len(ws))
    ctx.floor("R-ATOM.writer_sites", 1)
    # the live-token counters move by +1 / -1 only: no plain store or swap outside the constructor
    sync.counter_only_rmw(ctx, fx, VS, "fsa::version_sync::VersionManager", ["active_readers", "active_writers"])
    ctx.floor("R-COUNT.rmw.rmw_sites", 2)
    # clause 2: one critical section
    k = 0
    r = need(fx, VM + "acquire_reader_token")
    k += sync.lockcov(ctx, r, MUTEX, "::active_readers", ("fetch_add",),
                      only_reachable_from=("::current_version", ("fetch_add",)),
                      label="a token with version v must be counted before the lock that assigned v is released")
    k += sync.lockcov(ctx, w, MUTEX, "::active_writers", ("fetch_add", "compare_exchange", "store"),
                      only_reachable_from=("::current_version", ("fetch_add",)),
                      label="a token with version v must be counted before the lock that assigned v is released")
    for fn_ in (r, w):
        k += sync.lockcov(ctx, fn_, MUTEX, "::current_version", ("fetch_add", "store"))
    t = need(fx, VM + "try_advance_min_version")
    k += sync.lockcov(ctx, t, MUTEX, "::min_version", ("store",),
                      label="the threshold may only advance while no acquire can be between version assignment and count")
    k += sync.lockcov(ctx, t, MUTEX, "::active_readers", ("load",))
    k += sync.lockcov(ctx, t, MUTEX, "::active_writers", ("load",))
    ctx.instance("R-LOCKCOV.sites", k)
    ctx.floor("R-LOCKCOV.sites", 6)
    # who may write min_version: only try_advance_min_version and the constructor
    writers = set()
    for fid in fx.fn_ids(VS):
        fn = Fn(fx.raw(fid))
        for b, op, fld, c in sync.atomic_sites(fn):
            if fld and fld.endswith("::min_version") and op in sync.ATOMIC_RMW:
                writers.add(fid)
    for wfid in sorted(writers):
        ok = wfid.endswith("::try_advance_min_version")
        ctx.obligation("R-LOCKCOV.who", wfid, "writes min_version", ok)
        if not ok:
            ctx.violation("R-LOCKCOV.who", wfid, "writes min_version",
                          "min_version is written outside try_advance_min_version", VS, None)
    # clause 3
    untied = own.run(ctx, fx, FILES)
    own.tls_escape(ctx, fx, untied)
    ctx.floor("R-OWN.raw_owner_fields", 1)
    witness.run_dir(ctx, "W16", "C16")
    ctx.floor("W16.witnesses", 4)
    return dict(
        level_note="decides three structural clauses of C16; that counts return to zero at quiescence and the lazy "
                   "free list's age comparisons are history/value-level and NOT decided",
        explanation="R-ATOM: load->branch->RMW on the same atomic without a common live lock guard, over every function "
                    "of version_sync.rs/token.rs. R-LOCKCOV: named atomic operations must execute while a guard of "
                    "token_chain_mutex is live (guard liveness from MIR def to Drop/StorageDead/move). R-OWN: raw owner "
                    "pointer in a guard without lifetime or strong reference, plus compile-fail witnesses with twins. R-COUNT.rmw: "
                    "VersionManager.active_readers/active_writers are changed only by fetch_add/fetch_sub/compare_exchange - never by a "
                    "plain store or swap outside the constructor.",
        trusted_base=["rustc nightly (borrow checker for witnesses, MIR)", "zfacts", "rules/sync.py", "rules/own.py"],
        rule_text="obligation = atomic check-then-act pair | (atomic op, required lock) | guard/owner pair | witness",
    )
