"""C17 (partial): the eviction callback is invoked exactly once, on the entry that is unlinked, only
from eviction, and eviction happens only when the map is full (R-ORDER/R-FLOW); the shard chosen
for a key depends on the key and on nothing that changes between calls (routing purity)."""
from vlib import fixtures
import re

from rules import order, lru, parallel, cachedview
from rules.variant import storage_switches, arm_region
from vlib.mir import Fn, op_local, op_place, rv_operands
from vlib.run import Broken

LM = "containers::specialized::lru_map::LruMap::<K, V, E>::"
CM = "containers::specialized::concurrent_lru_map::ConcurrentLruMap::<K, V, E>::"
IMPURE = re.compile(r"thread::current|fetch_add|fetch_sub|Instant::now|fastrand|rand::|SystemTime::now|::load$")


def need(fx, fid):
    rec = fx.raw(fid)
    if rec is None:
        raise Broken("anchor function %s not found" % fid)
    return Fn(rec)


def run(ctx):
    fx = ctx.facts("default")
    order.use_facts(fx)
    fixtures.run(ctx, ['order', 'lru', 'clear', 'lockorder', 'cachedview'])
    # recency: every access to an existing entry moves it to the head; list operations run under the index lock
    LM = 'containers::specialized::lru_map::LruMap::<K, V, E>::'
    nt = 0
    for m in ('get', 'put'):
        nt += lru.touch(ctx, fx, LM + m, 'containers::specialized::lru_map::LruNode::value')
    ctx.instance('R-TOUCH.accesses', nt)
    ctx.instance('R-ORDER.evict.sites', lru.evict_only_for_new(ctx, fx, LM + 'put', 'containers::specialized::lru_map::LruNode::value'))
    ctx.floor('R-ORDER.evict.sites', 1)
    ctx.floor('R-TOUCH.accesses', 2)
    # ... and only those: a pure observer never reorders the recency list (a membership query is not an access)
    nobs = 0
    for m in ('contains_key', 'len', 'is_empty', 'capacity'):
        rec = fx.raw(LM + m)
        if rec is None:
            continue
        of = Fn(rec)
        ctx.analysed_fns.add(of.id)
        nobs += order.forbidden_in(ctx, of, r"LruList.*::(move_to_head|insert_head|remove|remove_tail|push_front|unlink)$|::evict_lru$",
                                   "R-PURE", "observer %s leaves the recency order alone" % m, depth=3)
    ctx.instance('R-PURE.observers', nobs)
    ctx.floor('R-PURE.observers', 2)
    lru.list_ops_under_index_lock(ctx, fx, 'src/containers/specialized/lru_map.rs', 'lru_map::LruMap', 'LruMap::hash_map')
    ctx.floor('R-LOCKCOV.lru.sites', 3)
    # the page cache's CacheBuffer keeps a (pointer, length) view of its own Vec: rebuilt after every reshaping of the Vec
    cachedview.run(ctx, fx, 'src/cache/buffer.rs', 'cache::buffer::CacheBuffer', 'data_buffer', 'data_slice')
    ctx.floor('R-CACHEDVIEW.builders', 1)
    ctx.floor('R-CACHEDVIEW.events', 4)
    cachedview.setters_always_refresh(ctx, fx, 'src/cache/buffer.rs', 'cache::buffer::CacheBuffer', 'data_slice',
                                      ('copy_from_slice', 'setup_multi_page', 'clear'))
    ctx.floor('R-CACHEDVIEW.set.setters', 2)
    parallel.clear_all(ctx, fx, ['src/containers/specialized/lru_map.rs', 'src/containers/specialized/concurrent_lru_map.rs'])
    ctx.floor('R-CLEAR.fields', 3)
    ev = need(fx, LM + "evict_lru")
    ctx.analysed_fns.add(ev.id)
    # exactly one callback on every successful path
    calls = order.sites(ev, r"EvictionCallback.*::on_evict$|::on_evict$")
    ctx.instance("R-ORDER.on_evict_sites", len(calls))
    ctx.obligation("R-ORDER", ev.id, "single on_evict site", len(calls) == 1, sample={"fn": ev.id, "on_evict_sites": len(calls)})
    if len(calls) != 1:
        ctx.violation("R-ORDER", ev.id, "on_evict call sites = %d" % len(calls),
                      "evict_lru must invoke the eviction callback exactly once per eviction", ev.file, ev.line)
    order.then_before_ok(ctx, ev, "", r"::on_evict$", "R-ORDER", "every successful eviction passes through on_evict", from_entry=True)
    order.then_before_ok(ctx, ev, "", r"HashMap::<.*>::remove$", "R-ORDER", "every successful eviction removes the key from the index", from_entry=True)
    order.then_before_ok(ctx, ev, "", r"LruList::(remove|remove_tail|pop_tail|unlink)$", "R-ORDER", "every successful eviction unlinks the node", from_entry=True)
    # same entry: callback key == removed key, both read from the node that is unlinked
    if calls:
        cb = calls[0][1]
        k_cb = _root_local(ev, op_local(cb["a"][1]))
        v_cb = _root_local(ev, op_local(cb["a"][2])) if len(cb["a"]) > 2 else None
        rm = order.sites(ev, r"HashMap::<.*>::remove$")
        ul = order.sites(ev, r"LruList::(remove|remove_tail|pop_tail|unlink)$")
        k_rm = _root_local(ev, op_local(rm[0][1]["a"][1])) if rm else None
        idx_ul = _root_local(ev, op_local(ul[0][1]["a"][2])) if ul and len(ul[0][1]["a"]) > 2 else None
        same_key = k_cb is not None and k_cb == k_rm
        key_from_idx = False
        val_from_idx = False
        if idx_ul is not None and k_cb is not None:
            key_from_idx = idx_ul in ev.backslice([k_cb])[0]
            val_from_idx = v_cb is not None and idx_ul in ev.backslice([v_cb])[0]
        ok = same_key and key_from_idx and val_from_idx
        ctx.obligation("R-FLOW", ev.id, "callback entry == unlinked entry", ok,
                       sample={"fn": ev.id, "callback_key": ev.local_name(k_cb) if k_cb is not None else None,
                               "removed_key": ev.local_name(k_rm) if k_rm is not None else None,
                               "unlinked_index": ev.local_name(idx_ul) if idx_ul is not None else None,
                               "key_read_from_unlinked_node": key_from_idx, "value_read_from_unlinked_node": val_from_idx})
        if not ok:
            ctx.violation("R-FLOW", ev.id, "callback entry differs from unlinked entry",
                          "the key/value handed to on_evict, the key removed from the index and the node unlinked from the "
                          "recency list are not the same entry", ev.file, cb["ln"])
    # who may call on_evict
    callers = set()
    for r in fx.cg_all:
        for c in r["calls"]:
            if c[0].endswith("::on_evict") and "::tests::" not in r["id"]:
                callers.add(r["id"])
    for c in sorted(callers):
        ok = c.endswith("::evict_lru")
        ctx.obligation("R-ORDER.who", c, "calls on_evict", ok)
        if not ok:
            ctx.violation("R-ORDER.who", c, "calls on_evict", "the eviction callback is invoked outside evict_lru", None, None)
    ctx.instance("R-ORDER.who.callers", len(callers))
    ctx.floor("R-ORDER.who.callers", 1)
    # eviction only when full
    put = need(fx, LM + "put")
    ctx.analysed_fns.add(put.id)
    evs = order.sites(put, r"::evict_lru$")
    ctx.instance("R-ORDER.evict_calls", len(evs))
    ctx.floor("R-ORDER.evict_calls", 1)
    for b, c in evs:
        guarded = False
        for sb in put.blocks():
            t = put.term(sb)
            if t[0] == "sw" and put.dominates(sb, b) and sb != b:
                l = op_local(t[1])
                if l is None:
                    continue
                locs, sites = put.backslice([l])
                txt = " ".join(s[2]["f"] for s in sites if s[1] == "call") + " " + \
                    " ".join(str(op_place(o)) for s in sites if s[1] == "assign" for o in rv_operands(s[2][2]) if op_place(o))
                if "capacity" in txt and ("::len" in txt) and any(b not in put.reachable_from([s], avoid=[sb]) for s in put.succ(sb)):
                    guarded = True
        ctx.obligation("R-ORDER", put.id, "evict only when len >= capacity", guarded)
        if not guarded:
            ctx.violation("R-ORDER", put.id, "unconditional eviction",
                          "put evicts without a dominating comparison of the current length with the capacity", put.file, c["ln"])
    # lock order inside the map (two threads on put / evict must not block each other forever)
    from rules import sync
    sync.lock_order(ctx, fx, "src/containers/specialized/lru_map.rs")
    ctx.floor("R-LOCKORDER.acquisitions", 10)
    # routing purity of the sharded map
    ss = need(fx, CM + "select_shard")
    ctx.analysed_fns.add(ss.id)
    sws = storage_switches(ss, "::load_balancing")
    if not sws:
        raise Broken("select_shard: switch on load_balancing not found")
    b, place, table, otherwise = sws[0]
    adt = fx.adts.get("containers::specialized::concurrent_lru_map::LoadBalancingStrategy")
    names = {int(v["discr"]) if v["discr"] is not None else i: v["name"] for i, v in enumerate(adt["variants"])}
    allt = set(table.values()) | {otherwise}
    keyp = ss.forward_locals([i for i in range(1, ss.nargs + 1) if ss.local_name(i) == "key"])
    narms = 0
    for d, name in sorted(names.items()):
        tgt = table.get(d, otherwise)
        region = arm_region(ss, b, tgt, allt)
        impure = []
        uses_key = False
        for bb in region:
            t = ss.term(bb)
            if t[0] == "call":
                if IMPURE.search(t[1]["f"]):
                    impure.append(t[1]["f"].rsplit("::", 2)[-2] + "::" + t[1]["f"].rsplit("::", 1)[-1])
                if any(op_local(a) in keyp for a in t[1]["a"]):
                    uses_key = True
        narms += 1
        ok = uses_key and not impure
        ctx.obligation("R-FLOW.route", ss.id, "strategy %s" % name, ok,
                       sample={"strategy": name, "uses_key": uses_key, "impure_inputs": impure})
        if not ok:
            ctx.violation("R-FLOW.route", ss.id, "strategy %s" % name,
                          "the shard for a key under %s is computed from %s%s: get/put/remove call select_shard independently, "
                          "so a key put through one call is not found by the next" %
                          (name, impure or "nothing key-dependent", "" if uses_key else " and ignores the key"), ss.file, ss.line)
    ctx.instance("R-FLOW.route.arms", narms)
    ctx.floor("R-FLOW.route.arms", 3)
    return dict(
        level_note="decides callback/eviction structure of LruMap, that get/put refresh recency of the entry they access, that list "
                   "operations run under the index lock, and routing purity of ConcurrentLruMap; LRU order values, the "
                   "capacity bound, page-cache byte equality and staleness after invalidation are value/history-level and NOT decided",
        explanation="R-ORDER: on every Ok path evict_lru passes through exactly one on_evict, the index removal and the list unlink; "
                    "R-FLOW: the callback's key/value locals are the ones removed/unlinked; who-may-call on_evict; put reaches "
                    "evict_lru only under a len-vs-capacity comparison; R-FLOW.route: per LoadBalancingStrategy arm the shard "
                    "index uses the key and no thread id / counter / clock. R-TOUCH: a move_to_head/insert_head call dominates, or lies on "
                    "every path to a normal return from, each access to LruNode.value in get/put. R-LOCKCOV.lru: a guard of "
                    "LruMap.hash_map is live at every LruList operation of the map's methods. R-CACHEDVIEW: in CacheBuffer every call that can move or "
                    "resize data_buffer (reserve/extend/resize/clear/replace, also inside private helpers) is followed on every path to a "
                    "normal return by a store to data_slice (paths on which data_slice is None excepted); the replacing methods copy_from_slice / setup_multi_page / clear store "
                    "data_slice on every path from entry to return (R-CACHEDVIEW.set). R-PURE: LruMap::contains_key/len/is_empty/"
                    "capacity reach (three levels of crate-local callees) no LruList reordering call and no evict_lru.",
        trusted_base=["rustc nightly MIR", "zfacts", "rules/order.py", "rules/lru.py", "rules/cachedview.py", "rules/sync.py (guard liveness)", "props/C17.py tables"],
        rule_text="obligation = ordering pair | callback entry identity | caller of on_evict | strategy arm",
    )


def _root_local(fn, l, depth=0):
    """follow refs/copies back to the named local an operand refers to"""
    if l is None or depth > 8:
        return l
    if l in fn.names:
        return l
    ds = fn.defs(l)
    if len(ds) == 1 and ds[0][1] == "assign":
        rv = ds[0][2][2]
        if rv[0] in ("ref", "refmut"):
            return _root_local(fn, rv[1][0], depth + 1)
        if rv[0] in ("use", "cast"):
            p = op_place(rv[1] if rv[0] == "use" else rv[2])
            if p:
                return _root_local(fn, p[0], depth + 1)
    tg = fn.points_to(l)
    if len(tg) == 1:
        return _root_local(fn, next(iter(tg)), depth + 1)
    return l
