"""C18 (partial): never-run-twice by type (witness), no stranded queue (R-QUEUE), no popped task dropped
(R-LINEAR.task), no refused task ignored (R-SINK), no completion-ordered sequence (R-SEQ),
no swallowed stage/item error (R-ERRDEAD)."""
from vlib import fixtures
from rules import errdead, queue, linear, order, sync
from vlib.mir import Fn
from vlib import witness

EXEMPT = {
    # background flush timer: BatchCollector::check_timeout has no Err return and a skipped tick consumes no item
    "concurrency::pipeline::BatchCollector::<T>::start_timeout_checker": "timer tick, nothing consumed on Err",
}


def run(ctx):
    fx = ctx.facts("default")
    fixtures.run(ctx, ['errdead', 'tasks', 'inflight', 'lockorder', 'shared', 'flatten'])
    witness.run_dir(ctx, "W18", "C18")
    ctx.floor("W18.witnesses", 2)
    queue.run(ctx, fx, "concurrency::work_stealing::WorkStealingQueue", "src/concurrency/work_stealing.rs",
              "concurrency::work_stealing::WorkStealingExecutor::find_task",
              ["concurrency::work_stealing::WorkStealingExecutor::worker_loop::{closure#0}"])
    ctx.floor("R-QUEUE.queue_fields", 2)
    ctx.floor("R-QUEUE.methods", 5)
    # a task taken out of a queue is run, returned or put back on every path (a dropped Box<dyn Task> never runs)
    TASK = "dyn concurrency::work_stealing::Task"
    nl = 0
    for fid in fx.fn_ids("src/concurrency/work_stealing.rs"):
        if "::tests::" in fid:
            continue
        for k in range(fx.count(fid)):
            fn = Fn(fx.raw(fid, k))
            got = linear.linear(ctx, fn, TASK, rule="R-LINEAR.task", follow=True)
            if got:
                ctx.analysed_fns.add(fid)
            nl += got
    ctx.instance("R-LINEAR.task.sites", nl)
    ctx.floor("R-LINEAR.task.sites", 4)
    linear.refusing_sinks(ctx, fx, "src/concurrency/work_stealing.rs", TASK)
    ctx.floor("R-SINK.calls", 1)
    # pieces produced by spawned tasks are not gathered through a lock-guarded push (completion order)
    order.shared_accumulator(ctx, fx, [f for f in fx.files() if f.startswith('src/concurrency/')])
    ctx.floor('R-SEQ.shared.parallel_fns', 5)
    # no flatten()/filter_map(Result::ok) over an iterator of task results (zero sites on the pinned tree)
    errdead.no_result_flatten(ctx, fx, [f for f in fx.files() if f.startswith('src/concurrency/')])
    order.sequence_order(ctx, fx, ["src/concurrency/pipeline.rs", "src/concurrency/fiber_pool.rs", "src/concurrency/mod.rs",
                                   "src/concurrency/fiber_aio.rs", "src/concurrency/fiber_yield.rs",
                                   "src/concurrency/async_blob_store.rs"])
    ctx.floor("R-SEQ.sequence_apis", 20)
    # in-flight counters come back down on every path; the two queue locks are always taken in one order
    ninf = 0
    for f in ("src/concurrency/work_stealing.rs", "src/concurrency/pipeline.rs", "src/concurrency/fiber_pool.rs"):
        for fid in fx.fn_ids(f):
            if "::tests::" in fid:
                continue
            for k in range(fx.count(fid)):
                ninf += sync.inc_dec_pairing(ctx, Fn(fx.raw(fid, k)))
    ctx.instance("R-INFLIGHT.counters", ninf)
    ctx.floor("R-INFLIGHT.counters", 3)
    sync.lock_order(ctx, fx, "src/concurrency/work_stealing.rs")
    ctx.floor("R-LOCKORDER.acquisitions", 6)
    errdead.run(ctx, fx, ["src/concurrency/pipeline.rs", "src/concurrency/fiber_pool.rs"], exempt=EXEMPT)
    ctx.floor("R-ERRDEAD.sites", 3)
    return dict(
        level_note="decides six structural clauses of C18 (type-level consume-on-execute; every queue the owner fills "
                   "is drained on the owner's path; a Box<dyn Task> taken out of a queue is moved on (run/returned/re-queued) on "
                   "every path; the Result of a refusing task sink is examined; sequence-returning APIs use no "
                   "completion-ordered combinator; no stage/item error is swallowed in pipeline.rs/fiber_pool.rs). "
                   "Exactly-once under stealing interleavings, idle detection and result order values are NOT decided.",
        explanation="W18: compile-fail witness (E0382) + compiling twin against the freshly built rmeta. R-QUEUE: "
                    "per-method push/pop summaries of WorkStealingQueue fields, owner vs thief receivers in find_task by "
                    "parameter type. R-ERRDEAD: Err arms of matches on Results carrying ZiporaError/JoinError/Elapsed "
                    "must read the payload or build/propagate an Err; Result locals never read are discards. R-LINEAR.task: "
                    "path walk from every call that yields Option<Box<dyn Task>>/Box<dyn Task>, following moves into locals; "
                    "reaching Drop/StorageDead while still owning is a lost task. R-SINK: crate-local callee taking the "
                    "task by value and returning Result => result local must be read. R-SEQ: bodies returning "
                    "[Result<]Vec<_> and their nested closures/coroutines call no buffer_unordered/FuturesUnordered/"
                    "for_each_concurrent/select_all/join_next.",
        trusted_base=["rustc nightly (type checker for witnesses, MIR)", "zfacts", "rules/queue.py", "rules/errdead.py", "rules/linear.py", "rules/order.py", "rules/sync.py"],
        rule_text="obligation = (queue field, owner-path drain) | (Err arm or dead Result local) | witness; all are non-trivial",
    )
