"""C18 (partial): never-run-twice by type (witness), no stranded queue (R-QUEUE),
no swallowed stage/item error (R-ERRDEAD)."""
from vlib import fixtures
from rules import errdead, queue
from vlib import witness

EXEMPT = {
    # background flush timer: BatchCollector::check_timeout has no Err return and a skipped tick consumes no item
    "concurrency::pipeline::BatchCollector::<T>::start_timeout_checker": "timer tick, nothing consumed on Err",
}


def run(ctx):
    fx = ctx.facts("default")
    fixtures.run(ctx, ['errdead'])
    witness.run_dir(ctx, "W18", "C18")
    ctx.floor("W18.witnesses", 2)
    queue.run(ctx, fx, "concurrency::work_stealing::WorkStealingQueue", "src/concurrency/work_stealing.rs",
              "concurrency::work_stealing::WorkStealingExecutor::find_task",
              ["concurrency::work_stealing::WorkStealingExecutor::worker_loop::{closure#0}"])
    ctx.floor("R-QUEUE.queue_fields", 2)
    ctx.floor("R-QUEUE.methods", 5)
    errdead.run(ctx, fx, ["src/concurrency/pipeline.rs", "src/concurrency/fiber_pool.rs"], exempt=EXEMPT)
    ctx.floor("R-ERRDEAD.sites", 3)
    return dict(
        level_note="decides three structural clauses of C18 (type-level consume-on-execute; every queue the owner fills "
                   "is drained on the owner's path; no stage/item error is swallowed in pipeline.rs/fiber_pool.rs). "
                   "Exactly-once under stealing interleavings, idle detection and result order values are NOT decided.",
        explanation="W18: compile-fail witness (E0382) + compiling twin against the freshly built rmeta. R-QUEUE: "
                    "per-method push/pop summaries of WorkStealingQueue fields, owner vs thief receivers in find_task by "
                    "parameter type. R-ERRDEAD: Err arms of matches on Results carrying ZiporaError/JoinError/Elapsed "
                    "must read the payload or build/propagate an Err; Result locals never read are discards.",
        trusted_base=["rustc nightly (type checker for witnesses, MIR)", "zfacts", "rules/queue.py", "rules/errdead.py"],
        rule_text="obligation = (queue field, owner-path drain) | (Err arm or dead Result local) | witness; all are non-trivial",
    )
