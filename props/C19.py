"""C19 (partial): growth/durability steps in the required order on every path (R-ORDER); on open,
header-declared sizes are compared with the bytes present (R-GUARD.open); loaders in the C19 files
never size/index from header fields unchecked (R-ALLOC/R-GUARD with header fields as untrusted)."""
from vlib import fixtures
import re

from rules import order, openguard, taint, trunc, partial, scratch
from vlib.mir import Fn
from vlib.run import Broken

MV = "memory::mmap_vec::MmapVec::<T>::"


def need(fx, fid):
    rec = fx.raw(fid)
    if rec is None:
        raise Broken("anchor function %s not found" % fid)
    return Fn(rec)


def run(ctx):
    fx = ctx.facts("default")
    order.use_facts(fx)
    fixtures.run(ctx, ['order', 'taint', 'trunc', 'arithmul', 'dropwrite', 'varint', 'openguard', 'takeexact', 'createtrunc', 'flushwhole'])
    R = "R-ORDER"
    f = need(fx, MV + "resize_to_capacity")
    ctx.analysed_fns.add(f.id)
    order.precede(ctx, f, r"fs::File::set_len$", r"::create_mmap$", R, "file extended before it is remapped")
    order.precede(ctx, f, r"MmapVec::<T>::sync$", r"::create_mmap$", R, "mapping written back before the file is re-read into the new mapping")
    order.precede(ctx, f, r"::create_mmap$", r"::set_capacity$", R, "capacity persisted only after the file was extended and remapped")
    order.precede(ctx, f, r"fs::File::set_len$", r"::set_capacity$", R, "capacity persisted only after File::set_len")
    order.precede(ctx, f, r"::update_pointers$", r"::set_capacity$", R, "header pointer refreshed before the capacity store")
    order.then_before_ok(ctx, f, r"::set_capacity$", r"MmapVec::<T>::sync$", R, "new capacity synced before success")
    # open() builds the value before it validates the file, so a refused file is seen by Drop: Drop must not write
    dr = [i for i in fx.fn_ids("src/memory/mmap_vec.rs") if i.endswith("as std::ops::Drop>::drop") and "MmapVec" in i]
    if not dr:
        raise Broken("Drop for MmapVec not found")
    df = Fn(fx.raw(dr[0]))
    ctx.analysed_fns.add(df.id)
    order.forbidden_in(ctx, df, r"fs::write$|Write::write_all$|Write>::write_all$|fs::File::set_len$|fs::File::sync_all$|MmapVec::<T>::sync$",
                       "R-ORDER.drop", "dropping a MmapVec (also the half-built one of a refused open) does not write to its file")
    f = need(fx, MV + "push")
    ctx.analysed_fns.add(f.id)
    order.precede(ctx, f, r"ptr::write$", r"::set_length$", R, "element written before the length is published")
    f = need(fx, "<blob_store::plain::PlainBlobStore as blob_store::traits::BlobStore>::put")
    ctx.analysed_fns.add(f.id)
    order.precede(ctx, f, r"Write::write_all$|io::Write>::write_all$", r"fs::File::sync_all$", R, "record written before it is synced")
    order.then_before_ok(ctx, f, r"Write::write_all$|io::Write>::write_all$", r"fs::File::sync_all$", R, "record synced before put returns Ok")
    f = need(fx, "blob_store::reorder_map::ZReorderMapBuilder::finish")
    ctx.analysed_fns.add(f.id)
    order.then_before_ok(ctx, f, r"write_all$", r"fs::File::sync_all$", R, "reorder map synced before finish returns Ok")
    order.precede(ctx, f, r"write_all$", r"fs::File::sync_all$", R, "buffer written before sync")
    fr = [i for i in fx.fn_ids("src/algorithms/external_sort.rs") if i.endswith("::finish_run")]
    if not fr:
        raise Broken("external_sort finish_run not found")
    f = Fn(fx.raw(fr[0]))
    ctx.analysed_fns.add(f.id)
    order.precede(ctx, f, r"Write>::flush$|Write::flush$", r"fs::File::sync_all$", R, "run flushed before it is synced")
    ctx.floor(R + ".events", 15)

    # header sizes vs bytes present on open
    f = need(fx, MV + "open")
    ctx.analysed_fns.add(f.id)
    openguard.check(ctx, f, r"::capacity$|MmapVecHeader::capacity|file_size_from_header|calculate_file_size",
                    r"fs::Metadata::len$|MmapAllocation::size$|fs::metadata$", fx=fx)
    ctx.instance("R-GUARD.open.sites")
    ctx.floor("R-GUARD.open.sites", 1)
    # validate_header must be on every successful open path
    order.then_before_ok(ctx, f, r"::update_pointers$", r"::validate_header$", R, "header validated before open returns Ok")

    # loaders of the C19 files: header fields are untrusted integers
    files = ["src/memory/mmap_vec.rs", "src/blob_store/reorder_map.rs", "src/blob_store/zip_offset.rs",
             "src/blob_store/plain.rs", "src/io/mmap.rs", "src/memory/mmap.rs"]
    cl = taint.new_closure(fx, scalar_fields=[r"MmapVecHeader::(length|capacity|element_size)$"])
    ent = re.compile(r"(^open$|load_from|from_bytes|^read_|^next$|^rewind$|scan_directory|^get$|^load$)")
    n = 0
    for fl in files:
        for fid in fx.fn_ids(fl):
            if "::tests::" in fid or "{closure" in fid:
                continue
            if ent.search(fid.rsplit("::", 1)[-1]) and cl.seed_entry(fid):
                n += 1
    res = cl.run()
    k = 0
    for fid, (fn, ft) in sorted(res.items()):
        ctx.analysed_fns.add(fid)
        k += taint.check_sinks(ctx, fn, ft, "")
        taint.check_arith(ctx, fn, ft, rule="R-ARITH.mul", ops=("Mul", "MulWithOverflow", "MulUnchecked"), fx=fx)
        ctx.instance("R-ARITH.mul.guards_examined", len(taint.Guards(fn, ft).items))
    ctx.instance("loader.entries", n)
    ctx.instance("loader.closure_fns", len(res))
    ctx.floor("loader.entries", 20)
    # a var_uint cut off by the end of the file is refused, not returned as a partial number
    nt = 0
    for fl in ("src/blob_store/reorder_map.rs", "src/io/mmap.rs"):
        for fid in fx.fn_ids(fl):
            if "::tests::" not in fid:
                nt += trunc.check(ctx, Fn(fx.raw(fid)))
    ctx.instance("R-TRUNC.decoders", nt)
    ctx.floor("R-TRUNC.decoders", 2)
    trunc.writer_threshold(ctx, fx, ['src/blob_store/reorder_map.rs'])
    # sections read with take(n).read_to_end are compared with their declared length (none on the pinned tree)
    partial.bounded_section_read(ctx, fx, fx.files() if ctx.tier == 'thorough' else files)
    # constructors of file-backed writers start from an empty file
    order.create_truncates(ctx, fx, fx.files() if ctx.tier == 'thorough' else files + ['src/concurrency/async_blob_store.rs'])
    ctx.floor('R-CREATE.truncate.sites', 2)
    # a write buffer that is cleared after a flush was flushed whole (no partial flush on the pinned tree)
    scratch.partial_flush_then_clear(ctx, fx, fx.files() if ctx.tier == 'thorough' else files)
    ctx.floor('R-VARINT.threshold.writers', 1)
    return dict(
        level_note="decides ordering/durability structure, the open-time size comparison and unchecked use of header "
                   "fields; which earlier sync point a torn file reopens to and content equality after reopen are "
                   "history/value-level and NOT decided",
        explanation="R-ORDER: dominator / must-pass-through checks over resolved callees (File::set_len, create_mmap, "
                    "set_capacity, sync, write_all, sync_all, flush) in the named writers. R-GUARD.open: a deciding "
                    "comparison between a header-declared size and the file/mapping length dominates every Ok return "
                    "of MmapVec::open. Loader closure: taint analysis with header fields as untrusted integers. R-TRUNC: "
                    "with the continuation-bit-clear edges removed, no Ok/Some result of a var_uint reader is reachable.",
        trusted_base=["rustc nightly MIR", "zfacts", "rules/order.py", "rules/openguard.py", "rules/taint.py", "rules/trunc.py",
                      "the (function, event A, event B) table in props/C19.py"],
        rule_text="obligation = (function, ordered event pair) | open-time size guard | (loader sink, untrusted operand)",
    )
