"""shared driver for the refusal-form checks (C04, C09, C10)"""
import re

from rules import refusal, taint
from vlib.mir import Fn

IDX = ('index', 'idx', 'i', 'pos', 'position', 'k', 'rank', 'n', 'offset', 'len', 'new_len', 'count', 'at', 'start',
       'end', 'id', 'block_idx', 'bit_index', 'bit_pos')


def unsafe_sinks(ctx, fx, files, label):
    """index-like parameters of public (or trait) safe functions must be guarded before any unchecked access"""
    cl = taint.new_closure(fx, use_registry=False)
    n = 0
    for f in files:
        for fid in fx.fn_ids(f):
            if '::tests::' in fid or '{closure' in fid:
                continue
            rec = fx.cg[fid]
            if (rec['vis'] != 'pub' and not rec['trait']) or rec['unsafe']:
                continue
            fn = Fn(fx.raw(fid))
            sp = [i for i in range(1, fn.nargs + 1) if fn.ty(i) in ('usize', 'u32', 'u64') and fn.local_name(i) in IDX]
            if sp and cl.seed_entry(fid, buf_params=[], scalar_params=sp):
                n += 1
    res = cl.run()
    k = 0
    for fid, (fn, ft) in sorted(res.items()):
        ctx.analysed_fns.add(fid)
        k += taint.check_sinks(ctx, fn, ft, '', kinds=('unsafe',))
    ctx.instance(label + ".entries", n)
    ctx.instance(label + ".closure_fns", len(res))
    ctx.instance(label + ".unchecked_sinks", k)
    return n, k


def accessors(ctx, fx, files, name_rx, rule, summaries=None, all_success=False):
    sm = summaries or taint.Summaries(fx)
    rx = re.compile(name_rx)
    k = 0
    for f in files:
        for fid in fx.fn_ids(f):
            if '::tests::' in fid or '{closure' in fid:
                continue
            rec = fx.cg[fid]
            if (rec['vis'] != 'pub' and not rec['trait']) or rec['unsafe']:
                continue
            if not rx.search(fid.rsplit('::', 1)[-1]):
                continue
            fn = Fn(fx.raw(fid))
            if fn.names.get(1) != "self":
                continue      # free helpers on a bare word are not accessors of a structure with a length
            ps = [i for i in range(1, fn.nargs + 1) if fn.ty(i) in ('usize', 'u32', 'u64') and fn.local_name(i) in IDX]
            if ps:
                ctx.analysed_fns.add(fid)
                k += refusal.param_refusal(ctx, fx, fn, ps, rule, sm, all_success=all_success)
    ctx.instance(rule + ".accessors", k)
    return k


def mutators(ctx, fx, files, rule):
    n = 0
    for f in files:
        for fid in fx.fn_ids(f):
            if '::tests::' in fid or '{closure' in fid:
                continue
            last = fid.rsplit('::', 1)[-1]
            m = re.match(r'^(push|pop)', last)
            if m and fx.cg[fid]['vis'] == 'pub' and not fx.cg[fid]['unsafe']:
                ctx.analysed_fns.add(fid)
                n += refusal.state_refusal(ctx, Fn(fx.raw(fid)), rule, m.group(1), fx=fx)
    ctx.instance(rule + ".effects", n)
    return n
