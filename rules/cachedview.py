"""R-CACHEDVIEW: a cached (pointer, length) view of a struct's own Vec is rebuilt whenever the Vec is reshaped.

struct : a struct with a Vec field F and a view field S such that some function of the file stores into S a value
         derived from `Vec::as_ptr` / `as_mut_ptr` / `as_slice` of F (found by shape; the pair is an explicit table entry and
         the check fails closed when no function builds S from F any more)
event  : a call of a Vec method that may move the allocation or change the length (reserve*, extend*, push, resize*, clear,
         truncate, append, insert, remove, shrink_to*, drain, set_len, split_off, retain*, dedup*, swap_remove, pop) whose
         receiver derives from F, a whole-field assignment to F, or a call of a method of the struct that itself contains
         such an event from which it can return without storing S (one level of helpers, fixed point)
rule   : from every event no normal return is reachable without passing a store to S: the view holds the address and the
         length of the Vec's buffer at the time it was built, so after the event `data()` hands out freed memory or a
         stale length.
"""
from vlib.mir import Fn, op_local, op_place, rv_operands
from rules.queue import field_of_receiver

RESHAPE = ("reserve", "reserve_exact", "try_reserve", "try_reserve_exact", "extend_from_slice", "extend", "extend_from_within",
           "push", "resize", "resize_with", "clear", "truncate", "append", "insert", "remove", "shrink_to_fit", "shrink_to",
           "drain", "set_len", "split_off", "retain", "retain_mut", "dedup", "dedup_by", "dedup_by_key", "swap_remove", "pop")
VIEWSRC = ("as_ptr", "as_mut_ptr", "as_slice", "as_mut_slice", "deref", "deref_mut", "index", "index_mut", "borrow", "as_ref")


def _field_elem(struct_path, field):
    return "." + struct_path + "::" + field


def _stores(fn, elem, refreshers=()):
    """locations (b, i) of assignments whose place ends in the field, and of calls of helpers that always store it"""
    out = []
    for loc, st in fn.iter_locs():
        if st[0] == "a" and len(st[1]) >= 2 and st[1][-1] == elem:
            out.append(loc)
        elif st[0] == "call" and st[1]["f"] in refreshers and st[1]["f"] != fn.id:
            out.append(loc)
    return out


def _always_stores(fn, elem):
    """every path from the entry to a normal return passes a direct store to the field"""
    sl = _stores(fn, elem)
    if not sl:
        return False
    avoid = {b for b, _ in sl}
    if 0 in avoid:
        return True
    return not (fn.reachable_from([0], avoid=avoid) & set(fn.exits()))


def _builds_view(fn, f_elem, s_elem, struct_path, field):
    """does fn store into S a value derived from as_ptr()/as_slice() of F?"""
    for loc in _stores(fn, s_elem):
        st = fn.stmt_at(loc)
        roots = [op_local(o) for o in rv_operands(st[2]) if op_local(o) is not None]
        if not roots:
            continue
        locs, sites = fn.backslice(roots)
        for l2, kind, pl in sites:
            if kind == "call" and pl["f"].rsplit("::", 1)[-1] in VIEWSRC and pl["a"]:
                r = op_local(pl["a"][0])
                if r is not None and field in field_of_receiver(fn, r, struct_path):
                    return True
    return False


def _events(fn, struct_path, field, f_elem, stale_helpers):
    """[(loc, description, line)]"""
    ev = []
    for b, c in fn.calls():
        last = c["f"].rsplit("::", 1)[-1]
        loc = (b, len(fn.stmts(b)))
        if "Vec" in c["f"] and last in RESHAPE and c["a"]:
            r = op_local(c["a"][0])
            if r is not None and field in field_of_receiver(fn, r, struct_path):
                ev.append((loc, "%s.%s()" % (field, last), c["ln"]))
        elif c["f"] in stale_helpers and c["f"] != fn.id:
            ev.append((loc, "%s() (reshapes %s and returns without refreshing the view)" % (last, field), c["ln"]))
    for loc, st in fn.iter_locs():
        if st[0] == "a" and len(st[1]) >= 2 and st[1][-1] == f_elem:
            ev.append((loc, "%s replaced" % field, st[3]))
    return ev


def _none_edges(fn, s_elem):
    """edges taken when the view field itself is None (`if let Some(v) = self.view { refresh }`): nothing is stale there"""
    out = set()
    for b in fn.blocks():
        t = fn.term(b)
        if t[0] != "sw":
            continue
        l = op_local(t[1])
        if l is None:
            continue
        ds = fn.defs(l)
        if len(ds) != 1 or ds[0][1] != "assign":
            continue
        rv = ds[0][2][2]
        if rv[0] != "disc" or not rv[1] or rv[1][-1] != s_elem:
            continue
        vals = {str(v): tgt for v, tgt in t[2]}
        if "0" in vals:
            out.add((b, vals["0"]))
        elif "1" in vals:
            out.add((b, t[3]))
    return out


def _escapes(fn, loc, store_locs, none_edges=()):
    """can a normal return be reached from just after `loc` without executing a store in store_locs?"""
    b, i = loc
    nst = len(fn.stmts(b))
    by_block = {}
    for sb, si in store_locs:
        by_block.setdefault(sb, []).append(si)
    if i < nst and any(si > i for si in by_block.get(b, [])):
        return False
    exits = set(fn.exits())
    if i < nst and b in exits:
        return True
    avoid = set(by_block)
    reach = fn.reachable_from(fn.succ(b), avoid=avoid, avoid_edges=none_edges)
    return bool(reach & exits)


def run(ctx, fx, file, struct_path, field, view, rule="R-CACHEDVIEW", only=None):
    f_elem, s_elem = _field_elem(struct_path, field), _field_elem(struct_path, view)
    fns = {}
    for fid in fx.fn_ids(file):
        if "::tests::" in fid or "{closure" in fid or (only and not only(fid)):
            continue
        fns[fid] = Fn(fx.raw(fid))
    builders = [fid for fid, fn in fns.items() if _builds_view(fn, f_elem, s_elem, struct_path, field)]
    ctx.instance(rule + ".builders", len(builders))
    if not builders:
        return 0
    refreshers = {fid for fid, fn in fns.items() if _always_stores(fn, s_elem)}
    ctx.instance(rule + ".refreshers", len(refreshers))
    # helpers that leave the view stale (fixed point over intra-file calls)
    stale = set()
    while True:
        grew = False
        for fid, fn in fns.items():
            if fid in stale:
                continue
            sl = _stores(fn, s_elem, refreshers)
            if any(_escapes(fn, loc, sl, _none_edges(fn, s_elem)) for loc, _, _ in _events(fn, struct_path, field, f_elem, stale)):
                stale.add(fid)
                grew = True
        if not grew:
            break
    n = 0
    for fid, fn in sorted(fns.items()):
        evs = _events(fn, struct_path, field, f_elem, stale)
        if not evs:
            continue
        sl = _stores(fn, s_elem, refreshers)
        ne = _none_edges(fn, s_elem)
        ctx.analysed_fns.add(fid)
        private = fx.raw(fid).get("vis") == "priv" and any(fid in (c["f"] for _, c in g.calls()) for g in fns.values() if g.id != fid)
        for loc, what, ln in evs:
            n += 1
            bad = _escapes(fn, loc, sl, ne)
            if bad and private:
                # a private helper called inside the file: the obligation is carried by its call sites (it is in `stale`)
                ctx.obligation(rule, fid, "%s after %s: left to the callers" % (view, what), True,
                               sample={"fn": fid, "event": what, "line": ln, "deferred_to_callers": True})
                continue
            ctx.obligation(rule, fid, "%s refreshed after %s" % (view, what), not bad,
                           sample={"fn": fid, "event": what, "line": ln, "view_stores": len(sl)})
            if bad:
                ctx.violation(rule, fid, "%s not refreshed after %s" % (view, what.split(" ")[0]),
                              "%s (line %s) can move or resize the buffer of %s, and a normal return is reachable from it without a store "
                              "to %s: the cached view keeps the old address / length, so the next data() hands out freed memory or "
                              "stale bytes" % (what, ln, field, view), fn.file, ln)
    ctx.instance(rule + ".events", n)
    return n


def setters_always_refresh(ctx, fx, file, struct_path, view, setters, rule="R-CACHEDVIEW.set", only=None):
    """The methods that *replace* the buffer's contents (an explicit table) store the view on every path from entry to a normal
    return - directly or through a helper that always stores it: a path that returns early leaves the previous contents visible."""
    s_elem = _field_elem(struct_path, view)
    fns = {}
    for fid in fx.fn_ids(file):
        if "::tests::" in fid or "{closure" in fid or (only and not only(fid)):
            continue
        fns[fid] = Fn(fx.raw(fid))
    refreshers = {fid for fid, fn in fns.items() if _always_stores(fn, s_elem)}
    n = 0
    for fid, fn in sorted(fns.items()):
        if fid.rsplit("::", 1)[-1] not in setters or not (fx.raw(fid).get("self_ty") or "").split("<")[0].endswith(struct_path):
            continue
        n += 1
        ctx.analysed_fns.add(fid)
        sl = _stores(fn, s_elem, refreshers)
        avoid = {b for b, _ in sl}
        ok = bool(sl) and (0 in avoid or not (fn.reachable_from([0], avoid=avoid) & set(fn.exits())))
        ctx.obligation(rule, fid, "%s stored on every path" % view, ok, sample={"fn": fid, "view_stores": len(sl)})
        if not ok:
            ctx.violation(rule, fid, "%s not stored on every path" % view,
                          "%s replaces the contents of the buffer, yet a normal return is reachable from its entry without a store to %s: "
                          "on that path data() still shows the previous contents" % (fid.rsplit("::", 1)[-1], view), fn.file, fn.line)
    ctx.instance(rule + ".setters", n)
    return n
