"""R-CAPSRC: the output bound handed to a bounded decompression call does not come from the compressed input's length.

site : a call whose callee matches BOUNDED (zstd::bulk::decompress, Decompressor::decompress, decompress_to_buffer, lz4
       decompress with a size) with a byte-slice argument and an integer argument
rule : the integer argument is not derived (def-use, through crate-local arithmetic) from the byte-slice argument. The
       compression ratio of these codecs is unbounded, so any bound computed from the compressed length is too small for
       some payload whose compression succeeded: decompress(compress(x)) then fails or is cut. A constant limit or a
       size stored next to the payload is accepted.
"""
import re

from vlib.mir import Fn, op_local, op_const

BOUNDED = re.compile(r"zstd::bulk::decompress$|zstd::bulk::Decompressor(<[^>]*>)?::decompress$|::decompress_to_buffer$|"
                     r"lz4_flex::(block::)?decompress$|lz4::block::decompress$|::decompress_with_capacity$|::decompress_bounded$")


def run(ctx, fx, files=None, rule="R-CAPSRC", only=None, callee_rx=None):
    rx = re.compile(callee_rx) if callee_rx else BOUNDED
    n = 0
    for f in (files or fx.files()):
        for fid in fx.fn_ids(f):
            if "::tests::" in fid or (only and not only(fid)):
                continue
            for k in range(fx.count(fid)):
                fn = Fn(fx.raw(fid, k))
                for b, c in fn.calls():
                    if not rx.search(c["f"]):
                        continue
                    bufs = [op_local(a) for a in c["a"] if op_local(a) is not None and "[u8]" in fn.ty(op_local(a))]
                    ints = [a for a in c["a"] if (op_local(a) is not None and fn.ty(op_local(a)) in ("usize", "u64", "u32", "i32", "Option<i32>", "std::option::Option<i32>"))
                            or (op_const(a) is not None and isinstance(op_const(a)[0], int))]
                    if not bufs or not ints:
                        continue
                    n += 1
                    ctx.analysed_fns.add(fid)
                    roots = set()
                    for bl in bufs:
                        locs, _ = fn.backslice([bl], max_nodes=200)
                        roots |= {l for l in locs if 1 <= l <= fn.nargs and "[u8]" in fn.ty(l)} | {bl}
                    fam = {l for l in fn.forward_locals(roots) | roots if "[u8]" in fn.ty(l) or "Vec<u8>" in fn.ty(l)}
                    lens = set()
                    for loc, st in fn.iter_locs():
                        if st[0] == "a" and st[2][0] == "un" and st[2][1] == "PtrMetadata" and op_local(st[2][2]) in fam and len(st[1]) == 1:
                            lens.add(st[1][0])
                        elif st[0] == "call" and st[1]["f"].rsplit("::", 1)[-1] == "len" and st[1]["a"] and op_local(st[1]["a"][0]) in fam:
                            lens.add(st[1]["d"][0])
                    fw = (fn.forward_locals(lens) | lens) if lens else set()
                    bad = [op_local(a) for a in ints if op_local(a) is not None and op_local(a) in fw]
                    ok = not bad
                    ctx.obligation(rule, fid, "output bound independent of the compressed length", ok,
                                   sample={"fn": fid, "callee": c["f"], "line": c["ln"],
                                           "bound": "const" if all(op_const(a) is not None for a in ints) else "computed"})
                    if not ok:
                        ctx.violation(rule, fid, "output bound of %s derived from the input length" % c["f"].rsplit("::", 1)[-1],
                                      "%s passes %s (line %d) an output bound computed from the compressed bytes themselves: "
                                      "a payload that compresses better than the assumed ratio cannot be decompressed again"
                                      % (fid.rsplit("::", 1)[-1], c["f"], c["ln"]), fn.file, c["ln"])
    ctx.instance(rule + ".sites", n)
    return n


# ------------------------------------------------------------------ R-HINT
_ALLOWED = re.compile(r"::(reserve|reserve_exact|try_reserve|try_reserve_exact|with_capacity|with_capacity_in|min|max|saturating_add|"
                      r"saturating_sub|saturating_mul|checked_add|checked_mul|unwrap_or|unwrap_or_default|branch|from_residual|next_power_of_two)$")


def hint_only_reserves(ctx, fx, files, rule="R-HINT", only=None):
    """`Iterator::size_hint` is advisory (a lower bound for filter/flat_map chains, 0 for many adaptors). A value derived
    from it may size a reservation; it must not be added to an atomic counter (id / cursor allocation) nor stored into
    a field of the object: ids or lengths booked from the hint disagree with the number of items actually consumed."""
    from vlib.mir import rv_operands
    n = 0
    for f in files:
        for fid in fx.fn_ids(f):
            if "::tests::" in fid or fid.endswith("::size_hint") or (only and not only(fid)):
                continue
            for k in range(fx.count(fid)):
                fn = Fn(fx.raw(fid, k))
                for b, c in fn.calls():
                    if not c["f"].endswith("::size_hint"):
                        continue
                    n += 1
                    ctx.analysed_fns.add(fid)
                    fw = fn.forward_locals([c["d"][0]]) | {c["d"][0]}
                    bad = None
                    for b2, c2 in fn.calls():
                        if re.search(r"atomic::Atomic[\w:<>]*::(fetch_add|fetch_sub|store|swap|fetch_max)$", c2["f"]) and \
                                any(op_local(a) in fw for a in c2["a"][1:]):
                            bad = ("is added to / stored in an atomic counter (%s)" % c2["f"].rsplit("::", 1)[-1], c2["ln"])
                    if bad is None:
                        for loc, st in fn.iter_locs():
                            if st[0] == "a" and len(st[1]) > 1 and any(isinstance(e, str) and e.startswith(".") for e in st[1][1:]) and \
                                    "*" in st[1][1:] and any(op_local(o) in fw for o in rv_operands(st[2])):
                                bad = ("is stored into a field of the object", st[3])
                    ok = bad is None
                    ctx.obligation(rule, fid, "size_hint only sizes reservations", ok, sample={"fn": fid, "line": c["ln"]})
                    if not ok:
                        ctx.violation(rule, fid, "size_hint used as a count",
                                      "%s takes Iterator::size_hint (line %d) and the value %s at line %d: the hint is only a lower bound, so "
                                      "the booked amount and the number of items consumed can differ"
                                      % (fid.rsplit("::", 1)[-1], c["ln"], bad[0], bad[1]), fn.file, bad[1])
    ctx.instance(rule + ".sites", n)
    return n


# ------------------------------------------------------------------ R-CLAMPLOOP
def clamped_count(ctx, fx, files, rule="R-CLAMPLOOP", fn_rx=r"deserialize|read_vec|read_map|read_seq|from_reader", only=None):
    """a deserialiser may clamp the declared element count to size its *reservation*; the number of elements it reads is
    the declared count itself. In functions matching fn_rx, a value that went through `min(_, CONST)` is never the end of
    the `start..end` range of a loop that decodes elements: the surplus elements would stay in the stream and the
    container comes back short, with Ok."""
    from rules.prune import natural_loops
    frx = re.compile(fn_rx)
    n = 0
    for f in files:
        for fid in fx.fn_ids(f):
            if "::tests::" in fid or not frx.search(fid.rsplit("::", 1)[-1]) or (only and not only(fid)):
                continue
            for k in range(fx.count(fid)):
                fn = Fn(fx.raw(fid, k))
                loops = None
                for b, c in fn.calls():
                    if not (re.search(r"(Ord|cmp)::min$", c["f"]) and len(c["a"]) == 2 and any(op_const(a) is not None for a in c["a"])):
                        continue
                    n += 1
                    ctx.analysed_fns.add(fid)
                    fw = fn.forward_locals([c["d"][0]]) | {c["d"][0]}
                    bad = None
                    for (rb, ri), st in fn.iter_locs():
                        if st[0] == "a" and st[2][0] == "agg" and isinstance(st[2][1], str) and "ops::Range" in st[2][1] \
                                and len(st[2][2]) == 2 and op_local(st[2][2][1]) in fw:
                            if loops is None:
                                loops = natural_loops(fn)
                            # the range feeds a loop whose body decodes elements
                            rfw = fn.forward_locals([st[1][0]]) | {st[1][0]}
                            for h, body in loops:
                                drives = any(bb in body and cc["f"].rsplit("::", 1)[-1] == "next" and cc["a"] and
                                             (op_local(cc["a"][0]) in rfw or any(x in rfw for x in fn.points_to(op_local(cc["a"][0]))))
                                             for bb, cc in fn.calls() if op_local(cc["a"][0] if cc["a"] else None) is not None)
                                decodes = any(bb in body and re.search(r"deserialize|::read_\w+$", cc["f"]) for bb, cc in fn.calls())
                                if drives and decodes:
                                    bad = st[3]
                    ok = bad is None
                    ctx.obligation(rule, fid, "clamped count only sizes the reservation", ok, sample={"fn": fid, "min_line": c["ln"]})
                    if not ok:
                        ctx.violation(rule, fid, "element loop bounded by a clamped count",
                                      "%s clamps the declared count with min(_, const) (line %d) and uses the clamped value as the bound of the "
                                      "loop that decodes the elements (line %d): a longer container is cut short and the rest of the stream is "
                                      "misparsed" % (fid.rsplit("::", 1)[-1], c["ln"], bad), fn.file, bad)
    ctx.instance(rule + ".clamps", n)
    return n
