"""R-ERRDEAD: an Err of a watched error type must not be swallowed.

(a) arm form: a SwitchInt on the discriminant of a Result whose type mentions a watched
    error type; the Err arm (blocks exclusive to the Err edge) neither reads the payload nor
    builds an Err / propagates with `?`  => swallowed.
(b) dead-result form: a local of such a Result type that is written (call result / await
    result) and never read (`let _ = handle.await;`).
"""
from vlib.mir import Fn, op_local, op_place, rv_operands

WATCHED = ("error::ZiporaError", "JoinError", "tokio::time::error::Elapsed")

STD_VARIANTS = {"Ok": 0, "Err": 1}


def is_result_ty(t):
    return t.startswith("std::result::Result<") or t.startswith("core::result::Result<")


def watched_ty(t):
    return is_result_ty(t) and any(w in t for w in WATCHED)


def place_startswith(p, prefix):
    return len(p) >= len(prefix) and p[:len(prefix)] == prefix


def region_reads_payload(fn, region, base_place):
    pref = base_place + ["@Err"]
    for b in region:
        for s in fn.stmts(b):
            if s[0] == "a":
                for o in rv_operands(s[2]):
                    p = op_place(o)
                    if p and place_startswith(p, pref):
                        return True
        t = fn.term(b)
        ops = []
        if t[0] == "call":
            ops = t[1]["a"]
        elif t[0] == "sw":
            ops = [t[1]]
        elif t[0] == "yield":
            ops = [t[1]]
        for o in ops:
            p = op_place(o)
            if p and place_startswith(p, pref):
                return True
        if t[0] == "drop" and place_startswith(t[1], pref):
            # dropping the payload explicitly is still a discard
            pass
    return False


def region_surfaces_error(fn, region):
    for b in region:
        for s in fn.stmts(b):
            if s[0] == "a" and s[2][0] == "agg" and isinstance(s[2][1], str) \
                    and s[2][1].endswith("result::Result::Err"):
                return True
        t = fn.term(b)
        if t[0] == "call":
            f = t[1]["f"]
            if f.endswith("FromResidual<std::result::Result<std::convert::Infallible, E>>>::from_residual") \
                    or "from_residual" in f:
                return True
            if "panicking::" in f or f.endswith("::unwrap_failed") or f.endswith("expect_failed"):
                return True   # a loud failure, not a silent one
    return False


def check_fn(ctx, fn, rule="R-ERRDEAD"):
    n = 0
    for b in fn.blocks():
        t = fn.term(b)
        if t[0] != "sw":
            continue
        d = op_local(t[1])
        if d is None:
            continue
        ds = fn.defs(d)
        if len(ds) != 1 or ds[0][1] != "assign" or ds[0][2][2][0] != "disc":
            continue
        rv = ds[0][2][2]
        place, pty = rv[1], (rv[2] if len(rv) > 2 else "")
        if not watched_ty(pty):
            continue
        # matching through a shared reference only inspects the Result; it stays alive
        if "*" in place[1:] and fn.ty(place[0]).startswith("&") and not fn.ty(place[0]).startswith("&mut"):
            continue
        ev = fn.switch_edge_values(b)
        explicit = [int(v) for v, _ in t[2]]
        err_t = ok_t = None
        for tgt, vals in ev.items():
            if 1 in vals or ("otherwise" in vals and 0 in explicit and 1 not in explicit):
                err_t = tgt
            if 0 in vals or ("otherwise" in vals and 1 in explicit and 0 not in explicit):
                ok_t = tgt
        if err_t is None or err_t == ok_t:
            continue
        n += 1
        ok_reach = fn.reachable_from([ok_t], avoid=[b]) if ok_t is not None else set()
        region = {x for x in fn.reachable_from([err_t], avoid=[b])
                  if fn.dominates(err_t, x) and x not in ok_reach}
        reads = region_reads_payload(fn, region, place)
        if not reads:
            # the Result itself is used after the arm (returned / moved on): not swallowed here
            after = fn.reachable_from([err_t], avoid=[b])
            for loc, p in fn.reads(place[0]):
                if loc[0] in after and (len(p) == 1 or place_startswith(p, place + ["@Err"])):
                    reads = True
                    break
        surf = region_surfaces_error(fn, region)
        # is the error already unreachable (e.g. Result<_, Infallible>)?
        good = reads or surf
        ctx.obligation(rule, fn.id, "switch@%s" % fn.local_name(place[0]), good,
                       sample={"fn": fn.id, "result_type": pty[:120], "err_arm_blocks": len(region),
                               "payload_read": reads, "builds_err_or_propagates": surf, "line": t[4]})
        if not good:
            ctx.violation(rule, fn.id, "Err arm of match on %s" % fn.local_name(place[0]),
                          "the Err(%s) arm neither reads the error nor returns/records one: a failed or timed-out "
                          "item is dropped silently" % ("…"), fn.file, t[4])
    # dead result locals
    for l, ty in enumerate(fn.locals):
        if l <= fn.nargs or not watched_ty(ty):
            continue
        ds = [d for d in fn.defs(l) if d[1] in ("assign", "call") and len((d[2][1] if d[1] == "assign" else d[2]["d"])) == 1]
        if not ds:
            continue
        if fn.reads(l):
            continue
        # ignore compiler temporaries that are immediately dropped inside macro expansions of `?`
        line = ds[0][2][3] if ds[0][1] == "assign" else ds[0][2]["ln"]
        n += 1
        ctx.obligation(rule, fn.id, "dead-result:%s" % fn.local_name(l), False,
                       sample={"fn": fn.id, "local": fn.local_name(l), "type": ty[:120], "line": line})
        ctx.violation(rule, fn.id, "discarded Result local %s" % (fn.names.get(l) or "tmp:" + ty[:60]),
                      "a Result carrying %s is produced and never examined (`let _ = …`)" % ty[:80],
                      fn.file, line)
    return n


def run(ctx, fx, files, rule="R-ERRDEAD", exempt=None):
    total = 0
    exempt = exempt or {}
    for f in files:
        for fid in fx.fn_ids(f):
            if any(fid.startswith(e) for e in exempt):
                continue
            for k in range(fx.count(fid)):
                rec = fx.raw(fid, k)
                fn = Fn(rec)
                ctx.analysed_fns.add(fid)
                total += check_fn(ctx, fn, rule)
    ctx.instance(rule + ".sites", total)
    return total


# ------------------------------------------------------------------ R-FLATTEN
def no_result_flatten(ctx, fx, files, rule="R-FLATTEN", only=None):
    """`Result` implements IntoIterator (Ok -> one item, Err -> none), so `iter.flatten()` / `flat_map(|r| r)` /
    `filter_map(Result::ok)` over an iterator of Results compiles and silently drops every failure. In the files where
    each item / task must end in exactly one result or a reported error, no such call is made on an iterator whose
    item type is `Result<_, _>`."""
    import re as _re
    from vlib.mir import Fn, op_local
    n = 0
    for f in files:
        for fid in fx.fn_ids(f):
            if "::tests::" in fid or (only and not only(fid)):
                continue
            for k in range(fx.count(fid)):
                fn = Fn(fx.raw(fid, k))
                for b, c in fn.calls():
                    last = c["f"].rsplit("::", 1)[-1]
                    if last not in ("flatten", "filter_map", "flat_map") or "Iterator" not in c["f"] or not c["a"]:
                        continue
                    l = op_local(c["a"][0])
                    if l is None:
                        continue
                    ty = fn.ty(l)
                    # item type of the adapter chain: the innermost generic argument list that mentions Result
                    over_results = bool(_re.search(r"(IntoIter|Iter|Drain|Map|Chain|Zip|Enumerate)<.*result::Result<", ty))
                    if not over_results:
                        continue
                    if last == "filter_map":
                        # only `filter_map(Result::ok)` / `|r| r.ok()` drops errors: the closure argument is Result::ok or calls it
                        a1 = c["a"][1] if len(c["a"]) > 1 else None
                        t1 = fn.ty(op_local(a1)) if a1 is not None and op_local(a1) is not None else ""
                        if "Result::<" not in t1 and "::ok" not in t1:
                            body = [x for x in fx.fn_ids(f) if x.startswith(fid.split("::{")[0]) and "{closure" in x]
                            drops = False
                            for bid in body:
                                for kk in range(fx.count(bid)):
                                    if any(cc["f"].endswith("Result::<T, E>::ok") for bb, cc in Fn(fx.raw(bid, kk)).calls()):
                                        drops = True
                            if not drops:
                                continue
                    n += 1
                    ctx.analysed_fns.add(fid)
                    ctx.obligation(rule, fid, "no %s over an iterator of Results" % last, False,
                                   sample={"fn": fid, "line": c["ln"], "iterator": ty[:100]})
                    ctx.violation(rule, fid, "%s over Results drops the failures" % last,
                                  "%s calls Iterator::%s (line %d) on %s: every Err item vanishes, the caller gets Ok with fewer, "
                                  "shifted results" % (fid.rsplit("::{", 1)[0].rsplit("::", 1)[-1], last, c["ln"], ty[:90]), fn.file, c["ln"])
    ctx.instance(rule + ".sites", n)
    return n
