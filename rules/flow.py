"""R-FLOW: existence of a data path from a payload's *content* to a sink (metadata uses such as
len()/memory_usage()/is_empty() do not count)."""
import re

from vlib.mir import Fn, op_local, op_place, rv_operands

META_CALLS = ("len", "is_empty", "memory_usage", "capacity", "size", "count", "total_size", "num_bits")


def content_thru(c):
    return c["f"].rsplit("::", 1)[-1] not in META_CALLS


def field_reaches_sink(fn, field_suffix, sink_rx, arg_index=None):
    """does the content of self.<field> reach an argument of a call matching sink_rx?"""
    rx = re.compile(sink_rx)
    key = field_suffix
    for b, c in fn.calls():
        if not (rx.search(c["f"]) or rx.search(c.get("st", ""))):
            continue
        args = c["a"] if arg_index is None else c["a"][arg_index:arg_index + 1]
        for a in args:
            l = op_local(a)
            if l is None:
                continue
            locs, sites = fn.backslice([l], call_through=content_thru)
            for loc, kind, pl in sites:
                ops = rv_operands(pl[2]) if kind in ("assign", "store") else (pl["a"] if content_thru(pl) else [])
                for o in ops:
                    p = op_place(o)
                    if p and any(isinstance(e, str) and e.endswith(key) for e in p[1:]):
                        return True
    return False


def source_reaches_field(fn, source_rx, field_suffix, fx=None):
    """does data produced by a call matching source_rx (incl. buffers it fills) reach a store into /
    a mutating call on self.<field>? With fx, a crate-local helper that receives the data and stores its parameter
    into the field (two levels) counts."""
    rx = re.compile(source_rx)
    srcs = set()
    for b, c in fn.calls():
        if rx.search(c["f"]) or rx.search(c.get("st", "")):
            srcs.add(c["d"][0])
            for a in c["a"]:
                l = op_local(a)
                if l is not None:
                    srcs |= _buffer_roots(fn, l)
    if not srcs:
        return False
    return _locals_reach_field(fn, srcs, field_suffix, fx, 0)


def _buffer_roots(fn, l, depth=0):
    """the storage a `&mut [u8]` argument points into, through reborrows and deref_mut / index_mut / as_mut_slice calls"""
    out = set(fn.points_to(l))
    if depth > 6:
        return out
    for loc, kind, pl in fn.defs(l):
        if kind == "assign":
            rv = pl[2]
            if rv[0] == "use" and op_local(rv[1]) is not None:
                out |= _buffer_roots(fn, op_local(rv[1]), depth + 1)
            elif rv[0] in ("ref", "refmut") and rv[1] and rv[1][0] != l:
                out |= _buffer_roots(fn, rv[1][0], depth + 1) | ({rv[1][0]} if len(rv[1]) == 1 else set())
        elif kind == "call" and pl["a"] and pl["f"].rsplit("::", 1)[-1] in ("deref_mut", "index_mut", "as_mut_slice", "as_mut", "borrow_mut"):
            a0 = op_local(pl["a"][0])
            if a0 is not None:
                out |= _buffer_roots(fn, a0, depth + 1)
    return out


def _locals_reach_field(fn, srcs, field_suffix, fx, depth):
    fw = fn.forward_locals(srcs, call_through=content_thru) | set(srcs)
    for loc, st in fn.iter_locs():
        if st[0] == "a":
            dst = st[1]
            if len(dst) > 1 and any(isinstance(e, str) and e.endswith(field_suffix) for e in dst[1:]):
                if any(op_local(o) in fw for o in rv_operands(st[2])):
                    return True
            if st[2][0] == "agg" and st[2][3] and field_suffix.rsplit("::", 1)[-1] in st[2][3]:
                o = st[2][2][st[2][3].index(field_suffix.rsplit("::", 1)[-1])]
                if op_local(o) in fw:
                    return True
        elif st[0] == "call":
            c = st[1]
            if c["a"]:
                l0 = op_local(c["a"][0])
                if l0 is not None:
                    _, sites = fn.backslice([l0], max_nodes=40)
                    recv_is_field = False
                    for loc2, kind2, pl2 in sites:
                        if kind2 == "assign":
                            for o in rv_operands(pl2[2]):
                                p = op_place(o)
                                if p and any(isinstance(e, str) and e.endswith(field_suffix) for e in p[1:]):
                                    recv_is_field = True
                    if recv_is_field and any(op_local(a) in fw for a in c["a"][1:]):
                        return True
            if fx is not None and depth < 2 and fx.has(c["f"]) and \
                    (fx.raw(c["f"])["self_ty"] or "").split("<")[0].endswith(field_suffix.rsplit("::", 1)[0]):
                # a method of the same struct that is handed the data (not as its receiver) and stores it into the field
                params = [i + 1 for i, a in enumerate(c["a"]) if i > 0 and op_local(a) is not None and
                          (op_local(a) in fw or any(x in fw for x in fn.points_to(op_local(a))))]
                if params and _locals_reach_field(Fn(fx.raw(c["f"])), params, field_suffix, fx, depth + 1):
                    return True
    return False


# ------------------------------------------------------------------ R-FLOW.serde
def serde_fields_restored(ctx, fx, struct_rx, rule="R-FLOW.serde", path_rx=r"blob_store"):
    """in the derive-generated Deserialize visitors (visit_seq / visit_map) of the persistent store structs, every field
    of the struct is built from a value taken out of the input (`next_element` / `next_value`), none from a default:
    a skipped id counter restarts at its initial value after a reload and the next put overwrites a live record."""
    import re
    from vlib.mir import Fn, op_local
    srx, prx = re.compile(struct_rx), re.compile(path_rx)
    n = 0
    for fid in fx.fn_ids():
        if not (("visit_seq" in fid or "visit_map" in fid) and prx.search(fid)):
            continue
        fn = Fn(fx.raw(fid))
        for loc, st in fn.iter_locs():
            if st[0] != "a" or st[2][0] != "agg" or not isinstance(st[2][1], str) or not st[2][1].startswith("adt:") or not st[2][3]:
                continue
            adt = st[2][1][4:].rsplit("::", 1)[0]
            if not srx.search(adt):
                continue
            n += 1
            ctx.analysed_fns.add(fid)
            missing = []
            for name, o in zip(st[2][3], st[2][2]):
                l = op_local(o)
                ok = False
                if l is not None:
                    locs, sites = fn.backslice([l], max_nodes=80)
                    ok = any(k == "call" and pl["f"].rsplit("::", 1)[-1] in ("next_element", "next_value", "next_element_seed", "next_value_seed")
                             for _, k, pl in sites)
                if not ok:
                    missing.append(name)
            ctx.obligation(rule, fid, "%s restored field by field" % adt.rsplit("::", 1)[-1], not missing,
                           sample={"visitor": fid[-60:], "struct": adt.rsplit("::", 1)[-1], "fields": list(st[2][3]), "not_from_input": missing})
            if missing:
                ctx.violation(rule, adt, "field %s not restored by Deserialize" % missing,
                              "deserialising a %s fills %s from a default instead of the serialised data: after a save/load cycle "
                              "the store continues from the initial value (an id counter hands out ids of live records again)"
                              % (adt.rsplit("::", 1)[-1], missing), fn.file, st[3])
    ctx.instance(rule + ".visitors", n)
    return n


# ------------------------------------------------------------------ R-FLOW.builder
def _fields_touched(fn, pref, write_only=False):
    """fields of the struct (prefix `.path::`) that fn reads through its receiver (or only those it grows, write_only)"""
    out = set()
    for loc, st in fn.iter_locs():
        places = []
        if st[0] == "a":
            if write_only:
                continue
            places = [op_place(o) for o in rv_operands(st[2])]
        elif st[0] == "call":
            c = st[1]
            if write_only and c["f"].rsplit("::", 1)[-1] not in ("push", "extend", "extend_from_slice", "push_back", "insert", "append", "push_str"):
                continue
            places = [op_place(o) for o in c["a"]]
            if write_only and c["a"]:
                # receiver `&mut self.F` built in an earlier statement
                l0 = op_local(c["a"][0])
                if l0 is not None:
                    for d in fn.defs(l0):
                        if d[1] == "assign" and d[2][2][0] in ("ref", "refmut"):
                            places.append(d[2][2][1])
        for p in places:
            if p and p[0] == 1:
                for e in p[1:]:
                    if isinstance(e, str) and e.startswith(pref):
                        out.add(e[len(pref):])
    return out


def builder_consumes(ctx, fx, file, struct_path, rule="R-FLOW.builder",
                     adders_rx=r"::(add\w*|push\w*|insert\w*|put\w*|append\w*)$", finish_rx=r"::(finish|build)$"):
    """what a bulk builder collects must be looked at when it is finished: every collection field that an add/push
    method of the builder grows is read by `finish` itself or by a method of the builder that `finish` hands `self` to
    (two levels). A finish that builds its result without ever reading the collected records returns an empty store."""
    pref = "." + struct_path + "::"
    ids = [f for f in fx.fn_ids(file) if "::tests::" not in f and "{closure" not in f
           and (fx.raw(f)["self_ty"] or "").split("<")[0] == struct_path]
    grown = {}
    for f in ids:
        if re.search(adders_rx, f):
            for fld in _fields_touched(Fn(fx.raw(f)), pref, write_only=True):
                grown.setdefault(fld, f)
    fin = [f for f in ids if re.search(finish_rx, f)]
    n = 0
    for f in fin:
        read = set()
        seen = set()

        def walk(fid, depth):
            if fid in seen or depth > 2:
                return
            seen.add(fid)
            fn = Fn(fx.raw(fid))
            read.update(_fields_touched(fn, pref))
            for b, c in fn.calls():
                if c["f"] in ids and any(op_place(a) and op_place(a)[0] == 1 or
                                         (op_local(a) is not None and 1 in fn.backslice([op_local(a)], max_nodes=12)[0]) for a in c["a"]):
                    walk(c["f"], depth + 1)
        walk(f, 0)
        for fld in sorted(grown):
            n += 1
            ok = fld in read
            ctx.analysed_fns.add(f)
            ctx.obligation(rule, f, "collected field %s is read when the builder is finished" % fld, ok,
                           sample={"finish": f, "field": fld, "grown_by": grown[fld], "fields_read": sorted(read)[:8]})
            if not ok:
                ctx.violation(rule, f, "collected field %s never read" % fld,
                              "%s grows self.%s, but %s builds its result without reading that field (fields read: %s): the records "
                              "handed to the builder are not in what it returns"
                              % (grown[fld].rsplit("::", 1)[-1], fld, f.rsplit("::", 1)[-1], ", ".join(sorted(read)) or "none"),
                              fx.raw(f)["file"], fx.raw(f)["line"])
    ctx.instance(rule + ".fields", n)
    return n
