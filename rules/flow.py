"""R-FLOW: existence of a data path from a payload's *content* to a sink (metadata uses such as
len()/memory_usage()/is_empty() do not count)."""
import re

from vlib.mir import Fn, op_local, op_place, rv_operands

META_CALLS = ("len", "is_empty", "memory_usage", "capacity", "size", "count", "total_size", "num_bits")


def content_thru(c):
    return c["f"].rsplit("::", 1)[-1] not in META_CALLS


def field_reaches_sink(fn, field_suffix, sink_rx, arg_index=None):
    """does the content of self.<field> reach an argument of a call matching sink_rx?"""
    rx = re.compile(sink_rx)
    key = field_suffix
    for b, c in fn.calls():
        if not (rx.search(c["f"]) or rx.search(c.get("st", ""))):
            continue
        args = c["a"] if arg_index is None else c["a"][arg_index:arg_index + 1]
        for a in args:
            l = op_local(a)
            if l is None:
                continue
            locs, sites = fn.backslice([l], call_through=content_thru)
            for loc, kind, pl in sites:
                ops = rv_operands(pl[2]) if kind in ("assign", "store") else (pl["a"] if content_thru(pl) else [])
                for o in ops:
                    p = op_place(o)
                    if p and any(isinstance(e, str) and e.endswith(key) for e in p[1:]):
                        return True
    return False


def source_reaches_field(fn, source_rx, field_suffix):
    """does data produced by a call matching source_rx (incl. buffers it fills) reach a store into /
    a mutating call on self.<field>?"""
    rx = re.compile(source_rx)
    srcs = set()
    for b, c in fn.calls():
        if rx.search(c["f"]) or rx.search(c.get("st", "")):
            srcs.add(c["d"][0])
            for a in c["a"]:
                l = op_local(a)
                if l is not None:
                    srcs |= set(fn.points_to(l))
    if not srcs:
        return False
    fw = fn.forward_locals(srcs, call_through=content_thru)
    for loc, st in fn.iter_locs():
        if st[0] == "a":
            dst = st[1]
            if len(dst) > 1 and any(isinstance(e, str) and e.endswith(field_suffix) for e in dst[1:]):
                if any(op_local(o) in fw for o in rv_operands(st[2])):
                    return True
            if st[2][0] == "agg" and st[2][3] and field_suffix.rsplit("::", 1)[-1] in st[2][3]:
                o = st[2][2][st[2][3].index(field_suffix.rsplit("::", 1)[-1])]
                if op_local(o) in fw:
                    return True
        elif st[0] == "call":
            c = st[1]
            if c["a"]:
                l0 = op_local(c["a"][0])
                if l0 is not None:
                    _, sites = fn.backslice([l0], max_nodes=40)
                    recv_is_field = False
                    for loc2, kind2, pl2 in sites:
                        if kind2 == "assign":
                            for o in rv_operands(pl2[2]):
                                p = op_place(o)
                                if p and any(isinstance(e, str) and e.endswith(field_suffix) for e in p[1:]):
                                    recv_is_field = True
                    if recv_is_field and any(op_local(a) in fw for a in c["a"][1:]):
                        return True
    return False
