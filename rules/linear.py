"""R-LINEAR: values of a must-consume type (owns a resource, has no Drop) must be moved on every
non-cleanup path. R-ARENA: a place whose type owns memory that others point into may only be
dropped/overwritten in the owner's Drop, in a consuming fn(self) or in a listed invalidating fn.
R-CLASS: in a range-class allocator the amount carved for a class must derive from the class
index, not from the raw request."""
import re

from vlib.mir import Fn, op_local, op_place, op_const, rv_operands


def _split_generics(ty):
    """top-level generic arguments of 'Path<A, B>'"""
    i = ty.find("<")
    if i < 0:
        return ty, []
    head, body = ty[:i], ty[i + 1:ty.rfind(">")]
    args, depth, cur = [], 0, ""
    for ch in body:
        if ch in "<([":
            depth += 1
        elif ch in ">)]":
            depth -= 1
        if ch == "," and depth == 0:
            args.append(cur.strip())
            cur = ""
        else:
            cur += ch
    if cur.strip():
        args.append(cur.strip())
    return head, args


def payload_variants(ty, lin):
    """{variant value: has linear payload} for Option/Result typed values"""
    head, args = _split_generics(ty)
    if head.endswith("option::Option") and args:
        return {0: False, 1: lin in args[0]}
    if head.endswith("result::Result") and len(args) == 2:
        return {0: lin in args[0], 1: lin in args[1]}
    if head.endswith("ops::ControlFlow") and len(args) == 2:      # ControlFlow<B, C>: Continue(C) = 0, Break(B) = 1
        return {0: lin in args[1], 1: lin in args[0]}
    return None


def _is_lin(t, lin):
    t = t.strip()
    if t == lin:
        return True
    # Box<dyn Trait> / Box<(dyn Trait + 'static)>
    return bool(re.match(r"^std::boxed::Box<\(?(dyn )?%s( \+ [^>]*)?\)?>$" % re.escape(lin.replace("dyn ", "")), t)) or \
        bool(re.match(r"^std::boxed::Box<\(?%s( \+ [^>]*)?\)?>$" % re.escape(lin), t))


def owns_linear(ty, lin):
    """the local holds the linear value itself, or an Option/Result/tuple directly around it"""
    if lin not in ty or ty.startswith("&") or ty.startswith("*"):
        return False
    if _is_lin(ty, lin):
        return True
    head, args = _split_generics(ty)
    if head.endswith("option::Option") or head.endswith("result::Result") or head.endswith("ops::ControlFlow"):
        return any(_is_lin(a, lin) for a in args)
    return False


def linear(ctx, fn, lin, rule="R-LINEAR", follow=False):
    n = 0
    for l, ty in enumerate(fn.locals):
        if l == 0 or not owns_linear(ty, lin):
            continue
        defs = [d for d in fn.defs(l) if d[1] in ("call",) and d[2]["d"] == [l]]
        if not defs:
            continue
        pv = payload_variants(ty, lin)
        for loc, kind, c in defs:
            n += 1
            lost = _lost_path(fn, l, (loc[0], len(fn.stmts(loc[0]))), pv, lin if follow else None)
            ok = lost is None
            ctx.obligation(rule, fn.id, "%s from %s" % (fn.local_name(l), c["f"].rsplit("::", 1)[-1]), ok,
                           sample={"fn": fn.id, "value": fn.local_name(l), "type": ty[:80],
                                   "produced_by": c["f"].rsplit("::", 1)[-1], "line": c["ln"], "lost_at": lost})
            if not ok:
                ctx.violation(rule, fn.id, "%s returned by %s is dropped" % (lin.rsplit("::", 1)[-1], c["f"].rsplit("::", 1)[-1]),
                              "the %s carried by the result of %s (line %d) is never moved out on a path reaching %s: the "
                              "resource it owns is lost (the type has no Drop)" %
                              (lin.rsplit("::", 1)[-1], c["f"].rsplit("::", 1)[-1], c["ln"], lost), fn.file, c["ln"])
    return n


def _lost_path(fn, l, defloc, pv, lin=None, depth=0):
    """walk forward from the def while the value is still owned; returns a description of the
    first place where ownership ends without a move, else None. A move into another bare local
    that itself holds the linear value (`let Some(task) = popped`) transfers the obligation."""
    b0, i0 = defloc
    if fn.term(b0)[0] == "call" and i0 >= len(fn.stmts(b0)):
        start = [(s, 0) for s in fn.succ(b0)]
    else:
        start = [(b0, i0 + 1)]
    seen = set()
    work = list(start)
    while work:
        b, i = work.pop()
        if (b, i) in seen:
            continue
        seen.add((b, i))
        st = fn.stmts(b)
        j = i
        consumed = False
        while j < len(st):
            s = st[j]
            if s[0] == "sd" and s[1] == l:
                return "StorageDead in bb%d" % b
            if s[0] == "a":
                moved = any(o[0] == "m" and o[1][0] == l for o in rv_operands(s[2]))
                if moved:
                    consumed = True
                    x = s[1][0] if len(s[1]) == 1 else None
                    if lin is not None and x not in (None, 0, l) and depth < 6 and owns_linear(fn.ty(x), lin) \
                            and s[2][0] in ("use", "agg"):
                        sub = _lost_path(fn, x, (b, j), payload_variants(fn.ty(x), lin), lin, depth + 1)
                        if sub is not None:
                            return "%s (moved into %s)" % (sub, fn.local_name(x))
                elif s[1] == [l]:
                    consumed = True       # overwritten (a new value)
            if consumed:
                break
            j += 1
        if consumed:
            continue
        t = fn.term(b)
        if t[0] == "call":
            if any(o[0] == "m" and o[1][0] == l for o in t[1]["a"]):
                continue
        if t[0] == "drop" and t[1][0] == l:
            return "drop in bb%d (line %s)" % (b, t[4])
        if t[0] == "ret":
            return None if l == 0 else "return"
        if t[0] == "sw" and pv is not None:
            d = op_local(t[1])
            ds = fn.defs(d) if d is not None else []
            if len(ds) == 1 and ds[0][1] == "assign" and ds[0][2][2][0] == "disc" and ds[0][2][2][1][0] == l:
                ev = fn.switch_edge_values(b)
                explicit = [int(v) for v, _ in t[2]]
                for tgt, vals in ev.items():
                    vs = set()
                    for v in vals:
                        if v == "otherwise":
                            vs |= {k for k in pv if k not in explicit}
                        else:
                            vs.add(v)
                    if any(pv.get(v, True) for v in vs):
                        work.append((tgt, 0))
                continue
        for s in fn.succ(b):
            work.append((s, 0))
    return None


def refusing_sinks(ctx, fx, file, lin, rule="R-SINK"):
    """a crate-local function that takes the linear value by value and returns a Result can refuse it
    (and then the value is gone); every call must examine that Result"""
    n = 0
    for fid in fx.fn_ids(file):
        if "::tests::" in fid:
            continue
        for k in range(fx.count(fid)):
            fn = Fn(fx.raw(fid, k))
            for b, c in fn.calls():
                if not c["loc"] or len(c["d"]) != 1:
                    continue
                d = c["d"][0]
                if not fn.ty(d).startswith("std::result::Result<"):
                    continue
                if not any(o[0] == "m" and len(o[1]) == 1 and _is_lin(fn.ty(o[1][0]), lin) for o in c["a"]):
                    continue
                n += 1
                ctx.analysed_fns.add(fid)
                used = bool(fn.reads(d)) or d == 0
                ctx.obligation(rule, fid, "%s result examined" % c["f"].rsplit("::", 1)[-1], used,
                               sample={"fn": fid, "sink": c["f"].rsplit("::", 1)[-1], "line": c["ln"], "result_examined": used})
                if not used:
                    ctx.violation(rule, fid, "Result of %s discarded" % c["f"].rsplit("::", 1)[-1],
                                  "%s takes the %s by value and can refuse it (returns Err and drops it); the Result is "
                                  "discarded here (line %d), so a refused value vanishes without anyone being told"
                                  % (c["f"].rsplit("::", 1)[-1], lin.rsplit("::", 1)[-1], c["ln"]), fn.file, c["ln"])
    ctx.instance(rule + ".calls", n)
    return n


# ------------------------------------------------------------------ R-ARENA
def arena_types(fx, files):
    """ADTs whose Drop reaches dealloc/munmap and which hand out interior pointers"""
    out = {}
    for aid, a in fx.adts.items():
        if a["file"] not in files or not a["drop"]:
            continue
        rec = fx.raw(a["drop"])
        if rec is None:
            continue
        dfn = Fn(rec)
        frees = any(re.search(r"alloc::dealloc$|::dealloc$|libc::munmap|::munmap$|alloc::alloc::dealloc", c["f"]) for b, c in dfn.calls())
        if frees:
            out[aid] = a
    return out


def arena(ctx, fx, files, allowed_fns=(), rule="R-ARENA"):
    ats = arena_types(fx, files)
    ctx.instance(rule + ".arena_types", len(ats))
    n = 0
    for f in files:
        for fid in fx.fn_ids(f):
            if "::tests::" in fid:
                continue
            fn = Fn(fx.raw(fid))
            for (b, i), st in fn.iter_locs():
                hit = None
                if st[0] == "drop":
                    pty = _place_adt(fx, st[1], ats)
                    if pty and len(st[1]) > 1:
                        hit = ("drop of %s" % _pname(st[1]), pty, st[4])

                if hit is None and st[0] == "call":
                    # emptying / shrinking a container of arenas drops the arenas it held
                    c = st[1]
                    lastc = c["f"].rsplit("::", 1)[-1]
                    if lastc in ("clear", "truncate", "pop", "remove", "swap_remove", "drain", "retain", "split_off") \
                            and ("Vec" in c["f"] or "VecDeque" in c["f"]) and c["a"]:
                        from rules.sync import recv_field
                        fld = recv_field(fn, c["a"][0])
                        if fld and "::" in fld:
                            adt, fname = fld.rstrip("[]").rsplit("::", 1)
                            a = fx.adts.get(adt)
                            fty = None
                            if a:
                                for v in a["variants"]:
                                    for ff in v["fields"]:
                                        if ff[0] == fname:
                                            fty = ff[1]
                            if fty:
                                for aid in ats:
                                    if re.search(r"(^|[<( ,])%s([>), ]|$)" % re.escape(aid), fty):
                                        hit = ("%s() on %s" % (lastc, fname), aid, c["ln"])
                if hit is None:
                    continue
                what, aty, line = hit
                n += 1
                last = fid.rsplit("::", 1)[-1]
                selfconsume = fn.nargs >= 1 and fn.names.get(1) == "self" and not fn.ty(1).startswith("&")
                ok = last in ("drop", "clear", "reset", "shrink_to_fit") or selfconsume or \
                    any(fid.endswith(a) for a in allowed_fns)
                ctx.obligation(rule, fid, what, ok, sample={"fn": fid, "event": what, "arena_type": aty, "line": line})
                if not ok:
                    ctx.violation(rule, fid, "%s (%s)" % (what, aty.rsplit("::", 1)[-1]),
                                  "%s frees a %s while blocks carved from it may still be live or sit in free lists (its Drop "
                                  "deallocates the backing memory)" % (what, aty.rsplit("::", 1)[-1]), fn.file, line)
    ctx.instance(rule + ".events", n)
    return ats


def _pname(p):
    return "".join(e.rsplit("::", 1)[-1] if isinstance(e, str) and e.startswith(".") else "" for e in p[1:]) or "place"


def _place_adt(fx, place, ats):
    """arena ADT stored at `place`: the last named field's declared type mentions an arena type"""
    ty = place_field_type(fx, place)
    if not ty:
        return None
    for aid in ats:
        if re.search(r"(^|[<( ,])%s([>), ]|$)" % re.escape(aid), ty):
            # containers of arenas (Vec<HotArea>) may drop elements legitimately on clear(): only direct / Option
            if re.search(r"Vec<|VecDeque<|HashMap<", ty):
                return None
            return aid
    return None


def place_field_type(fx, place):
    flds = [e for e in place[1:] if isinstance(e, str) and e.startswith(".") and "::" in e]
    if not flds:
        return None
    key = flds[-1][1:]
    adt, fname = key.rsplit("::", 1)
    a = fx.adts.get(adt)
    if not a:
        return None
    for v in a["variants"]:
        for f in v["fields"]:
            if f[0] == fname:
                return f[1]
    return None


# ------------------------------------------------------------------ R-CLASS
def size_class(ctx, fx, fid, index_rx, carve_rx, rule="R-CLASS"):
    """in `fid`, every carve call reached when the class free list misses must take an amount that
    depends on the class index computed by the index function"""
    rec = fx.raw(fid)
    if rec is None:
        return 0
    fn = Fn(rec)
    irx, crx = re.compile(index_rx), re.compile(carve_rx)
    idx_roots = [c["d"][0] for b, c in fn.calls() if irx.search(c["f"])]
    if not idx_roots:
        return 0
    fw = fn.forward_locals(idx_roots)
    n = 0
    ctx.analysed_fns.add(fid)
    for b, c in fn.calls():
        if not crx.search(c["f"]):
            continue
        # the size-like argument(s)
        amounts = [op_local(a) for a in c["a"] if op_local(a) is not None and fn.ty(op_local(a)) in ("usize", "u32", "u64")]
        if not amounts:
            continue
        n += 1
        dep = False
        for a in amounts:
            locs, _ = fn.backslice([a], max_nodes=200)
            if locs & fw:
                dep = True
        ctx.obligation(rule, fid, "carve via %s" % c["f"].rsplit("::", 1)[-1], dep,
                       sample={"fn": fid, "carve": c["f"].rsplit("::", 1)[-1], "line": c["ln"],
                               "amount_depends_on_class_index": dep})
        if not dep:
            ctx.violation(rule, fid, "%s carves the raw request" % c["f"].rsplit("::", 1)[-1],
                          "blocks of this allocator are filed under a size class (range classes: any size <= class maps to it) "
                          "but %s is asked for the raw request size, not the class size: a recycled block can be smaller than "
                          "the next request of the same class and overlap its neighbour" % c["f"].rsplit("::", 1)[-1],
                          fn.file, c["ln"])
    return n


# ------------------------------------------------------------------ R-VIEW (narrow form)
def view_capacity(ctx, fx, adt, len_field, cap_field, files, rule="R-VIEW"):
    """a (pointer, requested length, mapped length) record: wherever the struct is built, the mapped length either is
    computed from the requested length (rounding) or is compared with it on a dominating, refusing branch. A mapped
    length that arrives from somewhere else (a cache of regions keyed by a lossy size class) may be shorter than the
    request: the block then reaches past the memory it owns."""
    n = 0
    for f in files:
        for fid in fx.fn_ids(f):
            if "::tests::" in fid:
                continue
            fn = Fn(fx.raw(fid))
            for (b, i), st in fn.iter_locs():
                if st[0] != "a" or st[2][0] != "agg" or st[2][1] != "adt:" + adt + "::" + adt.rsplit("::", 1)[-1]:
                    continue
                names = st[2][3]
                if len_field not in names or cap_field not in names:
                    continue
                lo = st[2][2][names.index(len_field)]
                co = st[2][2][names.index(cap_field)]
                ll, cl = op_local(lo), op_local(co)
                if ll is None or cl is None:
                    continue
                n += 1
                ctx.analysed_fns.add(fid)
                # derivation through plain statements only: what a map lookup or a pop returns does not derive from its key
                lroots = fn.backslice([ll], max_nodes=80, call_through=lambda c: False)[0]
                croots = fn.backslice([cl], max_nodes=200, call_through=lambda c: False)[0]
                derived = bool(lroots & croots & set(range(1, fn.nargs + 1))) or ll in croots
                guarded = False
                if not derived:
                    lfw, cfw = fn.forward_locals(lroots & set(range(1, fn.nargs + 1)) or [ll]), fn.forward_locals([cl]) | croots
                    for (sb, si), s2 in fn.iter_locs():
                        if s2[0] == "a" and s2[2][0] == "bin" and s2[2][1] in ("Lt", "Le", "Gt", "Ge") and len(s2[1]) == 1:
                            a, bb = op_local(s2[2][2]), op_local(s2[2][3])
                            if (a in lfw and bb in cfw) or (a in cfw and bb in lfw):
                                for wb in fn.blocks():
                                    t = fn.term(wb)
                                    if t[0] == "sw" and op_local(t[1]) == s2[1][0] and fn.dominates(wb, b):
                                        guarded = True
                ok = derived or guarded
                ctx.obligation(rule, fid, "%s vs %s at construction" % (cap_field, len_field), ok,
                               sample={"fn": fid, "line": st[3], "capacity_derived_from_request": derived, "compared": guarded})
                if not ok:
                    ctx.violation(rule, fid, "%s unrelated to %s" % (cap_field, len_field),
                                  "%s is built (line %s) with a %s that neither derives from the requested %s nor is compared with "
                                  "it: a recycled region shorter than the request is handed out as if it were long enough"
                                  % (adt.rsplit("::", 1)[-1], st[3], cap_field, len_field), fn.file, st[3])
    ctx.instance(rule + ".constructions", n)
    return n


# ------------------------------------------------------------------ R-GUARD.cursor
def guard_on_cursor(ctx, fx, fid, rule="R-GUARD.cursor"):
    """a bump-style carve returns an offset read from a cursor field and refuses when the request does not fit. The
    refusing test has to look at that same cursor (directly or in a bool helper): a test on a different counter
    (bytes in use, which shrinks on free) lets the cursor run past the capacity."""
    rec = fx.raw(fid)
    if rec is None:
        raise Exception("R-GUARD.cursor: %s not found" % fid)
    fn = Fn(rec)
    ctx.analysed_fns.add(fid)

    def fields_read(f, roots, depth=0):
        out = set()
        locs, sites = f.backslice(roots, max_nodes=200, stop=lambda l: 1 <= l <= f.nargs)
        for loc, kind, pl in sites:
            if kind == "assign" and len(pl[1]) == 1:
                for o in rv_operands(pl[2]):
                    p = op_place(o)
                    if p:
                        named = [e for e in p[1:] if isinstance(e, str) and e.startswith(".") and "::" in e]
                        if named:
                            out.add(named[-1])      # the field actually read, not the structs it sits in
            elif kind == "call" and depth < 2 and pl.get("loc") and fx.has(pl["f"]):
                cf = Fn(fx.raw(pl["f"]))
                out |= fields_read(cf, [0], depth + 1)
        return out

    # fields the successful result derives from
    from rules.refusal import success_blocks
    res_fields = set()
    for b in success_blocks(fn):
        for st in fn.stmts(b):
            if st[0] == "a" and st[2][0] == "agg":
                ls = [op_local(o) for o in st[2][2] if op_local(o) is not None]
                res_fields |= fields_read(fn, ls)
    from rules.pair import err_blocks
    eb = err_blocks(fn)
    guard_fields = set()
    nguards = 0
    for sb in fn.blocks():
        t = fn.term(sb)
        if t[0] != "sw":
            continue
        succs = fn.succ(sb)
        if not (any(s in eb for s in succs) and any(s not in eb for s in succs)):
            continue
        l = op_local(t[1])
        if l is None:
            continue
        nguards += 1
        guard_fields |= fields_read(fn, [l])
    common = {f for f in res_fields & guard_fields if not f.endswith("::capacity")}
    ok = bool(common) or not res_fields
    ctx.obligation(rule, fid, "refusal looks at the cursor", ok,
                   sample={"fn": fid, "result_from": sorted(x.rsplit("::", 1)[-1] for x in res_fields)[:5],
                           "refusing_tests_read": sorted(x.rsplit("::", 1)[-1] for x in guard_fields)[:6], "refusing_tests": nguards})
    if not ok:
        ctx.violation(rule, fid, "capacity test ignores the carve cursor",
                      "the offset returned by %s comes from %s, but the refusing test(s) only read %s: the cursor is never compared "
                      "with the capacity, so a carve can start at or beyond the end of the chunk" %
                      (fid.rsplit("::", 1)[-1], sorted(x.rsplit("::", 1)[-1] for x in res_fields)[:4],
                       sorted(x.rsplit("::", 1)[-1] for x in guard_fields)[:4]), fn.file, fn.line)
    return 1


# ------------------------------------------------------------------ R-RANGE.dep
def end_from_start(ctx, fx, fid, rule="R-RANGE.dep"):
    """a carve helper that returns (start, end) computes the end from the start it hands out: the second component of
    every returned pair derives (through plain statements and checked arithmetic) from the first. An end computed from
    the unaligned cursor does not reserve the alignment padding: the next block starts inside this one."""
    rec = fx.raw(fid)
    if rec is None:
        raise Exception("%s: %s not found" % (rule, fid))
    fn = Fn(rec)
    ctx.analysed_fns.add(fid)
    n = 0
    for (b, i), st in fn.iter_locs():
        if st[0] != "a" or st[2][0] != "agg" or st[2][1] != "tuple" or len(st[2][2]) != 2:
            continue
        s_l, e_l = op_local(st[2][2][0]), op_local(st[2][2][1])
        if s_l is None or e_l is None or fn.ty(s_l) != "usize" or fn.ty(e_l) != "usize":
            continue
        if 0 not in fn.forward_locals([st[1][0]]) and st[1] != [0]:
            continue
        n += 1
        # start's own value chain (copies only) vs everything the end is computed from
        scls = {s_l}
        for _ in range(4):
            for l in list(scls):
                for dl, kind, pl in fn.defs(l):
                    if kind == "assign" and pl[2][0] == "use" and op_place(pl[2][1]) and len(op_place(pl[2][1])) == 1:
                        scls.add(op_place(pl[2][1])[0])
        eslice = fn.backslice([e_l], max_nodes=200)[0]
        ok = bool(scls & eslice)
        ctx.obligation(rule, fid, "end derives from start@%s" % st[3], ok, sample={"fn": fid, "line": st[3], "end_from_start": ok})
        if not ok:
            ctx.violation(rule, fid, "end of the carved range not computed from its start",
                          "%s returns a (start, end) pair whose end (line %s) does not derive from the start it hands out: "
                          "padding inserted before the start is not reserved, so consecutive blocks overlap" %
                          (fid.rsplit("::", 1)[-1], st[3]), fn.file, st[3])
    return n
