"""LRU-map rules (C17).

R-TOUCH   : in `get` and `put`, every access to an existing entry's value (`node.value` cloned or replaced) is
            accompanied by a recency update: a call to move_to_head / insert_head either dominates the access or lies
            on every path from the access to a normal return. Eviction is driven by list order alone, so an access that
            only refreshes a timestamp leaves the entry where it was and the most recently used key gets evicted.
R-LOCKCOV.lru : every recency-list operation (move_to_head / insert_head / remove) in a method of the map runs while a
            guard of the index lock (hash_map) is live, unless the index is handed in by the caller. The index lock is
            what keeps a slot from being evicted and recycled for another key between the lookup and the access.
"""
import re

from vlib.mir import Fn, op_local, op_place, rv_operands
from rules import sync


def _value_access_blocks(fn, value_field):
    out = []
    key = "." + value_field
    for (b, i), st in fn.iter_locs():
        if st[0] == "a":
            places = [st[1]] + [op_place(o) for o in rv_operands(st[2]) if op_place(o)]
            if st[2][0] == "ref":
                places.append(st[2][1] if isinstance(st[2][1], list) else None)
            for p in places:
                if p and key in p[1:]:
                    out.append((b, st[3]))
    return out


def touch(ctx, fx, fid, value_field, touch_rx=r"::(move_to_head|insert_head)$", rule="R-TOUCH"):
    rec = fx.raw(fid)
    if rec is None:
        raise Exception("R-TOUCH: %s not found" % fid)
    fn = Fn(rec)
    ctx.analysed_fns.add(fid)
    rx = re.compile(touch_rx)
    tblocks = [b for b, c in fn.calls() if rx.search(c["f"])]
    acc = _value_access_blocks(fn, value_field)
    rets = [b for b in fn.blocks() if fn.term(b)[0] == "ret"]
    n = 0
    seen = set()
    for b, line in acc:
        if b in seen:
            continue
        seen.add(b)
        n += 1
        ok = any(fn.dominates(t, b) or t == b for t in tblocks)
        if not ok:
            reach = fn.reachable_from([b], avoid=tblocks)
            # unwinding / panic exits do not count: only normal returns
            ok = not any(r in reach for r in rets) if b not in tblocks else True
        ctx.obligation(rule, fid, "value access@%s refreshes recency" % line, ok,
                       sample={"fn": fid, "access_line": line, "touch_calls": len(tblocks)})
        if not ok:
            ctx.violation(rule, fid, "entry accessed without moving it to the head",
                          "%s reads or replaces an existing entry's value (line %s) on a path to a normal return that never calls "
                          "move_to_head/insert_head: eviction follows list order only, so the entry keeps its old position and "
                          "can be evicted although it was just used" % (fid.rsplit("::", 1)[-1], line), fn.file, line)
    return n


def list_ops_under_index_lock(ctx, fx, file, self_ty_suffix, index_lock_suffix, rule="R-LOCKCOV.lru",
                              op_rx=r"LruList::(move_to_head|insert_head|remove|remove_tail|pop_tail)$"):
    rx = re.compile(op_rx)
    n = 0
    for fid in fx.fn_ids(file):
        if "::tests::" in fid or "{closure" in fid:
            continue
        rec = fx.raw(fid)
        if not (rec["self_ty"] or "").split("<")[0].endswith(self_ty_suffix):
            continue
        fn = Fn(rec)
        sites = [(b, c) for b, c in fn.calls() if rx.search(c["f"])]
        if not sites:
            continue
        # the caller holds the index lock and hands the map in
        if any("HashMap<" in fn.ty(i) for i in range(1, fn.nargs + 1)):
            continue
        guards = sync.guard_locals(fn)
        for b, c in sites:
            n += 1
            ctx.analysed_fns.add(fid)
            live = sync.guards_live_at(fn, sync.term_loc(fn, b), guards)
            ok = any(f and f.endswith(index_lock_suffix) for f in live.values())
            ctx.obligation(rule, fid, "%s under %s" % (c["f"].rsplit("::", 1)[-1], index_lock_suffix), ok,
                           sample={"fn": fid, "op": c["f"].rsplit("::", 1)[-1], "line": c["ln"],
                                   "guards_live": sorted(str(v).rsplit("::", 1)[-1] for v in live.values())})
            if not ok:
                ctx.violation(rule, fid, "%s without the %s guard" % (c["f"].rsplit("::", 1)[-1], index_lock_suffix.rsplit("::", 1)[-1]),
                              "%s (line %s) runs after the guard of %s was released: another thread can evict the entry and recycle "
                              "its slot for a different key between the lookup and this access" %
                              (c["f"].rsplit("::", 1)[-1], c["ln"], index_lock_suffix), fn.file, c["ln"])
    ctx.instance(rule + ".sites", n)
    return n


def evict_only_for_new(ctx, fx, fid, value_field, evict_rx=r"::evict_lru$", rule="R-ORDER.evict"):
    """`put` makes room only for a key that is not in the map yet: no path leads from the eviction call to the code that
    overwrites the value of an existing entry. An overwrite of a resident key needs no room, and evicting first throws
    out a live entry (possibly the very key being written) and fires its callback."""
    rec = fx.raw(fid)
    if rec is None:
        raise Exception("%s: %s not found" % (rule, fid))
    fn = Fn(rec)
    ctx.analysed_fns.add(fid)
    rx = re.compile(evict_rx)
    ev = [(b, c) for b, c in fn.calls() if rx.search(c["f"])]
    acc = [b for b, _ in _value_access_blocks(fn, value_field)]
    n = 0
    for b, c in ev:
        n += 1
        reach = fn.reachable_from([c["t"]] if c.get("t") is not None else fn.succ(b))
        hit = [a for a in acc if a in reach]
        ok = not hit
        ctx.obligation(rule, fid, "eviction@%s cannot precede an overwrite" % c["ln"], ok,
                       sample={"fn": fid, "evict_line": c["ln"], "overwrite_blocks_reachable": len(hit)})
        if not ok:
            ctx.violation(rule, fid, "eviction before the lookup of the key",
                          "%s can evict (line %s) and then still find the key present and overwrite its value: an overwrite needs "
                          "no room, so a live entry is lost (or the key being written is evicted and re-inserted)" %
                          (fid.rsplit("::", 1)[-1], c["ln"]), fn.file, c["ln"])
    return n
