"""R-MATCHVERIFY: an LZ match is extended only from bytes that were compared.

site : a loop that advances a length counter `n` (n += 1) while `a[i + n] == b[j + n]` - the match-extension loop of the
       dictionary coders
rule : every value the counter can hold on entry to the loop is the constant 0, or a slice comparison
       (`[u8] == [u8]`, i.e. a call of PartialEq for slices / memcmp) or an exact-occurrence search of the pattern
       (`SuffixArray::search`) dominates the loop. A counter that starts at the
       minimum match length because "the hash already matched" lets a hash collision through: the emitted
       (offset, length) copies bytes that differ from the input in the unverified prefix, and decoding succeeds with
       wrong data.
"""
import re

from vlib.mir import Fn, op_local, op_const
from rules.prune import natural_loops

SLICE_EQ = re.compile(r"PartialEq<\[[^\]]*\]>>::(eq|ne)$|SlicePartialEq<[^>]*>>::(equal|not_equal)$|::memcmp$|compare_bytes$|"
                      r"<\[[A-Za-z0-9_]+\] as .*PartialEq.*>::(eq|ne)$|starts_with$|ends_with$")


def _index_locals(fn, l):
    """index locals of the element load(s) that define l"""
    out = set()
    for loc, kind, pl in fn.defs(l):
        if kind == "assign" and pl[2][0] == "use":
            p = pl[2][1][1] if pl[2][1][0] in ("c", "m") else None
            if p:
                for e in p[1:]:
                    if isinstance(e, str) and e.startswith("[_"):
                        out.add(int(e[2:-1]))
                if "*" in p[1:]:
                    # `*Index::index(&v, i)` (Vec / boxed slice indexing)
                    for loc2, kind2, pl2 in fn.defs(p[0]):
                        if kind2 == "call" and pl2["f"].rsplit("::", 1)[-1] in ("index", "index_mut", "get_unchecked") and len(pl2["a"]) > 1:
                            li = op_local(pl2["a"][1])
                            if li is not None:
                                out.add(li)
    return out


def run(ctx, fx, files, rule="R-MATCHVERIFY", only=None):
    n = 0
    for f in files:
        for fid in fx.fn_ids(f):
            if "::tests::" in fid or (only and not only(fid)):
                continue
            for k in range(fx.count(fid)):
                fn = Fn(fx.raw(fid, k))
                loops = natural_loops(fn)
                if not loops:
                    continue
                # an exact-occurrence search of the pattern (suffix array) verifies the prefix as well as a comparison does
                slice_eq_blocks = [b for b, c in fn.calls() if SLICE_EQ.search(c["f"]) or SLICE_EQ.search(c.get("st") or "") or
                                   re.search(r"SuffixArray::search$|::binary_search_by$", c["f"]) or
                                   (c["f"].rsplit("::", 1)[-1] in ("eq", "ne") and
                                    any(op_local(a) is not None and re.search(r"\[u8\]|Vec<u8>", fn.ty(op_local(a))) for a in c["a"]))]
                # the comparison may live in a crate-local bool helper (`self.prefix_matches(cand, pos)`)
                for b, c in fn.calls():
                    if c.get("loc") and fx.has(c["f"]) and fn.ty(c["d"][0]) == "bool":
                        hf = Fn(fx.raw(c["f"]))
                        if any(SLICE_EQ.search(hc["f"]) or (hc["f"].rsplit("::", 1)[-1] in ("eq", "ne") and
                               any(op_local(a) is not None and re.search(r"\[u8\]|Vec<u8>", hf.ty(op_local(a))) for a in hc["a"]))
                               for hb, hc in hf.calls()):
                            slice_eq_blocks.append(b)
                done = set()
                # innermost loops first, so that a counter is judged against the loop that advances it
                for h, body in sorted(loops, key=lambda hb: len(hb[1])):
                    # byte comparisons inside the loop
                    cmp_idx = []
                    for (b, i), st in fn.iter_locs():
                        if b in body and st[0] == "a" and st[2][0] == "bin" and st[2][1] in ("Eq", "Ne"):
                            x, y = op_local(st[2][2]), op_local(st[2][3])
                            if x is not None and y is not None and fn.ty(x) == "u8" and fn.ty(y) == "u8":
                                ix, iy = _index_locals(fn, x), _index_locals(fn, y)
                                if ix and iy:
                                    cmp_idx.append((ix, iy, st[3]))
                    if not cmp_idx:
                        continue
                    # counters incremented by one inside the loop
                    counters = set()
                    for (b, i), st in fn.iter_locs():
                        if b in body and st[0] == "a" and st[2][0] == "bin" and st[2][1] in ("Add", "AddWithOverflow", "AddUnchecked"):
                            k1 = op_const(st[2][3])
                            c = op_local(st[2][2])
                            if k1 is not None and k1[0] == 1 and c is not None and fn.ty(c) in ("usize", "u32", "u64"):
                                # the sum is written back to c (directly or through the checked tuple)
                                fw = fn.forward_locals([st[1][0]]) | {st[1][0]}
                                if any(d[0][0] in body and d[1] == "assign" and op_local(d[2][2][1]) in fw
                                       for d in fn.defs(c) if d[1] == "assign" and d[2][2][0] == "use"):
                                    counters.add(c)
                    for c in counters:
                        used = [ln for ix, iy, ln in cmp_idx
                                if any(c in fn.backslice([i], max_nodes=40)[0] for i in ix) and any(c in fn.backslice([i], max_nodes=40)[0] for i in iy)]
                        if not used or c in done:
                            continue
                        done.add(c)
                        inits = [d for d in fn.defs(c) if d[0][0] not in body]
                        zero = bool(inits) and all(d[1] == "assign" and d[2][2][0] == "use" and op_const(d[2][2][1]) is not None
                                                   and op_const(d[2][2][1])[0] == 0 for d in inits)
                        verified = any(fn.dominates(sb, h) and sb != h for sb in slice_eq_blocks)
                        ok = zero or verified
                        n += 1
                        ctx.analysed_fns.add(fid)
                        ctx.obligation(rule, fid, "match extension starts from compared bytes", ok,
                                       sample={"fn": fid, "counter": fn.local_name(c), "starts_at_zero": zero,
                                               "slice_comparison_dominates": verified, "compare_line": used[0]})
                        if not ok:
                            ctx.violation(rule, fid, "match length counter %s starts above zero without a comparison" % (fn.local_name(c) or c),
                                          "%s extends a match by comparing bytes from offset %s on (line %d), but %s does not start at 0 and no "
                                          "slice comparison of the skipped prefix dominates the loop: a hash collision yields a match whose first "
                                          "bytes differ from the input" % (fid.rsplit("::", 1)[-1], fn.local_name(c) or c, used[0], fn.local_name(c) or c),
                                          fn.file, used[0])
    ctx.instance(rule + ".loops", n)
    return n
