"""R-MISS: on an encode path, a code/symbol lookup that misses must end in Err (or in another
lookup of the fallback chain) - never in a placeholder, a default or a silent skip.

lookup = call whose callee matches the table and returns Option/Result; the miss edge is the
None/Err edge of the switch on its discriminant (also through `?`-less `if let Some`).
Also reported: unwrap_or / unwrap_or_default / unwrap_or_else directly on a lookup result, and
truncating clamps (`min(const)` / `take(const)`) applied to a code length inside the hit arm.
"""
import re

from vlib.mir import Fn, op_local, op_place, op_const, rv_operands
from rules.variant import arm_region


def miss_sites(fn, lookup_rx):
    """[(call block, callrec, switch block, miss target, hit target)]"""
    out = []
    for b, c in fn.calls():
        if not lookup_rx.search(c["f"]):
            continue
        d = c["d"][0]
        # the Option/Result may be moved / passed through as_ref/copied before the switch
        fw = {d}
        for _ in range(3):
            for b2, c2 in fn.calls():
                if c2["f"].rsplit("::", 1)[-1] in ("as_ref", "copied", "cloned", "as_deref", "ok", "branch") and c2["a"] \
                        and op_local(c2["a"][0]) in fw:
                    fw.add(c2["d"][0])
            for loc, st in fn.iter_locs():
                if st[0] == "a" and st[2][0] == "use" and len(st[1]) == 1 and op_local(st[2][1]) in fw \
                        and len(op_place(st[2][1])) == 1:
                    fw.add(st[1][0])
        found = False
        for sb in fn.blocks():
            t = fn.term(sb)
            if t[0] != "sw":
                continue
            l = op_local(t[1])
            if l is None:
                continue
            ds = fn.defs(l)
            if len(ds) == 1 and ds[0][1] == "assign" and ds[0][2][2][0] == "disc" and ds[0][2][2][1][0] in fw:
                ty = ds[0][2][2][2] if len(ds[0][2][2]) > 2 else ""
                ev = fn.switch_edge_values(sb)
                explicit = [int(v) for v, _ in t[2]]
                miss_val = 1 if "result::Result" in ty or "ControlFlow" in ty else 0   # Err=1/Break=1 ; None=0
                miss_t = hit_t = None
                for tgt, vals in ev.items():
                    if miss_val in vals or ("otherwise" in vals and (1 - miss_val) in explicit and miss_val not in explicit):
                        miss_t = tgt
                    if (1 - miss_val) in vals or ("otherwise" in vals and miss_val in explicit and (1 - miss_val) not in explicit):
                        hit_t = tgt
                if miss_t is not None and hit_t is not None and miss_t != hit_t:
                    out.append((b, c, sb, miss_t, hit_t))
                    found = True
        if not found:
            # unwrap_or*/unwrap_or_default directly on the lookup result
            for b2, c2 in fn.calls():
                last = c2["f"].rsplit("::", 1)[-1]
                if last in ("unwrap_or", "unwrap_or_default", "unwrap_or_else") and c2["a"] and op_local(c2["a"][0]) in fw:
                    out.append((b, c, b2, None, None))
    return out


def loop_header_of(fn, b):
    """innermost loop header h (h dominates b and some back edge u->h with b reaching u)"""
    best = None
    for u in fn.blocks():
        for h in fn.succ(u):
            if fn.dominates(h, u) and fn.dominates(h, b) and u in fn.reachable_from([b]):
                if best is None or fn.dominates(best, h):
                    best = h
    return best


def path_effects(fn, blocks):
    """writes performed on a path: stores through projections and calls taking &mut arguments"""
    for b in sorted(blocks):
        for st in fn.stmts(b):
            if st[0] == "a" and len(st[1]) > 1 and any(e == "*" or (isinstance(e, str) and e.startswith("[")) for e in st[1][1:]):
                if _all_zero(fn, rv_operands(st[2])):
                    continue
                return "store at line %s" % st[3]
        t = fn.term(b)
        if t[0] == "call":
            f = t[1]["f"]
            last = f.rsplit("::", 1)[-1]
            if last in ("push", "extend_from_slice", "insert", "write_bits", "append_bits", "push_back") \
                    and not f.startswith("std::fmt") and "_print" not in f:
                if _all_zero(fn, t[1]["a"][1:]):
                    continue        # an all-zero entry is the "unset / invalid" marker, checked by the consumer
                return "%s at line %s" % (last, t[1]["ln"])
    return None


def _all_zero(fn, ops):
    for o in ops:
        c = op_const(o)
        if c is not None:
            if c[0] != 0:
                return False
            continue
        l = op_local(o)
        if l is None:
            return False
        ok = False
        for d in fn.defs(l):
            if d[1] == "assign" and d[2][2][0] in ("use", "cast"):
                cc = op_const(d[2][2][1] if d[2][2][0] == "use" else d[2][2][2])
                if cc is not None and cc[0] == 0:
                    ok = True
                    continue
            return False
        if not ok:
            return False
    return True


def miss_outcome(fn, call_block, miss_t, lookup_rx, hit_t=None, from_input=False):
    """walk from the miss edge; barriers = Err construction, `?` propagation, another lookup, panic.
    Returns 'skip' if the next loop iteration or a successful return is reachable without a barrier."""
    barriers = set()
    kinds = {}
    for b in fn.blocks():
        k = None
        for s in fn.stmts(b):
            if s[0] == "a" and s[2][0] == "agg" and isinstance(s[2][1], str) and s[2][1].endswith("Result::Err"):
                k = "Err"
        t = fn.term(b)
        if t[0] == "call":
            f = t[1]["f"]
            if "from_residual" in f:
                k = "Err"
            elif lookup_rx.search(f) and b != call_block:
                k = "fallback lookup"
            elif "panicking::" in f:
                k = "panic"
        if k:
            barriers.add(b)
            kinds[b] = k
    if miss_t in barriers:
        return kinds[miss_t], None
    reach = fn.reachable_from([miss_t], avoid=barriers)
    h = loop_header_of(fn, call_block)
    if h is not None and h in reach:
        # blocks on the way from the miss edge back to the loop header
        way = {x for x in reach if h in fn.reachable_from([x], avoid=barriers)} - {h}
        hit_way = fn.reachable_from([hit_t], avoid=barriers | {h}) if hit_t is not None else set()
        eff = path_effects(fn, way - hit_way)
        if from_input or eff:
            return "skip", ("continues with the next input symbol (the symbol is dropped)" if not eff else
                            "writes a substitute (%s) and continues" % eff)
        return "fallback lookup", None      # table entry left unset: refusal is deferred to the consumer
    for e in fn.exits():
        if e in reach:
            return "skip", "returns normally"
    hit = sorted({kinds[b] for b in barriers if any(b in fn.succ(x) for x in reach | {miss_t})})
    return (hit[0] if hit else "Err"), None


def run(ctx, fx, files, lookup_pat, rule="R-MISS", only=None):
    rx = re.compile(lookup_pat)
    n = 0
    for f in files:
        for fid in fx.fn_ids(f):
            if "::tests::" in fid:
                continue
            if only is not None and not only(fid):
                continue
            fn = Fn(fx.raw(fid))
            sites = miss_sites(fn, rx)
            if not sites:
                continue
            ctx.analysed_fns.add(fid)
            for b, c, sb, miss_t, hit_t in sites:
                n += 1
                lname = c["f"].rsplit("::", 1)[-1]
                if miss_t is None:
                    ctx.obligation(rule, fid, "%s.unwrap_or" % lname, False)
                    ctx.violation(rule, fid, "default on %s miss" % lname,
                                  "the result of %s is defaulted (unwrap_or*) instead of refusing" % lname, fn.file, c["ln"])
                    continue
                # does the looked-up symbol come from the input being encoded (vs an alphabet loop)?
                from_input = False
                for a in c["a"][1:]:
                    l = op_local(a)
                    if l is not None:
                        locs, _ = fn.backslice([l], max_nodes=200)
                        if any(1 <= x <= fn.nargs and "[u8]" in fn.ty(x) for x in locs):
                            from_input = True
                how, detail = miss_outcome(fn, b, miss_t, rx, hit_t, from_input)
                ok = how in ("Err", "fallback lookup")
                ctx.obligation(rule, fid, "%s miss" % lname, ok,
                               sample={"fn": fid, "lookup": c["f"], "line": c["ln"], "miss_edge_leads_to": how})
                if not ok:
                    ctx.violation(rule, fid, "%s miss continues" % lname,
                                  "when %s finds no entry the encoder %s instead of returning Err: a symbol is silently "
                                  "substituted or dropped" % (lname, "panics" if how == "panic" else detail),
                                  fn.file, c["ln"])
            # truncation of a looked-up code inside the hit path: min(const)/take(const) on its length
            for b, c, sb, miss_t, hit_t in sites:
                if hit_t is None:
                    continue
                fw = fn.forward_locals([c["d"][0]])
                hit_region = fn.reachable_from([hit_t], avoid=[sb])
                for b2, c2 in fn.calls():
                    if b2 not in hit_region:
                        continue
                    last = c2["f"].rsplit("::", 1)[-1]
                    if last in ("min", "take") and len(c2["a"]) == 2 and op_const(c2["a"][1]) is not None \
                            and op_local(c2["a"][0]) in fw and ("cmp::" in c2["f"] or "Iterator::take" in c2["f"] or "Ord::min" in c2["f"]):
                        n += 1
                        ctx.obligation(rule + ".trunc", fid, "%s(%s)" % (last, op_const(c2["a"][1])[0]), False,
                                       sample={"fn": fid, "line": c2["ln"], "truncates": "%s(%s) on the looked-up code" % (last, op_const(c2["a"][1])[0])})
                        ctx.violation(rule + ".trunc", fid, "code truncated by %s(%s)" % (last, op_const(c2["a"][1])[0]),
                                      "the code returned by %s is cut with %s(%s): a longer code is silently replaced by its "
                                      "prefix instead of being refused" % (c["f"].rsplit("::", 1)[-1], last, op_const(c2["a"][1])[0]),
                                      fn.file, c2["ln"])
    ctx.instance(rule + ".lookups", n)
    return n
