"""R-NARROWCHECK: a range check that refuses a value is made on the value, not on what a narrowing cast left of it.

site   : `d = s as T` (IntToInt) with T narrower than the type of s, s of a 64/128-bit value type (u64, i64, u128, i128;
         not usize: positions and lengths are out of scope), s neither masked / shifted / reduced (`&`, `>>`, `%`,
         min, leading_zeros...) nor compared on a dominating branch
rule   : no comparison on d (or a plain copy of d) decides between an Err-only continuation and a continuing one.
Such a check shows that the code expects out-of-range values, yet it only sees their low bits: a value that is too
large by a multiple of 2^bits(T) passes and is stored truncated (contradiction rule; nothing is said about casts
that are never checked).
"""
import re

from vlib.mir import Fn, op_local, op_place, op_const
from rules.pair import err_blocks

W = {"u8": 8, "u16": 16, "u32": 32, "u64": 64, "usize": 64, "i8": 8, "i16": 16, "i32": 32, "i64": 64, "isize": 64,
     "u128": 128, "i128": 128}
VALUE_TYPES = ("u64", "i64", "u128", "i128")


def same_value(fn, s):
    """locals equal to s through copies and widening casts"""
    cls = {s}
    changed = True
    while changed:
        changed = False
        for loc, st in fn.iter_locs():
            if st[0] != "a" or len(st[1]) != 1:
                continue
            rv = st[2]
            o = None
            if rv[0] == "use":
                o = rv[1]
            elif rv[0] == "cast" and rv[1] == "IntToInt":
                src = op_local(rv[2])
                if src is not None and W.get(fn.ty(st[1][0]), 0) >= W.get(fn.ty(src), 999):
                    o = rv[2]
            if o is None:
                continue
            pl = op_place(o)
            if not pl or len(pl) != 1:
                continue
            a, b = st[1][0], pl[0]
            if (a in cls) != (b in cls) and len(fn.defs(a)) == 1 and len(fn.defs(b)) <= 1:
                cls |= {a, b}
                changed = True
    return cls


def cmp_switches(fn, S):
    conds = {}
    for loc, st in fn.iter_locs():
        if st[0] == "a" and st[2][0] == "bin" and st[2][1] in ("Lt", "Le", "Gt", "Ge") and len(st[1]) == 1:
            if op_local(st[2][2]) in S or op_local(st[2][3]) in S:
                conds[st[1][0]] = st
    out = []
    for b in fn.blocks():
        t = fn.term(b)
        if t[0] == "sw" and op_local(t[1]) in conds:
            out.append((b, conds[op_local(t[1])]))
    return out


def _bounded(fn, src, castblock):
    S = same_value(fn, src)
    for s in S:
        for dl, kind, pl in fn.defs(s):
            if kind == "assign" and pl[2][0] == "bin" and pl[2][1] in ("BitAnd", "Shr", "Rem", "ShrUnchecked"):
                return True
            if kind == "assign" and pl[2][0] == "disc":
                return True
            if kind == "call" and re.search(r"leading_zeros|trailing_zeros|count_ones|::min$|::clamp$", pl["f"]):
                return True
    return any(fn.dominates(b, castblock) and b != castblock for b, _ in cmp_switches(fn, S))


def run(ctx, fx, files, rule="R-NARROWCHECK", only=None):
    n = 0
    for f in files:
        for fid in fx.fn_ids(f):
            if "::tests::" in fid or (only and not only(fid)):
                continue
            for k in range(fx.count(fid)):
                fn = Fn(fx.raw(fid, k))
                eb = None
                for loc, st in fn.iter_locs():
                    if not (st[0] == "a" and st[2][0] == "cast" and st[2][1] == "IntToInt" and len(st[1]) == 1):
                        continue
                    src = op_local(st[2][2])
                    if src is None:
                        continue
                    ts, td = fn.ty(src), fn.ty(st[1][0])
                    if ts not in VALUE_TYPES or td not in W or W[td] >= W[ts]:
                        continue
                    n += 1
                    ctx.analysed_fns.add(fid)
                    bad = None
                    if not _bounded(fn, src, loc[0]):
                        if eb is None:
                            eb = err_blocks(fn)
                        for b, cst in cmp_switches(fn, same_value(fn, st[1][0])):
                            succs = fn.succ(b)
                            if any(s in eb for s in succs) and any(s not in eb for s in succs):
                                bad = cst[3]
                    ctx.obligation(rule, fid, "range check sees the full value", bad is None,
                                   sample={"fn": fid, "cast": "%s as %s" % (ts, td), "line": st[3], "source": fn.local_name(src)})
                    if bad is not None:
                        ctx.violation(rule, fid, "range check after `as %s`" % td,
                                      "%s narrows %s (%s) to %s at line %d and only then compares it with its limit (line %d): a value "
                                      "that exceeds the limit by a multiple of 2^%d passes the check and is stored truncated"
                                      % (fid.rsplit("::", 1)[-1], fn.local_name(src), ts, td, st[3], bad, W[td]), fn.file, st[3])
    ctx.instance(rule + ".casts", n)
    return n


# ------------------------------------------------------------------ R-WIDTHCHECK
def _any_cast_class(fn, s):
    """locals equal to s up to integer casts of either direction (the check may sit on the wide original)"""
    cls = {s}
    changed = True
    while changed:
        changed = False
        for loc, st in fn.iter_locs():
            if st[0] != "a" or len(st[1]) != 1:
                continue
            rv = st[2]
            o = rv[1] if rv[0] == "use" else (rv[2] if rv[0] == "cast" and rv[1] == "IntToInt" else None)
            if o is None:
                continue
            pl = op_place(o)
            if not pl or len(pl) != 1:
                continue
            a, b = st[1][0], pl[0]
            if (a in cls) != (b in cls) and len(fn.defs(a)) == 1 and len(fn.defs(b)) <= 1:
                cls |= {a, b}
                changed = True
    return cls


def packed_value_checked(ctx, fx, fid, callee_rx, value_name="value", rule="R-WIDTHCHECK"):
    """every call in `fid` to a fixed-width bit packer (callee matching callee_rx, which masks its `value` parameter to
    `bit_width` bits) is dominated by a refusing comparison on the value it passes: a number that does not fit the
    configured width is an error, not a silently shortened entry. Siblings must agree: the delta of a block is checked,
    so its base has to be as well."""
    rx = re.compile(callee_rx)
    if not fx.has(fid):
        # `fid` names a struct: every method of it in its file is searched (the packing loop may have been split)
        n = 0
        for f2 in fx.fn_ids():
            rec = fx.raw(f2)
            if "::tests::" not in f2 and (rec["self_ty"] or "").split("<")[0] == fid and not rx.search(f2):
                n += packed_value_checked(ctx, fx, f2, callee_rx, value_name, rule)
        return n
    fn = Fn(fx.raw(fid))
    eb = err_blocks(fn)
    n = 0
    for b, c in fn.calls():
        if not rx.search(c["f"]) or not fx.has(c["f"]):
            continue
        cf = Fn(fx.raw(c["f"]))
        idx = [i for i in range(1, cf.nargs + 1) if cf.local_name(i) == value_name]
        if not idx or idx[0] - 1 >= len(c["a"]):
            continue
        vl = op_local(c["a"][idx[0] - 1])
        if vl is None:
            continue
        n += 1
        ctx.analysed_fns.add(fid)
        cls = _any_cast_class(fn, vl)
        guard = None
        for sb, cst in cmp_switches(fn, cls):
            succs = fn.succ(sb)
            if not (any(s in eb for s in succs) and any(s not in eb for s in succs)):
                continue
            # `width < 64 && value >= limit`: the comparison sits behind short-circuit tests that do not involve
            # the value; walk up through single-predecessor switch blocks
            d, hops = sb, 0
            while not fn.dominates(d, b) and hops < 8 and len(fn.pred(d)) == 1:
                d = fn.pred(d)[0]
                hops += 1
            if fn.dominates(d, b) and d != b:
                guard = cst[3]
        if guard is None:
            # the check may have been moved into a private helper: `Self::ensure_fits(value, width)?;`
            for b2, c2 in fn.calls():
                if not (fx.has(c2["f"]) and fn.dominates(b2, b) and b2 != b) or rx.search(c2["f"]):
                    continue
                pos = [i for i, a in enumerate(c2["a"]) if op_local(a) in cls]
                if not pos or "Result<" not in fn.ty(c2["d"][0]):
                    continue
                hf = Fn(fx.raw(c2["f"]))
                heb = err_blocks(hf)
                for i in pos:
                    hcls = _any_cast_class(hf, i + 1)
                    for sb, cst in cmp_switches(hf, hcls):
                        succs = hf.succ(sb)
                        if any(s in heb for s in succs) and any(s not in heb for s in succs):
                            guard = "%s:%s" % (c2["f"].rsplit("::", 1)[-1], cst[3])
        ok = guard is not None
        ctx.obligation(rule, fid, "value passed to %s is range-checked" % c["f"].rsplit("::", 1)[-1], ok,
                       sample={"fn": fid, "packer": c["f"], "line": c["ln"], "guard_line": guard,
                               "value": fn.local_name(sorted(cls)[0])})
        if not ok:
            ctx.violation(rule, fid, "unchecked value for %s" % c["f"].rsplit("::", 1)[-1],
                          "%s packs %s into a fixed number of bits through %s (line %d) without a refusing comparison on it: "
                          "a value wider than the configured width is masked and reads back as a different number"
                          % (fid.rsplit("::", 1)[-1], fn.local_name(vl) or "a value", c["f"].rsplit("::", 1)[-1], c["ln"]),
                          fn.file, c["ln"])
    ctx.instance(rule + ".sites", n)
    return n


# ------------------------------------------------------------------ R-PAIRACCESS
def pair_accessor(ctx, fx, fid, rule="R-PAIRACCESS"):
    """`get2(i)` returns elements i and i+1 of a block-compressed vector. The neighbour may live in the next block, so
    its position has to be computed from i+1 as a whole: some call of the accessor (element getter, sample getter,
    delta getter) receives a value derived from `index + 1`. An accessor that derives block and offset from `index`
    only and reads "the next delta" mixes the neighbour's delta with the wrong block base at every block boundary."""
    fn = Fn(fx.raw(fid))
    idx = [i for i in range(1, fn.nargs + 1) if fn.ty(i) == "usize"]
    plus1 = set()
    for loc, st in fn.iter_locs():
        if st[0] == "a" and st[2][0] in ("bin", "checked") and len(st[1]) == 1:
            rv = st[2]
            opn, x, y = rv[1], rv[2], rv[3]
            if opn in ("Add", "AddWithOverflow", "AddUnchecked"):
                for a, b in ((x, y), (y, x)):
                    k = op_const(b)
                    if k is not None and k[0] == 1 and op_local(a) is not None and (op_local(a) in idx or
                                                                                    any(op_local(a) in same_value(fn, i) for i in idx)):
                        plus1.add(st[1][0])
    fw = (fn.forward_locals(plus1) | plus1) if plus1 else set()
    used = None
    for b, c in fn.calls():
        if c["f"].rsplit("::", 1)[-1] in ("from_residual", "branch", "invalid_data", "panic_bounds_check"):
            continue
        if any(op_local(a) in fw for a in c["a"] if op_local(a) is not None and fn.ty(op_local(a)) in ("usize", "u64", "u32")):
            used = (c["f"], c["ln"])
            break
    ctx.analysed_fns.add(fid)
    ok = used is not None
    ctx.obligation(rule, fid, "neighbour located from index + 1", ok,
                   sample={"fn": fid, "index_plus_one_locals": len(plus1), "consumer": used})
    if not ok:
        ctx.violation(rule, fid, "neighbour not located from index + 1",
                      "%s never hands a value derived from `index + 1` to an accessor: the second element is read relative to the "
                      "first element's block, which is the wrong base whenever the pair straddles a block boundary"
                      % fid.rsplit("::", 1)[-1], fn.file, fn.line)
    ctx.instance(rule + ".accessors", 1)
    return 1


# ------------------------------------------------------------------ R-NARROWIDX
def index_param_narrowed(ctx, fx, files, rule="R-NARROWIDX", only=None):
    """a position handed in as `usize` (index, length, count) is compared at full width before it is cut to a narrower
    integer: in the container files every narrowing cast of (a copy of) a `usize` parameter is dominated by a comparison
    on the wide value. `self[index as u32]` with the bound checked on the u32 lets index = 2^32 + k alias element k."""
    n = 0
    for f in files:
        for fid in fx.fn_ids(f):
            if "::tests::" in fid or "{closure" in fid or (only and not only(fid)):
                continue
            fn = Fn(fx.raw(fid))
            params = {i for i in range(1, fn.nargs + 1) if fn.ty(i) == "usize"}
            if not params:
                continue
            for loc, st in fn.iter_locs():
                if not (st[0] == "a" and st[2][0] == "cast" and st[2][1] == "IntToInt" and len(st[1]) == 1):
                    continue
                src = op_local(st[2][2])
                if src is None or W.get(fn.ty(st[1][0]), 99) >= W.get(fn.ty(src), 0):
                    continue
                S = same_value(fn, src)
                if not (S & params):
                    continue
                n += 1
                ctx.analysed_fns.add(fid)
                ok = any(fn.dominates(b, loc[0]) and b != loc[0] for b, _ in cmp_switches(fn, S)) or _bounded(fn, src, loc[0])
                ctx.obligation(rule, fid, "usize parameter checked before `as %s`" % fn.ty(st[1][0]), ok,
                               sample={"fn": fid, "line": st[3], "param": fn.local_name(sorted(S & params)[0])})
                if not ok:
                    ctx.violation(rule, fid, "usize parameter narrowed unchecked",
                                  "%s cuts its usize parameter %s to %s (line %d) before any comparison on the full value: positions "
                                  "that differ by a multiple of 2^%d are treated as the same element"
                                  % (fid.rsplit("::", 1)[-1], fn.local_name(sorted(S & params)[0]), fn.ty(st[1][0]), st[3], W[fn.ty(st[1][0])]),
                                  fn.file, st[3])
    ctx.instance(rule + ".casts", n)
    return n
