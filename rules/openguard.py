"""R-GUARD.open: on opening a file-backed structure, a size declared by the header is compared
with the bytes actually present (file length / mapping size) before success is returned."""
import re

from vlib.mir import Fn, op_local, op_place, rv_operands
from rules.order import ok_return_blocks

CMP = ("Lt", "Le", "Gt", "Ge")


def _slice_hits(fn, l, rx):
    """does the backward slice of local l contain a call / field read matching rx?"""
    locs, sites = fn.backslice([l])
    for loc, kind, pl in sites:
        if kind in ("call", "mutarg"):
            if rx.search(pl["f"]) or rx.search(pl.get("st", "")):
                return True
        elif kind in ("assign", "store"):
            for o in rv_operands(pl[2]):
                p = op_place(o)
                if p and any(isinstance(e, str) and rx.search(e) for e in p[1:]):
                    return True
    return False


def _guard_lines(fn, drx, prx, fx=None, depth=0):
    """lines of refusing declared-vs-present comparisons that dominate every successful return of fn; a crate-local
    helper whose Result is propagated (its call dominates the successful returns and its Err edge cannot reach
    them) counts when it contains such a comparison itself"""
    oks, _ = ok_return_blocks(fn)
    if not oks:
        oks = set(fn.exits())
    found = []
    for (b, i), st in fn.iter_locs():
        if st[0] != "a" or st[2][0] != "bin" or st[2][1] not in CMP:
            continue
        a, c = op_local(st[2][2]), op_local(st[2][3])
        if a is None or c is None:
            continue
        for x, y in ((a, c), (c, a)):
            if _slice_hits(fn, x, drx) and _slice_hits(fn, y, prx) and not _slice_hits(fn, y, drx):
                # the comparison must decide: its switch dominates every Ok return and one edge refuses
                for sb in fn.blocks():
                    t = fn.term(sb)
                    if t[0] == "sw" and op_local(t[1]) == st[1][0]:
                        dominates = all(fn.dominates(sb, o) for o in oks)
                        refuses = any(not (fn.reachable_from([s], avoid=[sb]) & oks) for s in fn.succ(sb))
                        if dominates and refuses:
                            found.append(st[3])
    if not found and fx is not None and depth < 2:
        from rules.pair import err_blocks
        eb = err_blocks(fn)
        for b, c in fn.calls():
            if not (c.get("loc") and fx.has(c["f"]) and "Result<" in fn.ty(c["d"][0])):
                continue
            if not all(fn.dominates(b, o) and b != o for o in oks):
                continue
            # the Result is examined: some block after the call can only fail
            reach = fn.reachable_from(fn.succ(b))
            if not (reach & eb):
                continue
            inner = _guard_lines(Fn(fx.raw(c["f"])), drx, prx, fx, depth + 1)
            if inner:
                found += ["%s:%s" % (c["f"].rsplit("::", 1)[-1], x) for x in inner]
    return found


def check(ctx, fn, declared_rx, present_rx, rule="R-GUARD.open", what="declared size vs bytes present", fx=None):
    drx, prx = re.compile(declared_rx), re.compile(present_rx)
    found = _guard_lines(fn, drx, prx, fx)
    ok = bool(found)
    ctx.obligation(rule, fn.id, what, ok,
                   sample={"fn": fn.id, "declared": declared_rx, "present": present_rx, "guard_lines": found[:3]})
    if not ok:
        ctx.violation(rule, fn.id, what,
                      "no refusing comparison between a header-declared size (/%s/) and the bytes actually present "
                      "(/%s/) dominates the successful return: a cut-short file is accepted" % (declared_rx, present_rx),
                      fn.file, fn.line)
    return ok
