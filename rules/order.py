"""R-ORDER: must-precede / must-pass-through over resolved callees.

events are named by callee-path regexes (matched against the resolved callee and its
trait-item alias). Two forms:
  precede(fn, A, B):    every B site is dominated by some A site (and B exists)
  then_before_ok(fn, A, B): every path from an A site to a normal return on which the
                         function result is Ok passes through a B site
"""
import re

from vlib.mir import Fn, op_local


FX = None


def use_facts(fx):
    """lets the ordering rules look into crate-local helpers (an event inside a private helper counts at its call site)"""
    global FX
    FX = fx


_CONTAINS = {}


def _contains(fid, pat, depth=0):
    """does crate-local function fid (transitively, two levels) contain a call matching pat?"""
    if FX is None or not FX.has(fid):
        return False
    key = (id(FX), fid, pat)
    if key in _CONTAINS:
        return _CONTAINS[key]
    _CONTAINS[key] = False
    rx = re.compile(pat)
    hf = Fn(FX.raw(fid))
    res = False
    for b, c in hf.calls():
        if rx.search(c["f"]) or (c.get("st") and rx.search(c["st"])):
            res = True
        elif depth < 2 and c.get("loc") and _contains(c["f"], pat, depth + 1):
            res = True
    _CONTAINS[key] = res
    return res


def sites(fn, pat):
    rx = re.compile(pat)
    out = []
    for b, c in fn.calls():
        if rx.search(c["f"]) or (c.get("st") and rx.search(c["st"])):
            out.append((b, c))
        elif c.get("loc") and _contains(c["f"], pat):
            out.append((b, dict(c, via=c["f"])))
    return out


def _err_only(fn):
    """blocks from which only an Err result can be returned (`?` residual paths, explicit Err)"""
    from rules.pair import err_blocks
    return err_blocks(fn)


def _helper_precede(fid, a_pat, b_pat):
    """inside helper fid every B site is dominated by an A site"""
    hf = Fn(FX.raw(fid))
    A, B = sites(hf, a_pat), sites(hf, b_pat)
    for b, c in B:
        if any(hf.dominates(a, b) and a != b for a, _ in A):
            continue
        if c.get("via") and any(a == b and ca.get("via") == c["via"] for a, ca in A) and _helper_precede(c["via"], a_pat, b_pat):
            continue
        return False
    return bool(B)


def _helper_then_before_ok(fid, a_pat, b_pat):
    """inside helper fid every path from an A site to a successful return passes a B site"""
    hf = Fn(FX.raw(fid))
    A, B = sites(hf, a_pat), sites(hf, b_pat)
    oks, _ = ok_return_blocks(hf)
    if not oks:
        oks = set(hf.exits())
    Bb = [b for b, _ in B]
    for a, ca in A:
        if ca.get("via") and any(b == a and cb.get("via") == ca["via"] for b, cb in B) and _helper_then_before_ok(ca["via"], a_pat, b_pat):
            continue
        reach = hf.reachable_from(hf.succ(a), avoid=Bb + list(_err_only(hf)))
        if any(o in reach for o in oks):
            return False
    return bool(A)


def ok_return_blocks(fn):
    """blocks ending in `ret` that are reachable from an assignment of Result::Ok to _0
    (or any return if the function does not return a Result)"""
    rets = fn.exits()
    if "result::Result<" not in fn.ty(0):
        return set(rets), True
    ok_assign = []
    err_assign = []
    for (b, i), st in fn.iter_locs():
        if st[0] == "a" and st[1] == [0] and st[2][0] == "agg" and isinstance(st[2][1], str):
            if st[2][1].endswith("Result::Ok"):
                ok_assign.append(b)
            elif st[2][1].endswith("Result::Err"):
                err_assign.append(b)
    return set(ok_assign), False


def precede(ctx, fn, a_pat, b_pat, rule, what):
    A = sites(fn, a_pat)
    B = sites(fn, b_pat)
    ctx.instance(rule + ".events", len(A) + len(B))
    if not B:
        ctx.obligation(rule, fn.id, what, False)
        ctx.violation(rule, fn.id, what + " [event B missing]",
                      "expected a call matching /%s/ in this function" % b_pat, fn.file, fn.line)
        return
    for b, c in B:
        ok = any(fn.dominates(a, b) and a != b for a, _ in A) or \
            (bool(c.get("via")) and any(a == b and ca.get("via") == c["via"] for a, ca in A)
             and _helper_precede(c["via"], a_pat, b_pat))
        ctx.obligation(rule, fn.id, what, ok,
                       sample={"fn": fn.id, "must_precede": a_pat, "event": c["f"], "line": c["ln"],
                               "dominating_sites": [ca["ln"] for a, ca in A if fn.dominates(a, b)]})
        if not ok:
            ctx.violation(rule, fn.id, what,
                          "%s (line %d) can execute on a path that has not passed through /%s/"
                          % (c["f"].rsplit("::", 2)[-2] + "::" + c["f"].rsplit("::", 1)[-1], c["ln"], a_pat),
                          fn.file, c["ln"])


def then_before_ok(ctx, fn, a_pat, b_pat, rule, what, from_entry=False):
    """every path from A (or from entry) to an Ok result passes through B"""
    As = sites(fn, a_pat)
    Bs = sites(fn, b_pat)
    settled = {a for a, ca in As if ca.get("via") and any(b == a and cb.get("via") == ca["via"] for b, cb in Bs)
               and _helper_then_before_ok(ca["via"], a_pat, b_pat)}
    A = [b for b, _ in As] if not from_entry else [0]
    B = [b for b, _ in Bs]
    ctx.instance(rule + ".events", len(A) + len(B))
    oks, anyret = ok_return_blocks(fn)
    if not A:
        ctx.obligation(rule, fn.id, what, False)
        ctx.violation(rule, fn.id, what + " [event A missing]",
                      "expected a call matching /%s/ in this function" % a_pat, fn.file, fn.line)
        return
    if not oks:
        # result is forwarded from a callee: every return counts
        oks = set(fn.exits())
    bad = None
    for a in A:
        if a in settled and not from_entry:
            continue
        starts = fn.succ(a) if not from_entry else [0]
        reach = fn.reachable_from(starts, avoid=B + list(_err_only(fn)))
        hit = [o for o in oks if o in reach]
        if hit and (from_entry and 0 in B) is False:
            bad = (a, hit[0])
            break
    ok = bad is None
    ctx.obligation(rule, fn.id, what, ok,
                   sample={"fn": fn.id, "after": a_pat, "must_pass": b_pat, "ok_blocks": sorted(oks)[:6]})
    if not ok:
        ctx.violation(rule, fn.id, what,
                      "a path from /%s/ reaches a successful return without passing through /%s/" % (a_pat, b_pat),
                      fn.file, fn.line)


# ------------------------------------------------------------------ R-SEQ
import re as _re

UNORDERED = _re.compile(r"buffer_unordered|FuturesUnordered|for_each_concurrent|select_all$|select_ok$|JoinSet<[^>]*>::join_next|"
                        r"try_buffer_unordered|try_for_each_concurrent")


def sequence_order(ctx, fx, files, rule="R-SEQ"):
    """an API whose body returns Vec<_> / Result<Vec<_>> with one element per input must not assemble it with a
    completion-ordered combinator: the element order would then depend on the schedule. Nested closure and
    coroutine bodies are searched with the API they belong to."""
    n = 0
    allids = [fid for f in files for fid in fx.fn_ids(f) if "::tests::" not in fid]
    for fid in allids:
        for k in range(fx.count(fid)):
            fn = Fn(fx.raw(fid, k))
            rt = fn.ty(0)
            if not _re.search(r"^(std::result::Result<)?std::vec::Vec<", rt):
                continue
            n += 1
            ctx.analysed_fns.add(fid)
            bad = None
            reordered = False
            bodies = [fid] + [x for x in allids if x.startswith(fid + "::{")]
            for bid in bodies:
                for kk in range(fx.count(bid)):
                    bf = fn if bid == fid and kk == k else Fn(fx.raw(bid, kk))
                    for b, c in bf.calls():
                        if UNORDERED.search(c["f"]) or UNORDERED.search(c.get("st") or ""):
                            bad = (c["f"], c["ln"], bf.file)
                        if _re.search(r"::sort(_unstable)?(_by(_key|_cached_key)?)?$", c["f"]):
                            reordered = True      # completion order repaired by an index sort
                    for loc, st in bf.iter_locs():
                        # results written into their slot by index: `out[i] = r`
                        if st[0] == "a" and len(st[1]) > 1 and any(isinstance(e, str) and e.startswith("[_") for e in st[1][1:]):
                            reordered = True
            if reordered:
                bad = None
            ctx.obligation(rule, fid, "no completion-ordered combinator", bad is None,
                           sample={"fn": fid, "returns": rt[:80], "bodies_searched": len(bodies)})
            if bad:
                ctx.violation(rule, fid, "sequence assembled with %s" % bad[0].rsplit("::", 1)[-1],
                              "%s returns %s but collects through %s (line %d): elements arrive in completion order, so "
                              "a slow item shifts every later result to an earlier index" % (fid.rsplit("::{", 1)[0].rsplit("::", 1)[-1], rt[:60], bad[0], bad[1]),
                              bad[2], bad[1])
    ctx.instance(rule + ".sequence_apis", n)
    return n


def forbidden_in(ctx, fn, pat, rule, what, depth=2):
    """who-may-call: `fn` (and crate-local callees, `depth` levels) contains no call matching pat"""
    hits = []

    def walk(f, d, seen):
        rx = re.compile(pat)
        for b, c in f.calls():
            if rx.search(c["f"]) or (c.get("st") and rx.search(c["st"])):
                hits.append((f.id, c["f"], c["ln"]))
            elif d < depth and c.get("loc") and FX is not None and FX.has(c["f"]) and c["f"] not in seen:
                seen.add(c["f"])
                walk(Fn(FX.raw(c["f"])), d + 1, seen)
    walk(fn, 0, {fn.id})
    ok = not hits
    ctx.obligation(rule, fn.id, what, ok, sample={"fn": fn.id, "forbidden": pat, "found": hits[:3]})
    if not ok:
        ctx.violation(rule, fn.id, what,
                      "%s reaches %s (line %s, in %s): %s" % (fn.id.rsplit("::", 1)[-1], hits[0][1].rsplit("::", 2)[-2] + "::" +
                                                                 hits[0][1].rsplit("::", 1)[-1], hits[0][2], hits[0][0].rsplit("::", 1)[-1], what),
                      fn.file, hits[0][2])
    return 1


# ------------------------------------------------------------------ R-SEQ.shared
PAR_DRIVER = _re.compile(r"rayon::.*(for_each|try_for_each|for_each_with|for_each_init)$|ParallelIterator::(for_each|try_for_each)|"
                         r"std::thread::spawn$|thread::Scope.*::spawn$|thread::Builder::spawn|tokio::(task::)?spawn$|spawn_blocking$|"
                         r"rayon::(spawn|scope|join)$|JoinSet<[^>]*>::spawn$")
_GROW = ("push", "push_back", "extend", "extend_from_slice", "append")


def shared_accumulator(ctx, fx, files, rule="R-SEQ.shared", only=None):
    """pieces produced by parallel tasks are not assembled in completion order: inside the closures of a function that
    hands work to a parallel driver (rayon for_each, thread / task spawn) no `push`/`extend` goes to a collection reached
    through a lock guard (`Mutex::lock`, `RwLock::write`) - the order of such pushes is the order in which the tasks
    happened to finish. A function that afterwards sorts (by an index carried with each piece) is exempt."""
    allids = [fid for f in files for fid in fx.fn_ids(f) if "::tests::" not in fid and not (only and not only(fid))]
    parents = {}
    for fid in allids:
        for k in range(fx.count(fid)):
            for b, c in Fn(fx.raw(fid, k)).calls():
                if PAR_DRIVER.search(c["f"]) or PAR_DRIVER.search(c.get("st") or ""):
                    parents.setdefault(fid, c["ln"])      # the body that spawns; its nested closures are the tasks
    n = 0
    for P in sorted(parents):
        root = P.split("::{")[0]
        bodies = [x for x in allids if x == P or x.startswith(P + "::{")]
        # a sort anywhere in the enclosing function repairs the order
        for x in allids:
            if (x == root or x.startswith(root + "::{")) and x not in bodies:
                for k in range(fx.count(x)):
                    if any(_re.search(r"^sort(_unstable)?(_by(_key|_cached_key)?)?$", c["f"].rsplit("::", 1)[-1]) for b, c in Fn(fx.raw(x, k)).calls()):
                        bodies.append(x)
                        break
        sorts = False
        hit = None
        for bid in bodies:
            for k in range(fx.count(bid)):
                bf = Fn(fx.raw(bid, k))
                for b, c in bf.calls():
                    last = c["f"].rsplit("::", 1)[-1]
                    if _re.search(r"^sort(_unstable)?(_by(_key|_cached_key)?)?$", last):
                        sorts = True
                    if bid.startswith(P + "::{") and last in _GROW and c["a"] and op_local(c["a"][0]) is not None:
                        _, sites = bf.backslice([op_local(c["a"][0])], max_nodes=80)
                        if any(kind == "call" and _re.search(r"Mutex(::)?<[^>]*>::(try_)?lock$|RwLock(::)?<[^>]*>::(try_)?write$", pl["f"])
                               for loc, kind, pl in sites):
                            hit = (bid, c["f"], c["ln"], bf.file)
        n += 1
        ctx.analysed_fns.add(P)
        ok = hit is None or sorts
        ctx.obligation(rule, P, "no completion-ordered shared accumulator", ok,
                       sample={"fn": P, "driver_line": parents[P], "closures": len(bodies) - 1, "sorted_afterwards": sorts})
        if not ok:
            ctx.violation(rule, P, "pieces pushed under a lock from parallel tasks",
                          "%s hands work to a parallel driver (line %d) and its closure %s appends to a collection behind a lock guard "
                          "(%s, line %d): the pieces end up in the order the tasks finish, not in input order, and nothing sorts them"
                          % (P.rsplit("::", 1)[-1], parents[P], hit[0].rsplit("::", 1)[-1], hit[1].rsplit("::", 1)[-1], hit[2]), hit[3], hit[2])
    ctx.instance(rule + ".parallel_fns", n)
    return n


# ------------------------------------------------------------------ R-CREATE.truncate
def create_truncates(ctx, fx, files, rule="R-CREATE.truncate", name_rx=r"^(create\w*|new)$", only=None):
    """a constructor that creates the backing file of a writer (`create*` / `new`) starts from an empty file: its
    OpenOptions chain with create(true) + write(true) also has truncate(true) (or create_new / append), or a
    File::set_len dominates every successful return. Otherwise a shorter new generation written over an older, longer
    file keeps the old tail, and reopening shows stale bytes and the old length."""
    nrx = _re.compile(name_rx)
    n = 0
    for f in files:
        for fid in fx.fn_ids(f):
            base = fid.split("::{")[0].rsplit("::", 1)[-1]
            if "::tests::" in fid or not nrx.search(base) or (only and not only(fid)):
                continue
            for k in range(fx.count(fid)):
                fn = Fn(fx.raw(fid, k))
                opts = {}
                open_block = None
                for b, c in fn.calls():
                    if "OpenOptions" in c["f"]:
                        name = c["f"].rsplit("::", 1)[-1]
                        arg = None
                        if len(c["a"]) > 1:
                            from vlib.mir import op_const as _oc
                            kk = _oc(c["a"][1])
                            arg = kk[0] if kk is not None else "?"
                        opts[name] = arg
                        if name == "open":
                            open_block = b
                if not (opts.get("create") == 1 and opts.get("write") == 1) or open_block is None:
                    continue
                n += 1
                ctx.analysed_fns.add(fid)
                ok = opts.get("truncate") == 1 or opts.get("create_new") == 1 or opts.get("append") == 1
                how = "truncate(true)" if ok else None
                if not ok:
                    oks, _ = ok_return_blocks(fn)
                    if not oks:
                        oks = set(fn.exits())
                    for b, c in fn.calls():
                        if c["f"].endswith("File::set_len") and all(fn.dominates(b, o) for o in oks):
                            ok, how = True, "set_len on every successful path"
                ctx.obligation(rule, fid, "backing file starts empty", ok, sample={"fn": fid, "options": opts, "by": how})
                if not ok:
                    ctx.violation(rule, fid, "file created without truncation",
                                  "%s opens its backing file with create(true) + write(true) but neither truncate(true) nor an unconditional "
                                  "set_len: bytes and length of an older, longer file at the same path survive into the new one"
                                  % fid.rsplit("::", 1)[-1], fn.file, fn.line)
    ctx.instance(rule + ".sites", n)
    return n
