"""R-OWN: an RAII guard that calls back into its owner through a raw pointer must be tied
to the owner (lifetime parameter or strong/weak reference).

Reported: struct G with a field `*const T`/`*mut T` (T a crate ADT), no lifetime parameter,
no Arc/Rc/Weak/Box<T> field, built somewhere from a borrowed `&T` (address of self), whose
pointer field is dereferenced in G's impl (Drop or methods).
Also: R-OWN.tls  a type that transitively contains such a G stored in a thread_local/static.
"""
import re

from vlib.mir import Fn, op_place, op_local, rv_operands, place_fields

RAW_RE = re.compile(r"\*(?:const|mut) ([A-Za-z_][A-Za-z0-9_:]*)")


def adt_mentions(fx):
    """adt id -> set of crate adt ids mentioned in its field types"""
    ids = sorted(fx.adts, key=len, reverse=True)
    out = {}
    for i, a in fx.adts.items():
        s = set()
        for v in a["variants"]:
            for f in v["fields"]:
                for m in re.finditer(r"[A-Za-z_][A-Za-z0-9_]*(?:::[A-Za-z_][A-Za-z0-9_]*)+", f[1]):
                    if m.group(0) in fx.adts:
                        s.add(m.group(0))
        out[i] = s
    return out


def candidates(fx, files=None):
    """[(G id, field name, T id)]"""
    out = []
    for gid, a in fx.adts.items():
        if files is not None and a["file"] not in files:
            continue
        if a["kind"] != "Struct" or a["lifetimes"] > 0:
            continue
        fields = a["variants"][0]["fields"]
        for name, ty, vis in fields:
            for m in RAW_RE.finditer(ty):
                t = m.group(1)
                if t in fx.adts and t != gid:
                    strong = any(re.search(r"(Arc|Rc|Weak|Box)<%s[ ,>]" % re.escape(t), f[1]) for f in fields)
                    if not strong:
                        out.append((gid, name, t))
    return out


def built_from_borrow(fx, gid, fname, tid, an_files):
    """constructor sites where the pointer operand is derived from a `&T`/`&mut T` local
    (typically self). returns [(fn id, line)]"""
    hits = []
    needle = "adt:" + gid + "::"
    for f in an_files:
        for fid in fx.fn_ids(f):
            rec = fx.raw(fid)
            fn = Fn(rec)
            for loc, st in fn.iter_locs():
                if st[0] != "a" or st[2][0] != "agg" or not isinstance(st[2][1], str):
                    continue
                if not st[2][1].startswith(needle) or fname not in st[2][3]:
                    continue
                op = st[2][2][st[2][3].index(fname)]
                l = op_local(op)
                if l is None:
                    continue
                locs, _ = fn.backslice([l])
                for x in locs:
                    ty = fn.ty(x)
                    if x <= fn.nargs and x > 0 and re.match(r"&(mut )?%s\b" % re.escape(tid), ty):
                        hits.append((fid, st[3]))
                        break
    return hits


def derefs_field(fx, gid, fname, file):
    """functions (in the ADT's file) that dereference G.field"""
    key = "." + gid + "::" + fname
    out = []
    for fid in fx.fn_ids(file):
        rec = fx.raw(fid)
        fn = Fn(rec)
        found = False
        # direct place deref  (*((*self).field))
        for loc, st in fn.iter_locs():
            places = []
            if st[0] == "a":
                places = [st[1]] + [op_place(o) for o in rv_operands(st[2]) if op_place(o)]
            elif st[0] == "call":
                places = [op_place(o) for o in st[1]["a"] if op_place(o)]
            for p in places:
                if key in p:
                    i = p.index(key)
                    if "*" in p[i + 1:]:
                        found = True
        if not found:
            # copied into a local first, then dereferenced
            for loc, st in fn.iter_locs():
                if st[0] == "a" and st[2][0] == "use":
                    p = op_place(st[2][1])
                    if p and p[-1] == key and len(st[1]) == 1:
                        l = st[1][0]
                        fw = fn.forward_locals([l])
                        for loc2, p2 in [(lc, pp) for x in fw for lc, pp in fn.reads(x)]:
                            if "*" in p2[1:] and p2[0] in fw and fn.ty(p2[0]).startswith("*"):
                                found = True
        if found:
            out.append(fid)
    return out


def run(ctx, fx, files, rule="R-OWN"):
    found = []
    for gid, fname, tid in candidates(fx, files):
        a = fx.adts[gid]
        built = built_from_borrow(fx, gid, fname, tid, [a["file"]])
        der = derefs_field(fx, gid, fname, a["file"])
        ctx.instance(rule + ".raw_owner_fields")
        bad = bool(built) and bool(der)
        ctx.obligation(rule, gid, fname, not bad,
                       sample={"guard": gid, "field": fname, "owner": tid, "built_from_borrow_in": built[:3],
                               "dereferenced_in": der[:3], "lifetimes": a["lifetimes"]})
        if bad:
            found.append((gid, fname, tid))
            ctx.violation(rule, gid, "field %s: *%s" % (fname, tid.rsplit("::", 1)[-1]),
                          "%s stores a raw pointer to its owner %s taken from a borrow (%s) and dereferences it in %s, "
                          "but has no lifetime parameter and no strong/weak reference: safe code can drop or move the "
                          "owner while the guard is alive"
                          % (gid, tid, built[0][0], [d.rsplit("::", 1)[-1] for d in der[:3]]),
                          a["file"], a["line"])
    return found


def tls_escape(ctx, fx, untied, rule="R-OWN.tls"):
    """statics/thread_locals whose type transitively contains an untied guard"""
    ment = adt_mentions(fx)
    bad_ids = {g for g, _, _ in untied}
    # transitive containers
    contains = {}

    def has_bad(i, seen=()):
        if i in contains:
            return contains[i]
        if i in bad_ids:
            contains[i] = [i]
            return contains[i]
        if i in seen:
            return None
        for j in sorted(ment.get(i, ())):
            r = has_bad(j, seen + (i,))
            if r:
                contains[i] = [i] + r
                return contains[i]
        contains[i] = None
        return None
    n = 0
    done = set()
    for sid0, s in fx.statics.items():
        sid = sid0.split("::{constant")[0]
        if sid in done:
            continue
        done.add(sid)
        for m in re.finditer(r"[A-Za-z_][A-Za-z0-9_]*(?:::[A-Za-z_][A-Za-z0-9_]*)+", s["ty"]):
            if m.group(0) in fx.adts:
                chain = has_bad(m.group(0))
                n += 1
                if chain:
                    ctx.obligation(rule, sid, "contains untied guard", False,
                                   sample={"static": sid, "type": s["ty"][:120], "chain": chain})
                    ctx.violation(rule, sid, "stores " + chain[-1].rsplit("::", 1)[-1],
                                  "%s %s (type %s) can hold %s, which carries a raw pointer to an owner whose lifetime "
                                  "the static does not bound" % ("thread_local" if s["thread_local"] else "static", sid,
                                                               s["ty"][:80], " > ".join(c.rsplit("::", 1)[-1] for c in chain)),
                                  None, s["line"])
    ctx.instance(rule + ".statics_scanned", n)
