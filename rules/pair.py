"""R-PAIR: the layout a writer emits is the layout its reader parses.

A function (or the blocks exclusive to one arm of a switch on a variant enum) is abstracted
to the set of *event sequences* over its successful acyclic paths (back edges removed, so a
loop body contributes its events once). Events:
  ('int', bytes, endian)   push / to_*_bytes written  <->  byte load / from_*_bytes read
  ('bits', n)              write_bits(v, n)           <->  read_bits(n)
  ('prim', kind)           DataOutput::write_<kind>   <->  DataInput::read_<kind>
  ('ser', T)               T::serialize(out)          <->  T::deserialize(in)
  ('call', stem)           crate-local helper (encode_/write_/... prefix stripped)
  ('bytes',)               variable-length payload
Verdict: every complete writer sequence must be one of the reader's sequences.
"""
import re

from vlib.mir import Fn, op_local, op_place, op_const, rv_operands

INTW = {"u8": 1, "i8": 1, "u16": 2, "i16": 2, "u32": 4, "i32": 4, "u64": 8, "i64": 8, "usize": 8, "isize": 8,
        "u128": 16, "i128": 16, "f32": 4, "f64": 8}
TO_BYTES = re.compile(r"<impl (\w+)>::to_(le|be|ne)_bytes$")
FROM_BYTES = re.compile(r"<impl (\w+)>::from_(le|be|ne)_bytes$")
STRIP = re.compile(r"^(encode|decode|write|read|serialize|deserialize|put|get|compress|decompress|save|load|pack|unpack)_")
W_PRIM = re.compile(r"(?:DataOutput(?:>)?|::)::?write_(u8|u16|u32|u64|i8|i16|i32|i64|f32|f64|var_int|var_uint|varint|bytes|string|"
                    r"length_prefixed_bytes|length_prefixed_string|bool)$")
R_PRIM = re.compile(r"(?:DataInput(?:>)?|::)::?read_(u8|u16|u32|u64|i8|i16|i32|i64|f32|f64|var_int|var_uint|varint|bytes|vec|string|"
                    r"length_prefixed_bytes|length_prefixed_string|bool)$")


def _stem(name):
    last = name.rsplit("::", 1)[-1]
    prev = None
    while prev != last:
        prev = last
        last = STRIP.sub("", last)
    return last


def _slice_origin(fn, l):
    """('int', w, e) if slice local l derives from a to_*_bytes call, else None"""
    locs, sites = fn.backslice([l], max_nodes=60)
    for loc, kind, pl in sites:
        if kind == "call":
            m = TO_BYTES.search(pl["f"])
            if m:
                return ("int", INTW.get(m.group(1), 0), m.group(2))
    return None


def _feeds_from_bytes(fn, l):
    fw = fn.forward_locals([l], max_nodes=80)
    for b, c in fn.calls():
        if FROM_BYTES.search(c["f"]):
            for a in c["a"]:
                if op_local(a) in fw:
                    return True
    return False


def block_events(fn, b, role, buf_locals):
    ev = []
    for s in fn.stmts(b):
        if role == "r" and s[0] == "a" and s[2][0] == "use" and len(s[1]) == 1:
            p = op_place(s[2][1])
            if p and len(p) >= 3 and p[0] in buf_locals and fn.ty(s[1][0]) in ("u8", "i8") \
                    and any(isinstance(e, str) and e.startswith("[") for e in p[1:]):
                if not _feeds_from_bytes(fn, s[1][0]):
                    ev.append(("int", 1, "-"))
    t = fn.term(b)
    if t[0] != "call":
        return ev
    c = t[1]
    f = c["f"]
    alias = c.get("st", "")
    last = f.rsplit("::", 1)[-1]
    if role == "w":
        if re.search(r"Vec::<u8.*>::push$|Vec::<T, A>::push$", f) and c["a"] and "u8" in fn.ty(op_local(c["a"][0]) or 0):
            ev.append(("int", 1, "-"))
        elif last in ("extend_from_slice", "write_all", "put_slice", "write", "copy_from_slice", "extend") and len(c["a"]) >= 2 and \
                ("Vec" in f or "Write" in f or "Write" in alias or "DataOutput" in f or "[T]" in f):
            l = op_local(c["a"][1])
            o = _slice_origin(fn, l) if l is not None else None
            ev.append(o if o else ("bytes",))
        elif last == "write_bits" and len(c["a"]) >= 3:
            n = op_const(c["a"][2])
            ev.append(("bits", n[0] if n else _const_call(fn, c["a"][2])))
        else:
            m = W_PRIM.search(f) or W_PRIM.search(alias.split("|")[-1] if alias else "")
            if m:
                ev.append(("prim", {"vec": "bytes"}.get(m.group(1), m.group(1))))
            elif (last == "serialize" or last.startswith("serialize_")) and \
                    _passes_stream(fn, c, ("Vec<u8>", "BitWriter", "DataOutput", "Write", "&mut O", "&mut W")):
                ev.append(("ser", _ser_ty(c)))
            elif c["loc"] and _passes_stream(fn, c, ("Vec<u8>", "BitWriter", "DataOutput", "Write")):
                ev.append(("call", _stem(f)))
    else:
        m = FROM_BYTES.search(f)
        if m:
            ev.append(("int", INTW.get(m.group(1), 0), m.group(2)))
        elif last in ("extend_from_slice", "to_vec", "to_owned", "from_utf8", "from_utf8_lossy") and \
                any(op_local(a) in buf_locals for a in c["a"]):
            ev.append(("bytes",))
        elif last == "read_bits" and len(c["a"]) >= 2:
            n = op_const(c["a"][1])
            ev.append(("bits", n[0] if n else _const_call(fn, c["a"][1])))
        else:
            m = R_PRIM.search(f) or R_PRIM.search(alias.split("|")[-1] if alias else "")
            if m:
                ev.append(("prim", {"vec": "bytes"}.get(m.group(1), m.group(1))))
            elif last in ("read_exact", "read_to_end", "read_bytes"):
                ev.append(("bytes",))
            elif (last == "deserialize" or last.startswith("deserialize_")) and \
                    _passes_stream(fn, c, ("BitReader", "DataInput", "Read", "&mut I", "&mut R")):
                ev.append(("ser", _ser_ty(c)))
            elif c["loc"] and _passes_stream(fn, c, ("[u8]", "BitReader", "DataInput", "Read")):
                ev.append(("call", _stem(f)))
    return ev


def _const_call(fn, op):
    """bit counts given by a const fn such as CompressionType::type_bits()"""
    l = op_local(op)
    if l is None:
        return "?"
    for d in fn.defs(l):
        if d[1] == "call":
            return "=" + d[2]["f"].rsplit("::", 1)[-1]
    return "?"


def _ser_ty(c):
    st = c.get("st", "")
    t = st.split("|")[0] if st else ""
    t = t.replace("&mut ", "").replace("&", "")
    return t or c["f"].rsplit("::", 2)[0]


def _passes_stream(fn, c, kinds):
    for a in c["a"]:
        l = op_local(a)
        if l is not None and any(k in fn.ty(l) for k in kinds):
            return True
    return False


def sequences(fn, start, region, role, buf_locals, ok_blocks=None, cap=96, fail_blocks=()):
    """set of event sequences over acyclic paths from `start` inside `region` that reach a normal
    exit of the region (leaving it or returning). Returns (set, opaque)"""
    # remove back edges: order blocks by RPO index
    order = {b: i for i, b in enumerate(fn.rpo())}
    memo = {}
    opaque = [False]
    evs = {b: tuple(block_events(fn, b, role, buf_locals)) for b in region}

    def go(b):
        if b in memo:
            return memo[b]
        memo[b] = set()     # cycle guard
        succs = [s for s in fn.succ(b) if order.get(s, 0) > order.get(b, 0)]
        inner = [s for s in succs if s in region]
        leaves = [s for s in succs if s not in region and s not in fail_blocks]
        res = set()
        t = fn.term(b)
        if t[0] in ("ret",) or leaves or (not succs and t[0] not in ("unr", "resume", "abort")):
            if ok_blocks is None or t[0] != "ret" or b in ok_blocks or True:
                res.add(evs[b])
        for s in inner:
            for tail in go(s):
                res.add(evs[b] + tail)
                if len(res) > cap:
                    opaque[0] = True
                    break
        if not succs and t[0] == "call" and t[1]["t"] is None:
            pass    # diverging call (panic): not a successful path
        memo[b] = res
        return res
    out = go(start)
    return out, opaque[0]


def err_blocks(fn):
    """blocks that assign an Err result (_0 = Err / from_residual) and blocks that can only reach those"""
    bad = set()
    for (b, i), st in fn.iter_locs():
        if st[0] == "a" and st[1] == [0] and st[2][0] == "agg" and isinstance(st[2][1], str) and st[2][1].endswith("Result::Err"):
            bad.add(b)
        if st[0] == "call" and "from_residual" in st[1]["f"] and st[1]["d"] == [0]:
            bad.add(b)
    # a block all of whose successors are bad is bad (propagate backwards)
    changed = True
    while changed:
        changed = False
        for b in fn.blocks():
            if b in bad:
                continue
            ss = fn.succ(b)
            if ss and all(s in bad for s in ss) and fn.term(b)[0] != "ret":
                # only if the block itself performs no stream event-free work matters not: it cannot succeed
                bad.add(b)
                changed = True
    return bad


def buffer_locals(fn):
    """byte-slice parameters and the slices derived from them"""
    bl = {i for i in range(1, fn.nargs + 1) if "[u8]" in fn.ty(i) or "Vec<u8>" in fn.ty(i)}
    if bl:
        bl = bl | {l for l in fn.forward_locals(bl) if "[u8]" in fn.ty(l) and fn.ty(l).startswith("&")}
    return bl


def fn_sequences(fn, role, region=None, start=0):
    buf_locals = buffer_locals(fn)
    region = set(fn.blocks()) if region is None else set(region)
    # drop blocks that can only end in Err
    eb = err_blocks(fn)
    okret = [b for b in fn.exits()]
    good = set()
    for b in region:
        good.add(b)
    seqs, opaque = sequences(fn, start, good - eb, role, buf_locals, fail_blocks=eb)
    return seqs, opaque


PRIM_EXPANSION = {
    # composite primitives of the DataInput/DataOutput traits, as their default methods define them
    "length_prefixed_bytes": ("var_int", "bytes"),
    "length_prefixed_string": ("var_int", "bytes"),
    "string": ("bytes",),
    "vec": ("bytes",),
}


def expand(seq):
    out = []
    for e in seq:
        if e[0] == "prim" and e[1] in PRIM_EXPANSION:
            out.extend(("prim", k) for k in PRIM_EXPANSION[e[1]])
        else:
            out.append(e)
    return tuple(out)


def strong(seq):
    """projection used where the two sides use different idioms for single bytes / payloads"""
    return tuple(e for e in expand(seq)
                 if e[0] in ("bits", "ser") or (e[0] == "prim" and e[1] != "bytes") or (e[0] == "int" and e[1] >= 2))


def is_prefix(a, b):
    return len(a) <= len(b) and tuple(b[:len(a)]) == tuple(a)


def compare(ctx, rule, label, wfn, wseqs, rfn, rseqs, opaque=False, mode="strict"):
    """every complete writer sequence must be among the reader's sequences"""
    if mode == "strong":
        wseqs = {strong(w) for w in wseqs}
        rseqs = {strong(r) for r in rseqs}
        if not any(wseqs) or not any(rseqs):
            ctx.obligation(rule, wfn.id, label, True, nontrivial=False,
                           sample={"pair": label, "note": "one side uses an idiom outside the event table (opaque)"})
            ctx.instance(rule + ".opaque")
            return 0
    wmax = [w for w in wseqs if not any(w != x and is_prefix(w, x) for x in wseqs)]
    bad = [w for w in wmax if w not in rseqs]
    recognised = sum(len(w) for w in wmax)
    ok = not bad or opaque
    ctx.obligation(rule, wfn.id, label, ok, nontrivial=recognised > 0,
                   sample={"pair": label, "writer": wfn.id, "reader": rfn.id,
                           "writer_sequences": [list(map(list, w)) for w in sorted(wmax)][:3],
                           "reader_sequences": [list(map(list, r)) for r in sorted(rseqs, key=len, reverse=True)][:3]})
    if not ok:
        w = bad[0]
        best = max(rseqs, key=lambda r: _common(w, r)) if rseqs else ()
        i = _common(w, best)
        ctx.violation(rule, wfn.id, label,
                      "writer emits %s but the reader parses %s (first difference at field %d: written %s, read %s)"
                      % (fmt(w), fmt(best), i, fmt(w[i:i + 1]) or "end", fmt(best[i:i + 1]) or "end"),
                      rfn.file, rfn.line)
    return recognised


def _common(a, b):
    n = 0
    for x, y in zip(a, b):
        if x != y:
            break
        n += 1
    return n


def fmt(seq):
    out = []
    for e in seq:
        if e[0] == "int":
            out.append("%dB%s" % (e[1], "" if e[2] in ("-", "le") else "/" + e[2]))
        elif e[0] == "bits":
            out.append("%sb" % e[1])
        elif e[0] == "bytes":
            out.append("bytes*")
        else:
            out.append("%s:%s" % (e[0], str(e[1]).rsplit("::", 1)[-1]))
    return "[" + ", ".join(out) + "]"


# ------------------------------------------------------------------ per-variant arms
def enum_switch_arms(fn, enum_suffixes):
    """[(switch_block, {variant_value: target}, otherwise, enum type)] for switches on the
    discriminant of a value whose type mentions one of enum_suffixes"""
    out = []
    for b in fn.blocks():
        t = fn.term(b)
        if t[0] != "sw":
            continue
        l = op_local(t[1])
        if l is None:
            continue
        ds = fn.defs(l)
        if len(ds) != 1 or ds[0][1] != "assign" or ds[0][2][2][0] != "disc":
            continue
        ty = ds[0][2][2][2] if len(ds[0][2][2]) > 2 else ""
        if any(s in ty for s in enum_suffixes):
            out.append((b, {int(v): tgt for v, tgt in t[2]}, t[3], ty.replace("&", "").strip()))
    return out


def arm_sequences(fx, fn, enum_suffixes, role):
    """{variant name: (set of sequences, opaque)} using the switch whose arms carry most events"""
    from rules.variant import arm_region
    best = None
    for b, table, otherwise, ty in enum_switch_arms(fn, enum_suffixes):
        adt = fx.adts.get(ty.split("<")[0])
        if adt is None:
            cands = [a for i, a in fx.adts.items() if i.endswith(ty.split("<")[0].rsplit("::", 1)[-1]) and a["kind"] == "Enum"]
            adt = cands[0] if cands else None
        if adt is None:
            continue
        names = {int(v["discr"]) if v["discr"] is not None else i: v["name"] for i, v in enumerate(adt["variants"])}
        allt = set(table.values()) | {otherwise}
        res = {}
        total = 0
        eb = err_blocks(fn)
        buf_locals = buffer_locals(fn)
        for d, name in names.items():
            tgt = table.get(d, otherwise)
            region = arm_region(fn, b, tgt, allt) - eb
            if tgt not in region:
                res[name] = (set(), False, d in table)
                continue
            seqs, opaque = sequences(fn, tgt, region, role, buf_locals, fail_blocks=eb)
            res[name] = (seqs, opaque, d in table)
            total += sum(len(s) for s in seqs)
        if best is None or total > best[0]:
            best = (total, res)
    return best[1] if best else {}


# ------------------------------------------------------------------ constant markers
def writer_markers(fn):
    """{c: (set of sequences after writing the one-byte constant c, opaque)} for write_u8(c)/push(c) sites"""
    out = {}
    eb = err_blocks(fn)
    bl = buffer_locals(fn)
    for b, c in fn.calls():
        f = c["f"]
        alias = c.get("st", "") or ""
        last = f.rsplit("::", 1)[-1]
        k = None
        if (last == "write_u8" or alias.endswith("write_u8")) and len(c["a"]) >= 2:
            k = op_const(c["a"][1])
        elif last == "push" and len(c["a"]) >= 2 and "u8" in fn.ty(op_local(c["a"][0]) or 0):
            k = op_const(c["a"][1])
        if k is None or not isinstance(k[0], int) or c["t"] is None:
            continue
        region = fn.reachable_from([c["t"]]) - eb
        if c["t"] not in region:
            continue
        seqs, opaque = sequences(fn, c["t"], region, "w", bl, fail_blocks=eb)
        prev = out.get(k[0])
        out[k[0]] = (seqs | prev[0], opaque or prev[1]) if prev else (seqs, opaque)
    return out


def reader_markers(fn):
    """{c: (set of sequences of the arm taken when the byte just read equals c, opaque)}; only the first
    switch on a value read with read_u8 / a byte load is used"""
    from rules.variant import arm_region
    eb = err_blocks(fn)
    bl = buffer_locals(fn)
    srcs = set()
    for b, c in fn.calls():
        f = c["f"]
        alias = c.get("st", "") or ""
        if f.rsplit("::", 1)[-1] == "read_u8" or alias.endswith("read_u8"):
            srcs.add(c["d"][0])
    if not srcs:
        return {}
    fw = fn.forward_locals(srcs, call_through=lambda c: c["f"].endswith("::branch") or c["f"].endswith("::from_output"))
    best = {}
    order = {b: i for i, b in enumerate(fn.rpo())}
    for b in sorted(fn.blocks(), key=lambda x: order.get(x, 0)):
        t = fn.term(b)
        if t[0] != "sw" or len(t[2]) < 2:
            continue
        l = op_local(t[1])
        if l is None or l not in fw or fn.ty(l) != "u8":
            continue
        allt = {tgt for _, tgt in t[2]} | {t[3]}
        for v, tgt in t[2]:
            region = arm_region(fn, b, tgt, allt) - eb
            if tgt not in region:
                best[int(v)] = (set(), False)
                continue
            seqs, opaque = sequences(fn, tgt, region, "r", bl, fail_blocks=eb)
            best[int(v)] = (seqs, opaque)
        break
    if best:
        return best
    # `if marker == 0 { .. } if marker != 1 { return Err } ..` chains: one two-way test per value
    for (b, i), st in fn.iter_locs():
        if st[0] != "a" or st[2][0] != "bin" or st[2][1] not in ("Eq", "Ne") or len(st[1]) != 1:
            continue
        for x, y in ((st[2][2], st[2][3]), (st[2][3], st[2][2])):
            k = op_const(y)
            if k is None or not isinstance(k[0], int) or op_local(x) not in fw or fn.ty(op_local(x)) != "u8":
                continue
            for sb in fn.blocks():
                t = fn.term(sb)
                if t[0] != "sw" or op_local(t[1]) != st[1][0]:
                    continue
                ev = fn.switch_edge_values(sb)
                explicit = [int(v) for v, _ in t[2]]
                want = 1 if st[2][1] == "Eq" else 0
                for tgt, vals in ev.items():
                    if want in vals or ("otherwise" in vals and want not in explicit):
                        allt = set(fn.succ(sb))
                        region = arm_region(fn, sb, tgt, allt) - eb
                        if tgt not in region or int(k[0]) in best:
                            continue
                        seqs, opaque = sequences(fn, tgt, region, "r", bl, fail_blocks=eb)
                        best[int(k[0])] = (seqs, opaque)
    return best


def compare_markers(ctx, rule, label, wfn, rfn):
    """per one-byte marker value written as a constant: what the writer emits after it is exactly what every
    successful path of the reader's arm for that value consumes"""
    wm, rm = writer_markers(wfn), reader_markers(rfn)
    n = 0
    for c in sorted(set(wm) & set(rm)):
        ws = {strong(w) for w in wm[c][0]}
        rs = {strong(r) for r in rm[c][0]}
        if wm[c][1] or rm[c][1] or not ws or not rs:
            continue
        wmax = {w for w in ws if not any(w != x and is_prefix(w, x) for x in ws)}
        n += 1
        missing = [w for w in wmax if w not in rs]
        short = [r for r in rs if r not in ws]
        ok = not missing and not short
        ctx.obligation(rule, wfn.id, "%s marker %d" % (label, c), ok,
                       sample={"pair": label, "marker": c, "writer_after_marker": [fmt(w) for w in sorted(wmax)][:3],
                               "reader_arm": [fmt(r) for r in sorted(rs)][:3]})
        if not ok:
            w = (missing or sorted(wmax))[0]
            r = (short or sorted(rs))[0]
            ctx.violation(rule, rfn.id, "%s marker %d" % (label, c),
                          "after the marker byte %d the writer emits %s but a successful path of the reader's arm for %d "
                          "consumes %s: the following fields are read from the wrong position" % (c, fmt(w), c, fmt(r)),
                          rfn.file, rfn.line)
    return n
