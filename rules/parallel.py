"""R-PARALLEL: two vectors of one struct that are indexed by the same slot number must be shrunk / reordered by the
same kind of operation in every function.

For each function of the struct, the set of shape-changing Vec operations (clear, truncate, retain, swap_remove,
remove, drain, pop, dedup*, sort*, split_off) whose receiver derives from field A is compared with the set for
field B. A function that compacts one side with `retain` and merely truncates the other leaves every survivor paired
with somebody else's entry. An indexed store into the other side (`b[i] = ..`, a hand-written compaction) is accepted
as matching anything.
"""
from vlib.mir import Fn, op_local, op_place, rv_operands
from rules.queue import field_of_receiver

SHAPE = ("clear", "truncate", "retain", "retain_mut", "swap_remove", "remove", "drain", "pop", "dedup", "dedup_by",
         "dedup_by_key", "sort", "sort_by", "sort_by_key", "sort_unstable", "sort_unstable_by", "split_off", "reverse")


def _indexed_store(fn, struct_path, field):
    """does fn assign through an index into (something derived from) the field?"""
    pref = "." + struct_path + "::" + field
    for loc, st in fn.iter_locs():
        if st[0] != "a" or len(st[1]) < 2:
            continue
        if not any(isinstance(e, str) and e.startswith("[") for e in st[1][1:]):
            # `v[i] = x` on a Vec goes through IndexMut: `(*r) = x` with r = index_mut(&mut v, i)
            if "*" in st[1][1:]:
                for loc2, kind2, pl2 in fn.defs(st[1][0]):
                    if kind2 == "call" and pl2["f"].rsplit("::", 1)[-1] == "index_mut" and pl2["a"] and \
                            field in field_of_receiver(fn, op_local(pl2["a"][0]), struct_path):
                        return True
            continue
        if pref in st[1][1:]:
            return True
        base = st[1][0]
        if field in field_of_receiver(fn, base, struct_path):
            return True
    return False


def _whole_element_store(fn, struct_path, field):
    """line of a store that replaces a whole element of the field's vector (`v[i] = elem`), else None"""
    for loc, st in fn.iter_locs():
        if st[0] != "a" or st[1][1:] != ["*"]:
            continue
        for loc2, kind2, pl2 in fn.defs(st[1][0]):
            if kind2 == "call" and pl2["f"].rsplit("::", 1)[-1] == "index_mut" and pl2["a"] and \
                    field in field_of_receiver(fn, op_local(pl2["a"][0]), struct_path):
                return st[3]
    return None


def run(ctx, fx, file, struct_path, a, b, rule="R-PARALLEL"):
    n = 0
    for fid in fx.fn_ids(file):
        if "::tests::" in fid or "{closure" in fid:
            continue
        rec = fx.raw(fid)
        if not (rec["self_ty"] or "").split("<")[0].endswith(struct_path):
            continue
        fn = Fn(rec)
        ops = {a: set(), b: set()}
        lines = {}
        for blk, c in fn.calls():
            last = c["f"].rsplit("::", 1)[-1]
            if last not in SHAPE or not c["a"] or "Vec" not in c["f"]:
                continue
            l = op_local(c["a"][0])
            if l is None:
                continue
            flds = field_of_receiver(fn, l, struct_path)
            # a receiver that mentions both fields (zip) tells nothing
            if a in flds and b not in flds:
                ops[a].add(last)
                lines[(a, last)] = c["ln"]
            elif b in flds and a not in flds:
                ops[b].add(last)
                lines[(b, last)] = c["ln"]
        # an element of A replaced in place (a recycled slot) needs its B counterpart written in the same function
        wa = _whole_element_store(fn, struct_path, a)
        if wa is not None:
            n += 1
            ctx.analysed_fns.add(fid)
            okb = _indexed_store(fn, struct_path, b)
            ctx.obligation(rule, fid, "%s[i] replaced together with %s[i]" % (a, b), okb,
                           sample={"fn": fid, "line": wa, "companion_written": okb})
            if not okb:
                ctx.violation(rule, fid, "%s[i] replaced without writing %s[i]" % (a, b),
                              "an element of %s is overwritten in place (line %s) but %s is not written at any index in this "
                              "function: a recycled slot keeps the companion value of its previous occupant" % (a, wa, b), fn.file, wa)
        if not ops[a] and not ops[b]:
            continue
        n += 1
        ctx.analysed_fns.add(fid)
        only_a, only_b = ops[a] - ops[b], ops[b] - ops[a]
        if only_a and _indexed_store(fn, struct_path, b):
            only_a = set()
        if only_b and _indexed_store(fn, struct_path, a):
            only_b = set()
        # a side that is not touched at all may be legitimately absent (e.g. Option::None): only a *different* operation counts
        bad = bool(only_a and ops[b]) or bool(only_b and ops[a])
        ctx.obligation(rule, fid, "%s / %s reshaped alike" % (a, b), not bad,
                       sample={"fn": fid, a: sorted(ops[a]), b: sorted(ops[b])})
        if bad:
            k = sorted(only_a or only_b)[0]
            side = a if only_a else b
            other = b if only_a else a
            ctx.violation(rule, fid, "%s.%s() without the same on %s" % (side, k, other),
                          "%s is reshaped with %s (line %s) while %s only sees %s: the two vectors are indexed by the same slot "
                          "number, so surviving entries end up paired with other entries' %s" %
                          (side, k, lines.get((side, k)), other, sorted(ops[other]), other), fn.file, lines.get((side, k)))
    ctx.instance(rule + ".functions", n)
    return n


# ------------------------------------------------------------------ R-CLEAR
RESET_CALLS = ("clear", "truncate", "fill", "resize", "drain", "retain", "take", "replace", "shrink_to_fit", "resize_with",
               "clear_and_shrink", "reset", "set_len", "split_off")


def clear_completeness(ctx, fx, file, struct_path, method="clear", exempt=(), rule="R-CLEAR"):
    """`clear()` brings every collection-typed field of the struct back to its empty state: a field whose companion
    counter is reset while the collection keeps its elements (a free-slot stack that survives the clear) leaves stale
    indices behind for the next insert."""
    adt = fx.adts.get(struct_path)
    if adt is None:
        raise Exception("R-CLEAR: struct %s not found" % struct_path)
    coll = [f[0] for f in adt["variants"][0]["fields"]
            if any(k in f[1] for k in ("Vec<", "VecDeque<", "HashMap<", "HashSet<", "BTreeMap<", "BTreeSet<", "FastVec<"))]
    fids = [i for i in fx.fn_ids(file) if i.endswith("::" + method) and "::tests::" not in i
            and (fx.raw(i)["self_ty"] or "").split("<")[0].endswith(struct_path)]
    if not fids:
        raise Exception("R-CLEAR: %s::%s not found" % (struct_path, method))
    fn = Fn(fx.raw(fids[0]))
    ctx.analysed_fns.add(fn.id)

    def touched(f, depth=0):
        out = set()
        for loc, st in f.iter_locs():
            if st[0] == "a" and len(st[1]) > 1:
                for e in st[1][1:]:
                    if isinstance(e, str) and e.startswith("." + struct_path + "::"):
                        out.add(e.rsplit("::", 1)[-1])
        for b, c in f.calls():
            last = c["f"].rsplit("::", 1)[-1]
            if last in RESET_CALLS and c["a"] and op_local(c["a"][0]) is not None:
                out |= field_of_receiver(f, op_local(c["a"][0]), struct_path)
            elif depth < 1 and c.get("loc") and fx.has(c["f"]) and (fx.raw(c["f"])["self_ty"] or "").split("<")[0].endswith(struct_path):
                out |= touched(Fn(fx.raw(c["f"])), depth + 1)
        return out
    t = touched(fn)
    n = 0
    for fld in coll:
        if fld in exempt:
            continue
        n += 1
        ok = fld in t
        ctx.obligation(rule, fn.id, "clear resets %s" % fld, ok, sample={"fn": fn.id, "field": fld, "reset": ok})
        if not ok:
            ctx.violation(rule, fn.id, "%s survives clear()" % fld,
                          "%s::clear() never empties or reassigns the collection field `%s`: its old contents (slot indices, "
                          "entries) are still there when the structure is used again" % (struct_path.rsplit("::", 1)[-1], fld),
                          fn.file, fn.line)
    ctx.instance(rule + ".fields", n)
    return n


def clear_all(ctx, fx, files, rule="R-CLEAR"):
    """R-CLEAR for every struct of `files` that has a `clear` method"""
    seen = set()
    total = 0
    for f in sorted(files):
        for fid in fx.fn_ids(f):
            if not fid.endswith("::clear") or "::tests::" in fid:
                continue
            st = (fx.raw(fid)["self_ty"] or "").split("<")[0]
            if not st or st in seen or st not in fx.adts:
                continue
            seen.add(st)
            total += clear_completeness(ctx, fx, f, st, rule=rule)
    ctx.instances[rule + ".fields"] = total
    ctx.instance(rule + ".structs", len(seen))
    return total


# ------------------------------------------------------------------ R-PARALLEL.build / R-MARKCOUNT (GoldHashMap)
def companion_built_per_entry(ctx, fx, file, struct_path, companion, rule="R-PARALLEL.build", only=None):
    """A function that stores a locally built Vec into the companion field (`hash_cache = Some(cache)`) and fills that Vec
    with `push` inside a loop pushes on every iteration: the companion is indexed by the slot number of the primary vector,
    so an iteration that skips its push shifts every later value to a lower slot."""
    pref = "." + struct_path + "::" + companion
    n = 0
    for fid in fx.fn_ids(file):
        if "::tests::" in fid or "{closure" in fid or (only and not only(fid)):
            continue
        fn = Fn(fx.raw(fid))
        stores = [st for loc, st in fn.iter_locs() if st[0] == "a" and len(st[1]) >= 2 and st[1][-1] == pref]
        if not stores:
            continue
        src = set()
        for st in stores:
            roots = [op_local(o) for o in rv_operands(st[2]) if op_local(o) is not None]
            if roots:
                src |= set(fn.backslice(roots)[0]) | set(roots)
        # the iterator form: `entries.iter().map(hash).collect()` is per-entry by construction, unless an adaptor drops items
        _, ssites = fn.backslice(sorted(src)) if src else ((), ())
        chain = [pl["f"] for _, k, pl in ssites if k == "call"]
        if any(f.endswith("::collect") for f in chain):
            n += 1
            ctx.analysed_fns.add(fid)
            drop = [f.rsplit("::", 1)[-1] for f in chain if f.rsplit("::", 1)[-1] in
                    ("filter", "filter_map", "skip_while", "take_while", "skip", "take", "step_by", "flat_map", "flatten", "dedup")]
            ctx.obligation(rule, fid, "%s collected from every entry" % companion, not drop,
                           sample={"fn": fid, "form": "collect", "dropping_adaptors": drop})
            if drop:
                ctx.violation(rule, fid, "%s built with a conditional push" % companion,
                              "the iterator chain collected into %s goes through %s: the vector is indexed by slot number, so every "
                              "value after a dropped slot lands at a lower index" % (companion, "/".join(drop)), fn.file, fn.line)
        for b, c in fn.calls():
            if c["f"].rsplit("::", 1)[-1] != "push" or "Vec" not in c["f"] or not c["a"]:
                continue
            r = op_local(c["a"][0])
            if r is None:
                continue
            rl = set(fn.backslice([r])[0]) | {r}
            # the receiver is a reference to a local that later flows into the companion field
            if not any(l in src and fn.ty(l).startswith("std::vec::Vec<") for l in rl):
                continue
            heads = [hb for hb, hc in fn.calls() if hc["f"].endswith("::next") and "Iterator" in hc["f"] and
                     b in fn.reachable_from(fn.succ(hb)) and hb in fn.reachable_from(fn.succ(b))]
            for hb in heads:
                n += 1
                ctx.analysed_fns.add(fid)
                skip = hb in fn.reachable_from(fn.succ(hb), avoid=[b])
                ctx.obligation(rule, fid, "%s pushed on every iteration" % companion, not skip,
                               sample={"fn": fid, "push_line": c["ln"], "loop_head_line": fn.term(hb)[1]["ln"]})
                if skip:
                    ctx.violation(rule, fid, "%s built with a conditional push" % companion,
                                  "the loop at line %s can start its next iteration without passing the push at line %s: the vector that "
                                  "becomes %s is indexed by slot number, so every value after a skipped slot lands one slot too low"
                                  % (fn.term(hb)[1]["ln"], c["ln"], companion), fn.file, c["ln"])
    ctx.instance(rule + ".loops", n)
    return n


def _mark_locs(fn, link_elem, marker_ty, must):
    out = []
    for loc, st in fn.iter_locs():
        if st[0] == "a" and len(st[1]) >= 2 and st[1][-1] == link_elem and st[2][0] == "use" and st[2][1][0] == "k" and \
                st[2][1][2] == marker_ty:
            out.append(loc)
        elif st[0] == "call" and st[1]["f"] in must and st[1]["f"] != fn.id:
            out.append(loc)
    return out


def _covered(fn, loc, marks):
    """a mark dominates loc, or every path from loc to a normal return passes a mark"""
    if any(fn.loc_dominates(m, loc) for m in marks):
        return True
    b, i = loc
    mb = {}
    for x, y in marks:
        mb.setdefault(x, []).append(y)
    if any(y > i for y in mb.get(b, [])):
        return True
    exits = set(fn.exits())
    if b in exits:
        return False
    return not (fn.reachable_from(fn.succ(b), avoid=set(mb)) & exits)


def deleted_count_marks(ctx, fx, file, struct_path, counter, link_elem, marker_ty, rule="R-MARKCOUNT", only=None):
    """Wherever the count of deleted slots is incremented, the slot is marked deleted (a constant of the link type stored into
    Entry::link) before it or on every path after it - in the function itself, or around each of its call sites in the file.
    len() = entries - count and the iterator / relink skip exactly the marked slots: a counted but unmarked slot is still
    yielded and is linked back in by the next rehash."""
    cpref = "." + struct_path + "::" + counter
    fns = {}
    for fid in fx.fn_ids(file):
        if "::tests::" in fid or "{closure" in fid or (only and not only(fid)):
            continue
        fns[fid] = Fn(fx.raw(fid))
    # helpers that mark on every path
    must = set()
    while True:
        grew = False
        for fid, fn in fns.items():
            if fid in must:
                continue
            ml = _mark_locs(fn, link_elem, marker_ty, must)
            if ml and not (fn.reachable_from([0], avoid={b for b, _ in ml}) & set(fn.exits())) or any(b == 0 for b, _ in ml):
                must.add(fid)
                grew = True
        if not grew:
            break
    n = 0
    for fid, fn in sorted(fns.items()):
        incs = []
        for loc, st in fn.iter_locs():
            if st[0] == "a" and len(st[1]) >= 2 and st[1][-1] == cpref:
                roots = [op_local(o) for o in rv_operands(st[2]) if op_local(o) is not None]
                _, sites = fn.backslice(roots) if roots else ((), ())
                if any(k == "assign" and pl[2][0] == "bin" and pl[2][1].startswith("Add") for _, k, pl in sites):
                    incs.append((loc, st[3]))
        if not incs:
            continue
        marks = _mark_locs(fn, link_elem, marker_ty, must)
        ctx.analysed_fns.add(fid)
        for loc, ln in incs:
            n += 1
            ok = _covered(fn, loc, marks)
            where = "in the function"
            if not ok:
                # the marking may have been left to the callers
                callers = [(g, (b, len(g.stmts(b))), c) for g in fns.values() if g.id != fid for b, c in g.calls() if c["f"] == fid]
                if callers and all(_covered(g, cl, _mark_locs(g, link_elem, marker_ty, must)) for g, cl, c in callers):
                    ok, where = True, "around every call site"
            ctx.obligation(rule, fid, "slot marked deleted wherever %s is incremented" % counter, ok,
                           sample={"fn": fid, "line": ln, "marks": len(marks), "where": where})
            if not ok:
                ctx.violation(rule, fid, "%s incremented without marking the slot on every path" % counter,
                              "%s is incremented at line %s but the deleted marker is stored into Entry::link on some paths only (and "
                              "not around every call site): the slot is counted as deleted yet still yielded by iter() and linked back "
                              "in by the next rehash" % (counter, ln), fn.file, ln)
    ctx.instance(rule + ".increments", n)
    return n
