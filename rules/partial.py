"""R-PARTIALWRITE: the byte count of a partial write is never dropped.

primitive : `std::io::Write::write` (any implementor), and - by propagation - every crate-local function that returns
            the count of such a call to its caller without looping (`drain_to`)
rule      : at every call of a primitive the `usize` count flows (def-use) into the caller's return value, or the call
            lies inside a loop (retry until drained). A caller that looks at the count only to compare it with zero and
            then resets / reuses the buffer loses the unwritten tail whenever the sink accepts fewer bytes than offered.
"""
import re

from vlib.mir import Fn, op_local
from rules.prune import natural_loops

PRIM = re.compile(r"io::Write>?::write$")


def _moved_to_return(fn, d):
    """the whole Result of the call is the function's result (`return inner.write(buf)`)"""
    seen, work = set(), [d]
    while work:
        l = work.pop()
        if l == 0:
            return True
        if l in seen:
            continue
        seen.add(l)
        for loc, st in fn.iter_locs():
            if st[0] == "a" and st[2][0] == "use" and op_local(st[2][1]) == l and len(st[2][1][1]) == 1 and len(st[1]) == 1:
                work.append(st[1][0])
    return False


def _checked_full(fn, counts):
    """the count is compared with a non-constant length and one outcome can only fail (`if n != buf.len() { return Err }`)"""
    from rules.pair import err_blocks
    from vlib.mir import op_const
    if not counts:
        return False
    watch = set(counts) | fn.forward_locals(counts)
    eb = None
    for loc, st in fn.iter_locs():
        if st[0] == "a" and st[2][0] == "bin" and st[2][1] in ("Eq", "Ne", "Lt", "Le", "Gt", "Ge") and len(st[1]) == 1:
            x, y = st[2][2], st[2][3]
            for a, b in ((x, y), (y, x)):
                if op_local(a) in watch and op_const(b) is None and op_local(b) is not None and op_local(b) not in watch:
                    if eb is None:
                        eb = err_blocks(fn)
                    for sb in fn.blocks():
                        t = fn.term(sb)
                        if t[0] == "sw" and op_local(t[1]) == st[1][0]:
                            succs = fn.succ(sb)
                            if any(s in eb for s in succs) and any(s not in eb for s in succs):
                                return True
    return False


def _sites(fx, fid, k, partial):
    fn = Fn(fx.raw(fid, k))
    out = []
    loops = None
    for b, c in fn.calls():
        if not (PRIM.search(c["f"]) or c["f"] in partial):
            continue
        d = c["d"][0]
        fw = fn.forward_locals([d]) | {d}
        counts = {l for l in fw if fn.ty(l) == "usize"}
        ret = (bool(counts) and 0 in fn.forward_locals(counts)) or _moved_to_return(fn, d) or _checked_full(fn, counts)
        if loops is None:
            loops = natural_loops(fn)
        out.append((fn, c, any(b in body for _, body in loops), ret))
    return out


def run(ctx, fx, files, rule="R-PARTIALWRITE", only=None):
    ids = [fid for f in files for fid in fx.fn_ids(f) if "::tests::" not in fid and not (only and not only(fid))]
    partial = set()
    res = {}
    for _ in range(4):
        changed = False
        for fid in ids:
            for k in range(fx.count(fid)):
                r = _sites(fx, fid, k, partial)
                if r:
                    res[(fid, k)] = r
                    if any(ret and not lp for _, _, lp, ret in r) and fid not in partial and not PRIM.search(fid):
                        partial.add(fid)
                        changed = True
        if not changed:
            break
    n = 0
    for (fid, k), r in sorted(res.items()):
        for fn, c, lp, ret in r:
            n += 1
            ctx.analysed_fns.add(fid)
            ok = lp or ret
            ctx.obligation(rule, fid, "count of %s is returned or retried" % c["f"].rsplit("::", 1)[-1], ok,
                           sample={"fn": fid, "callee": c["f"], "line": c["ln"], "in_loop": lp, "count_returned": ret})
            if not ok:
                ctx.violation(rule, fid, "partial write not retried",
                              "%s calls %s once (line %d) and neither returns the number of bytes written nor loops until the buffer "
                              "is drained: when the sink takes fewer bytes than offered the rest is dropped"
                              % (fid.rsplit("::", 1)[-1], c["f"].rsplit("::", 2)[-2] + "::" + c["f"].rsplit("::", 1)[-1], c["ln"]),
                              fn.file, c["ln"])
    ctx.instance(rule + ".sites", n)
    ctx.instance(rule + ".wrappers", len(partial))
    return n


# ------------------------------------------------------------------ R-TAKEEXACT
def bounded_section_read(ctx, fx, files, rule="R-TAKEEXACT", only=None):
    """`reader.take(n).read_to_end(&mut buf)` stops silently at end of file: a loader that reads a section of declared
    length this way must compare what it got with the declared length and refuse a short section (or use read_exact).
    The count returned by read_to_end, or the length of the buffer it filled, reaches a comparison with an Err-only
    outcome."""
    import re as _re
    from rules.pair import err_blocks
    n = 0
    for f in files:
        for fid in fx.fn_ids(f):
            if "::tests::" in fid or (only and not only(fid)):
                continue
            for k in range(fx.count(fid)):
                fn = Fn(fx.raw(fid, k))
                eb = None
                for b, c in fn.calls():
                    if not _re.search(r"Read>?::(read_to_end|read_to_string)$", c["f"]) or not c["a"]:
                        continue
                    r = op_local(c["a"][0])
                    if r is None or "Take<" not in fn.ty(r):
                        continue
                    n += 1
                    ctx.analysed_fns.add(fid)
                    if eb is None:
                        eb = err_blocks(fn)
                    fw = fn.forward_locals([c["d"][0]]) | {c["d"][0]}
                    watch = {l for l in fw if fn.ty(l) == "usize"}
                    watch |= fn.forward_locals(watch) if watch else set()
                    # length of the filled buffer
                    bufroots = set()
                    if len(c["a"]) > 1 and op_local(c["a"][1]) is not None:
                        bufroots = set(fn.points_to(op_local(c["a"][1]))) | {op_local(c["a"][1])}
                    for b2, c2 in fn.calls():
                        if c2["f"].rsplit("::", 1)[-1] == "len" and c2["a"] and op_local(c2["a"][0]) is not None:
                            l0 = op_local(c2["a"][0])
                            if l0 in bufroots or set(fn.points_to(l0)) & bufroots or set(fn.backslice([l0], max_nodes=20)[0]) & bufroots:
                                watch |= fn.forward_locals([c2["d"][0]]) | {c2["d"][0]}
                    ok = False
                    for loc, st in fn.iter_locs():
                        if st[0] == "a" and st[2][0] == "bin" and st[2][1] in ("Eq", "Ne", "Lt", "Le", "Gt", "Ge") and len(st[1]) == 1 and \
                                (op_local(st[2][2]) in watch or op_local(st[2][3]) in watch):
                            for sb in fn.blocks():
                                t = fn.term(sb)
                                if t[0] == "sw" and op_local(t[1]) == st[1][0]:
                                    succs = fn.succ(sb)
                                    if any(s in eb for s in succs) and any(s not in eb for s in succs):
                                        ok = True
                    ctx.obligation(rule, fid, "short section refused", ok, sample={"fn": fid, "line": c["ln"]})
                    if not ok:
                        ctx.violation(rule, fid, "length-bounded read_to_end without a length check",
                                      "%s reads a section with take(n).read_to_end (line %d) and never compares the number of bytes it got "
                                      "with n: a file cut inside the section loads as Ok with truncated content"
                                      % (fid.rsplit("::", 1)[-1], c["ln"]), fn.file, c["ln"])
    ctx.instance(rule + ".sites", n)
    return n
