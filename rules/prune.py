"""R-PRUNE: removal from a trie may unlink a chain of dead-end nodes, but the walk towards the root has to stop at a
node that is itself a key.

In every `remove*` function of the file, a store of `None` into the children table of the node type that sits in a loop
must share that loop with a branch decided by the node's `is_final` flag (read directly or through a crate-local
helper) that can leave the loop. Without it, removing "abcd" also unlinks the node of the shorter key "ab".
"""
import re

from vlib.mir import Fn, op_local, op_place, op_const, rv_operands


def natural_loops(fn):
    """[(header, body set)] for back edges t->h with h dominating t"""
    out = []
    for t in fn.blocks():
        for h in fn.succ(t):
            if fn.dominates(h, t):
                body = {h, t}
                work = [t]
                while work:
                    x = work.pop()
                    if x == h:
                        continue
                    for p in fn.pred(x):
                        if p not in body:
                            body.add(p)
                            work.append(p)
                out.append((h, body))
    return out


def _is_none(fn, rv):
    if rv[0] == "agg" and isinstance(rv[1], str) and rv[1].endswith("Option::None"):
        return True
    if rv[0] == "use":
        l = op_local(rv[1])
        p = op_place(rv[1])
        if l is not None and p and len(p) == 1:
            ds = fn.defs(l)
            return bool(ds) and all(d[1] == "assign" and d[2][2][0] == "agg" and isinstance(d[2][2][1], str)
                                    and d[2][2][1].endswith("Option::None") for d in ds)
    return False


def _reads_field(fn, l, fkey, fx=None, depth=0):
    locs, sites = fn.backslice([l], max_nodes=80)
    for loc, kind, pl in sites:
        if kind == "assign":
            for o in rv_operands(pl[2]):
                p = op_place(o)
                if p and any(e == "." + fkey for e in p[1:]):
                    return True
        elif kind == "call" and fx is not None and depth < 1 and pl.get("loc") and fx.has(pl["f"]):
            cf = Fn(fx.raw(pl["f"]))
            if cf.ty(0) == "bool" and _reads_field(cf, 0, fkey, fx, depth + 1):
                return True
    return False


def run(ctx, fx, file, node_adt, children="children", final="is_final", name_rx=r"::remove", rule="R-PRUNE"):
    rx = re.compile(name_rx)
    ck, fk = "%s::%s" % (node_adt, children), "%s::%s" % (node_adt, final)
    n = 0
    for fid in fx.fn_ids(file):
        if "::tests::" in fid or not rx.search(fid):
            continue
        fn = Fn(fx.raw(fid))
        loops = None
        for (b, i), st in fn.iter_locs():
            if st[0] != "a" or len(st[1]) < 3 or "." + ck not in st[1][1:] or not _is_none(fn, st[2]):
                continue
            if loops is None:
                loops = natural_loops(fn)
            inside = [(h, body) for h, body in loops if b in body]
            if not inside:
                continue
            n += 1
            ctx.analysed_fns.add(fid)
            ok = False
            for h, body in inside:
                for sb in body:
                    t = fn.term(sb)
                    if t[0] != "sw":
                        continue
                    l = op_local(t[1])
                    if l is None or not any(s not in body for s in fn.succ(sb)):
                        continue
                    if _reads_field(fn, l, fk, fx):
                        ok = True
            ctx.obligation(rule, fid, "unlink loop stops at final nodes", ok,
                           sample={"fn": fid, "unlink_line": st[3], "loops": len(inside), "stops_at_final": ok})
            if not ok:
                ctx.violation(rule, fid, "pruning loop ignores %s" % final,
                              "the loop that unlinks dead-end nodes (children[..] = None at line %s) has no exit decided by "
                              "%s.%s: removing a key also unlinks every ancestor that has no other child, including "
                              "ancestors that are keys themselves" % (st[3], node_adt.rsplit("::", 1)[-1], final),
                              fn.file, st[3])
    ctx.instance(rule + ".unlink_loops", n)
    return n
