"""R-QUEUE: every task queue a worker's own loop can fill is drained on the worker's own path.

For a struct whose fields are queues of the task type, each method is summarised by the
fields it pushes into and pops from (receiver of the VecDeque call is data-derived from the
field). In the worker's `find_task`, methods called on the parameter of type `&Queue` (the
owner's own queue) form the owner path; methods called on elements of the `[Arc<Queue>]`
parameter form the thief path. A field with a producer but no consumer on the owner path
strands tasks when there is a single worker.
"""
from vlib.mir import Fn, op_local, op_place, rv_operands

PUSH = ("push_back", "push_front", "insert", "append", "extend")
POP = ("pop_front", "pop_back", "remove", "drain", "swap_remove_back", "swap_remove_front", "split_off")


def field_of_receiver(fn, recv_local, struct_path):
    """set of field names of struct_path that the receiver is derived from"""
    locs, sites = fn.backslice([recv_local])
    out = set()
    pref = "." + struct_path + "::"
    for loc, kind, pl in sites:
        ops = []
        if kind in ("assign", "store"):
            ops = rv_operands(pl[2])
        elif kind in ("call", "mutarg"):
            ops = pl["a"]
        for o in ops:
            p = op_place(o)
            if not p:
                continue
            for e in p[1:]:
                if isinstance(e, str) and e.startswith(pref):
                    out.add(e[len(pref):])
    return out


def summarise_methods(fx, struct_path, file):
    """method id -> {'push': set(fields), 'pop': set(fields), 'calls': set(method ids)}"""
    out = {}
    for fid in fx.fn_ids(file):
        rec = fx.raw(fid)
        if not rec["self_ty"].endswith(struct_path):
            continue
        fn = Fn(rec)
        s = {"push": set(), "pop": set(), "calls": set()}
        for b, c in fn.calls():
            f = c["f"]
            if "VecDeque" in f and c["a"]:
                last = f.rsplit("::", 1)[-1]
                l = op_local(c["a"][0])
                if l is None:
                    continue
                flds = field_of_receiver(fn, l, struct_path)
                if last in PUSH:
                    s["push"] |= flds
                elif last in POP:
                    s["pop"] |= flds
            elif c["loc"]:
                s["calls"].add(f)
        out[fid] = s
    # close over intra-struct calls
    changed = True
    while changed:
        changed = False
        for fid, s in out.items():
            for c in list(s["calls"]):
                if c in out:
                    for k in ("push", "pop"):
                        if out[c][k] - s[k]:
                            s[k] |= out[c][k]
                            changed = True
    return out


def run(ctx, fx, struct_path, file, find_task_id, loop_ids, rule="R-QUEUE"):
    adt = fx.adts.get(struct_path)
    if adt is None:
        raise Exception("R-QUEUE: struct %s not found" % struct_path)
    qfields = [f[0] for f in adt["variants"][0]["fields"] if "VecDeque<" in f[1]]
    meths = summarise_methods(fx, struct_path, file)
    ft = fx.raw(find_task_id)
    if ft is None:
        raise Exception("R-QUEUE: %s not found" % find_task_id)
    fn = Fn(ft)
    ctx.analysed_fns.add(find_task_id)
    owner_params = [i for i in range(1, fn.nargs + 1)
                    if fn.ty(i).replace("&", "").strip().endswith(struct_path) and "[" not in fn.ty(i)]
    thief_params = [i for i in range(1, fn.nargs + 1) if "[" in fn.ty(i) and struct_path in fn.ty(i)]
    if len(owner_params) != 1:
        raise Exception("R-QUEUE: cannot identify the owner-queue parameter of %s" % find_task_id)
    owner_called, thief_called = set(), set()
    for b, c in fn.calls():
        if c["f"] in meths and c["a"]:
            l = op_local(c["a"][0])
            locs, _ = fn.backslice([l])
            if owner_params[0] in locs:
                owner_called.add(c["f"])
            if any(t in locs for t in thief_params):
                thief_called.add(c["f"])
    # methods the worker loop calls on its own queue (receiver not derived from an iterator)
    loop_called = set()
    for lid in loop_ids:
        for k in range(fx.count(lid)):
            lf = Fn(fx.raw(lid, k))
            ctx.analysed_fns.add(lid)
            for b, c in lf.calls():
                if c["f"] in meths:
                    loop_called.add(c["f"])
    producers = {q: sorted(m for m, s in meths.items() if q in s["push"]) for q in qfields}
    owner_pops = set()
    for m in owner_called:
        owner_pops |= meths[m]["pop"]
    thief_pops = set()
    for m in thief_called:
        thief_pops |= meths[m]["pop"]
    ctx.instance(rule + ".queue_fields", len(qfields))
    ctx.instance(rule + ".methods", len(meths))
    for q in qfields:
        has_prod = bool(producers[q])
        ok = (not has_prod) or (q in owner_pops)
        ctx.obligation(rule, struct_path, q, ok,
                       sample={"queue": q, "producers": [p.rsplit("::", 1)[-1] for p in producers[q]],
                               "owner_path_methods": sorted(m.rsplit("::", 1)[-1] for m in owner_called),
                               "owner_path_drains": sorted(owner_pops), "thief_path_drains": sorted(thief_pops)})
        if not ok:
            ctx.violation(rule, find_task_id, "owner path never pops %s" % q,
                          "queue field %s is filled by %s but the worker's own path (%s) only drains %s; with a single "
                          "worker a task parked there is never run"
                          % (q, [p.rsplit("::", 1)[-1] for p in producers[q]],
                             sorted(m.rsplit("::", 1)[-1] for m in owner_called), sorted(owner_pops)),
                          ft["file"], ft["line"])
        if has_prod and q not in owner_pops | thief_pops:
            ctx.violation(rule, find_task_id, "no worker path pops %s" % q,
                          "queue field %s has producers but no consumer on any worker path" % q, ft["file"], ft["line"])
    return meths
