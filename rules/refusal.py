"""Refusal form of R-GUARD.

param_refusal: an index/rank/position parameter of an accessor is compared with the container's own
   state before any successful return that depends on it: every block that builds Ok(..)/Some(..)
   is dominated by a deciding comparison on the parameter whose 'large' edge cannot reach it - or
   the parameter is forwarded to a callee that is checked the same way (delegation), or every use of
   the parameter is a bounds-checked index (panic = refusal).
state_refusal: in push*/pop* style mutators every unchecked effect (raw pointer read/write,
   MaybeUninit access) is dominated by a deciding test of the container's fullness/emptiness.
"""
import re

from vlib.mir import Fn, op_local, op_place, op_const, rv_operands
from rules import taint

EFFECT_RX = re.compile(r"ptr::(mut_ptr|const_ptr)::<impl \*(mut|const) T>::(write|read|write_unaligned|read_unaligned|copy_to|copy_from|"
                       r"copy_to_nonoverlapping|copy_from_nonoverlapping|drop_in_place)$|"
                       r"ptr::(write|read|copy|copy_nonoverlapping|drop_in_place|read_unaligned|write_unaligned)$|"
                       r"MaybeUninit::<T>::(write|assume_init_read|assume_init|assume_init_drop)$|intrinsics::copy")
STATE_FIELD = re.compile(r"::(len|count|size|length|head|tail|capacity|cap|num_elements|elements)$")
STATE_HELPER = re.compile(r"::(is_full|is_empty|len|capacity|has_space|can_push|remaining|available|count|size)$")


def success_blocks(fn):
    """blocks that build the successful result: Ok(..) / Some(..) assigned to the return place (or
    to a temp that flows to it); for bool returns: `true`; if none, every return block"""
    out = set()
    rt = fn.ty(0)
    for (b, i), st in fn.iter_locs():
        if st[0] == "a" and st[2][0] == "agg" and isinstance(st[2][1], str):
            nm = st[2][1]
            if nm.endswith("Result::Ok") or nm.endswith("Option::Some"):
                if st[1] == [0] or 0 in fn.forward_locals([st[1][0]]):
                    out.add(b)
    return out


def param_refusal(ctx, fx, fn, params, rule, summaries=None, delegates=None, depth=0, all_success=False):
    """returns number of (fn, param) obligations"""
    n = 0
    sm = summaries or taint.Summaries(fx)
    sm.use_registry = False
    for p in params:
        ft = taint.FnTaint(fn, (), (p,), (), (), sm, None)
        roots = ft.param_roots.get(p, set())
        g = taint.Guards(fn, ft)
        succ = success_blocks(fn)
        # only success blocks whose value depends on the parameter matter
        fw = fn.forward_locals([p])
        dep_succ = set()
        for b in succ:
            for st in fn.stmts(b):
                if st[0] == "a" and st[2][0] == "agg" and any(op_local(o) in fw for o in st[2][2]):
                    dep_succ.add(b)
        # unchecked effects that use the parameter
        effects = []
        for b, c in fn.calls():
            if (EFFECT_RX.search(c["f"]) or re.search(r"get_unchecked(_mut)?$|::add$|::offset$|from_raw_parts", c["f"])) \
                    and any(op_local(a) in fw for a in c["a"]):
                effects.append((b, c))
        targets = dep_succ | {b for b, _ in effects}
        if all_success:
            targets |= succ      # the refusal must protect every successful return, data-dependent or not
        if not targets:
            # pure forwarding: the parameter is handed to a crate-local callee (checked separately)
            fwd = [c for b, c in fn.calls() if c["loc"] and any(op_local(a) in fw for a in c["a"])]
            if fwd:
                n += 1
                ctx.obligation(rule, fn.id, "forwards %s" % fn.local_name(p), True, nontrivial=False,
                               sample={"fn": fn.id, "param": fn.local_name(p), "how": ["delegates to " + fwd[0]["f"].rsplit("::", 1)[-1]]})
            continue
        n += 1
        bad = []
        how = set()
        for b in sorted(targets):
            prot = g.protecting(b, roots, None, relational=True)
            # relational: the other side may be container state that the registry-free analysis sees as clean
            prot = [x for x in prot if not x[1].startswith("Eq") and not x[1].startswith("Ne")]
            if prot:
                how.add(prot[0][1])
                continue
            # delegation: the block's value comes from a crate-local call that receives the parameter
            deleg = False
            for b2, c in fn.calls():
                if c["loc"] and any(op_local(a) in fw for a in c["a"]) and (fn.dominates(b2, b) or b2 == b):
                    last = c["f"].rsplit("::", 1)[-1]
                    if delegates is None or delegates(c["f"]):
                        deleg = True
                        how.add("delegates to " + last)
            if deleg:
                continue
            # safe indexing only (panic is a refusal): a BoundsCheck assert on the parameter dominates the block
            bc = False
            for b3 in fn.blocks():
                t = fn.term(b3)
                if t[0] == "assert" and t[3] == "BoundsCheck" and op_local(t[4][1]) in fw and (fn.dominates(b3, b) or b3 == b):
                    bc = True
                    how.add("bounds-checked index (panics)")
            if not bc:
                bad.append(b)
        ok = not bad
        pname = fn.local_name(p)
        ctx.obligation(rule, fn.id, "refuses out-of-range %s" % pname, ok,
                       sample={"fn": fn.id, "param": pname, "guarded_targets": len(targets) - len(bad),
                               "unguarded_targets": len(bad), "how": sorted(how)[:3]})
        if not ok:
            ctx.violation(rule, fn.id, "no refusal of out-of-range %s" % pname,
                          "a successful result or an unchecked access that depends on %s is reachable without a dominating "
                          "comparison of %s with the container's length/count" % (pname, pname), fn.file, fn.line)
    return n


_READS_STATE = {}


def _callee_reads_state(fx, fid, depth=0):
    """does crate-local `fid` (one more level deep) read a length/count/capacity field?"""
    if fx is None or not fx.has(fid):
        return False
    if fid in _READS_STATE:
        return _READS_STATE[fid]
    _READS_STATE[fid] = False
    cf = Fn(fx.raw(fid))
    res = False
    for loc, st in cf.iter_locs():
        if st[0] == "a":
            for o in rv_operands(st[2]):
                p = op_place(o)
                if p and any(isinstance(e, str) and STATE_FIELD.search(e) for e in p[1:]):
                    res = True
    if not res and depth < 1:
        for b, c in cf.calls():
            if c.get("loc") and (STATE_HELPER.search(c["f"]) or _callee_reads_state(fx, c["f"], depth + 1)):
                res = True
    _READS_STATE[fid] = res
    return res


def state_refusal(ctx, fn, rule, kind, fx=None):
    """kind: 'push' or 'pop' (which state test is expected)"""
    effects = [(b, c) for b, c in fn.calls() if EFFECT_RX.search(c["f"])]
    if not effects:
        return 0
    tests = []
    for sb in fn.blocks():
        t = fn.term(sb)
        if t[0] != "sw":
            continue
        l = op_local(t[1])
        if l is None:
            continue
        locs, sites = fn.backslice([l], max_nodes=120)
        desc = None
        for loc, k, pl in sites:
            if k == "call" and STATE_HELPER.search(pl["f"]) and pl["a"] and 1 in fn.backslice([op_local(pl["a"][0]) or 0], max_nodes=20)[0]:
                desc = pl["f"].rsplit("::", 1)[-1] + "()"
            elif k == "call" and pl.get("loc") and pl["a"] and _callee_reads_state(fx, pl["f"]) \
                    and 1 in fn.backslice([op_local(pl["a"][0]) or 0], max_nodes=20)[0]:
                # a private helper of the container that looks at its length/capacity (len_after_adding, reserve, ...)
                desc = desc or pl["f"].rsplit("::", 1)[-1] + "() [reads state]"
            elif k == "assign":
                for o in rv_operands(pl[2]):
                    p = op_place(o)
                    if p and any(isinstance(e, str) and STATE_FIELD.search(e) for e in p[1:]):
                        if pl[2][0] == "bin" or True:
                            desc = desc or "field " + [e for e in p[1:] if isinstance(e, str) and STATE_FIELD.search(e)][0].rsplit("::", 1)[-1]
            elif k == "call" and "sync::atomic" in pl["f"] and pl["f"].endswith("::load"):
                desc = desc or "atomic state load"
        if desc:
            tests.append((sb, desc))
    n = 0
    for b, c in effects:
        n += 1
        # a refusing test (one edge avoids the effect) or a grow-then-continue test both count: what is
        # required is that the container's state is examined on every path to the effect
        dom = [(sb, d) for sb, d in tests if sb != b and fn.dominates(sb, b)]
        ok = bool(dom)
        eff = c["f"].rsplit("::", 1)[-1]
        ctx.obligation(rule, fn.id, "%s guarded by state test" % eff, ok,
                       sample={"fn": fn.id, "effect": eff, "line": c["ln"], "state_tests": [d for _, d in dom][:3]})
        if not ok:
            ctx.violation(rule, fn.id, "unchecked %s without %s test" % (eff, "fullness" if kind == "push" else "emptiness"),
                          "the raw %s at line %d is not dominated by a deciding test of the container's %s: a %s on a %s "
                          "container touches a slot it must not" %
                          (eff, c["ln"], "count/capacity" if kind == "push" else "count",
                           kind, "full" if kind == "push" else "empty"), fn.file, c["ln"])
    return n


def region_upper_bound(ctx, fx, fn, pidx, size_rx, rule="R-GUARD.region"):
    """a pointer-to-offset validator refuses addresses beyond the end of the region: some refusing comparison relates a
    value derived from the pointer parameter to a value derived from the region size (a field or helper matching size_rx).
    Without it a foreign pointer that merely lies above the base is accepted and written through."""
    from rules.pair import err_blocks
    srx = re.compile(size_rx)
    fw = fn.forward_locals([pidx])
    eb = err_blocks(fn)

    def mentions_size(l):
        locs, sites = fn.backslice([l], max_nodes=120)
        for loc, kind, pl in sites:
            if kind == "assign":
                for o in rv_operands(pl[2]):
                    p = op_place(o)
                    if p and any(isinstance(e, str) and srx.search(e) for e in p[1:]):
                        return True
            elif kind == "call" and srx.search(pl["f"]):
                return True
        return False
    found = None
    for (b, i), st in fn.iter_locs():
        if st[0] != "a" or st[2][0] != "bin" or st[2][1] not in ("Lt", "Le", "Gt", "Ge") or len(st[1]) != 1:
            continue
        a, c = op_local(st[2][2]), op_local(st[2][3])
        for x, y in ((a, c), (c, a)):
            if x is None or y is None or x not in fw or not mentions_size(y):
                continue
            for sb in fn.blocks():
                t = fn.term(sb)
                if t[0] == "sw" and op_local(t[1]) == st[1][0]:
                    succs = fn.succ(sb)
                    if any(s in eb for s in succs) and any(s not in eb for s in succs):
                        found = st[3]
    ok = found is not None
    ctx.obligation(rule, fn.id, "address compared with base + region size", ok,
                   sample={"fn": fn.id, "param": fn.local_name(pidx), "size_source": size_rx, "guard_line": found})
    if not ok:
        ctx.violation(rule, fn.id, "no upper bound on the address",
                      "%s turns a caller-supplied pointer into an offset without a refusing comparison against the end of the "
                      "region (/%s/): a pointer above the region is accepted, and the pool links free-list data through it"
                      % (fn.id.rsplit("::", 1)[-1], size_rx), fn.file, fn.line)
    return 1
