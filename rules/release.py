"""R-RELEASE: a block is not touched after it was handed back.

fn     : a function with a raw block pointer parameter (`NonNull<u8>`, `*mut u8`) that passes it (or a value derived from
         it) to a release call (callee matching RELEASE: deallocate / free / push onto a free structure)
rule   : from the release call no call that *writes through or reads* the pointer is reachable (from_raw_parts[_mut],
         write_bytes, fill, copy*, read/write, crate-local helpers taking the pointer). Once the block is on the free
         list another thread may own it, and the intrusive link lives in its first bytes: a late scrub wipes the link
         or the new owner's data.
"""
import re

from vlib.mir import Fn, op_local

RELEASE = re.compile(r"::(deallocate\w*|dealloc\w*|free\w*|release\w*|push|try_push|push_free\w*|return_\w+)$")
TOUCH = re.compile(r"from_raw_parts(_mut)?$|write_bytes$|::fill$|fast_fill$|fast_copy$|copy_nonoverlapping$|ptr::copy$|ptr::write\w*$|"
                   r"ptr::read\w*$|::write_volatile$|::zero\w*$|::scrub\w*$|::memset$")


def run(ctx, fx, files, rule="R-RELEASE", only=None):
    n = 0
    for f in files:
        for fid in fx.fn_ids(f):
            if "::tests::" in fid or (only and not only(fid)):
                continue
            fn = Fn(fx.raw(fid))
            ptrs = [i for i in range(1, fn.nargs + 1) if re.search(r"NonNull<u8>|\*mut u8|\*const u8", fn.ty(i))]
            if not ptrs:
                continue
            fw = fn.forward_locals(ptrs) | set(ptrs)
            rel = [(b, c) for b, c in fn.calls() if RELEASE.search(c["f"]) and c.get("loc") and
                   any(op_local(a) in fw for a in c["a"] if op_local(a) is not None)]
            if not rel:
                continue
            touches = [(b, c) for b, c in fn.calls() if TOUCH.search(c["f"]) and
                       any(op_local(a) in fw for a in c["a"] if op_local(a) is not None)]
            for rb, rc in rel:
                n += 1
                ctx.analysed_fns.add(fid)
                reach = fn.reachable_from(fn.succ(rb))
                late = [(b, c) for b, c in touches if b in reach]
                ok = not late
                ctx.obligation(rule, fid, "block untouched after %s" % rc["f"].rsplit("::", 1)[-1], ok,
                               sample={"fn": fid, "release": rc["f"], "line": rc["ln"], "touches_before": len(touches) - len(late)})
                if not ok:
                    b, c = late[0]
                    ctx.violation(rule, fid, "block touched after %s" % rc["f"].rsplit("::", 1)[-1],
                                  "%s hands the block back through %s (line %d) and afterwards still accesses it through %s (line %d): "
                                  "the block may already belong to another thread and its first bytes hold the free-list link"
                                  % (fid.rsplit("::", 1)[-1], rc["f"].rsplit("::", 1)[-1], rc["ln"], c["f"].rsplit("::", 1)[-1], c["ln"]),
                                  fn.file, c["ln"])
    ctx.instance(rule + ".releases", n)
    return n
