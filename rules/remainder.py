"""R-REMAINDER: `chunks_exact(n)` silently skips the last `len % n` elements. Where every element has to be visited
(width analysis, bulk encode/decode), the function must deal with that tail:
  - it asks the iterator for `remainder()` / `into_remainder()`, or
  - the slice it iterates comes from a `split_at(len / n * n)` (the tail is the other half), or
  - it tests `len % n` against 0 (the input is refused or known to be a multiple).
Byte buffers (`&[u8]`) cut into fixed-size records are out of scope: their length is a multiple of the record size by
construction, and reporting them would be a false alarm on a harmless `chunks_exact(ENTRY_SIZE)`.
"""
from vlib.mir import Fn, op_local, op_const, op_place


def run(ctx, fx, files, rule="R-REMAINDER"):
    n = 0
    for f in files:
        for fid in fx.fn_ids(f):
            if "::tests::" in fid or "::test_" in fid:
                continue
            for k in range(fx.count(fid)):
                fn = Fn(fx.raw(fid, k))
                ces = [(b, c) for b, c in fn.calls() if c["f"].endswith("::chunks_exact") or c["f"].endswith("::chunks_exact_mut")]
                if not ces:
                    continue
                rem_calls = [c for b, c in fn.calls() if c["f"].endswith("::remainder") or c["f"].endswith("::into_remainder")]
                for b, c in ces:
                    # byte buffers cut into fixed-size records (entry tables, serialised words) are a multiple of the record
                    # size by construction: the rule is about scans over the *values* (element type wider than a byte)
                    r0 = op_local(c["a"][0]) if c["a"] else None
                    if r0 is not None and ("[u8]" in fn.ty(r0) or "Vec<u8>" in fn.ty(r0)):
                        continue
                    n += 1
                    ctx.analysed_fns.add(fid)
                    d = c["d"][0]
                    how = None
                    fw = fn.forward_locals([d])
                    for rc in rem_calls:
                        a0 = op_local(rc["a"][0]) if rc["a"] else None
                        if a0 is not None and (a0 in fw or d in fn.points_to(a0) or any(t in fw for t in fn.points_to(a0))):
                            how = "remainder()"
                    if how is None and c["a"]:
                        r = op_local(c["a"][0])
                        if r is not None:
                            locs, sites = fn.backslice([r], max_nodes=80)
                            if any(kd == "call" and pl["f"].rsplit("::", 1)[-1] in ("split_at", "split_at_mut", "as_chunks", "split_at_checked")
                                   for _, kd, pl in sites):
                                how = "split_at"
                    if how is None and len(c["a"]) >= 2:
                        size = c["a"][1]
                        ks, ls = op_const(size), op_local(size)
                        cls = set()
                        if ls is not None:
                            cls = fn.backslice([ls], max_nodes=20)[0] | {ls}
                        for loc, st in fn.iter_locs():
                            if st[0] == "a" and st[2][0] == "bin" and st[2][1] == "Rem":
                                y = st[2][3]
                                ky, ly = op_const(y), op_local(y)
                                same = (ks is not None and ky is not None and ks[0] == ky[0]) or \
                                       (ly is not None and (ly in cls or (ls is not None and ls in fn.backslice([ly], max_nodes=20)[0])))
                                if same:
                                    how = "len % n test"
                    ok = how is not None
                    ctx.obligation(rule, fid, "chunks_exact@%s tail handled" % c["ln"], ok,
                                   sample={"fn": fid, "line": c["ln"], "tail_handled_by": how})
                    if not ok:
                        ctx.violation(rule, fid, "chunks_exact tail ignored",
                                      "chunks_exact (line %s) drops the last len %% n elements and this function neither reads "
                                      "remainder(), nor iterates a split_at() prefix, nor tests len %% n: the tail elements are never "
                                      "looked at" % c["ln"], fn.file, c["ln"])
    ctx.instance(rule + ".sites", n)
    return n
