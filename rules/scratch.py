"""R-SCRATCH: a scratch vector kept in the object between calls is emptied before each use.

producer : a `&mut self` method that appends to a Vec field F of its struct and also copies the *whole* of F out
           (extend_from_slice(&self.F) / to_vec / clone / write_all): the bytes it hands out are "everything in F",
           so whatever an earlier call left in F is handed out again.
rule     : on every way into the producer F has been cleared since the previous use:
             - a clear()/truncate()/take of F inside the producer that dominates its appends, or
             - walking up the crate-local callers: at the call site a clear of F dominates the call and lies inside
               every loop that contains the call. A call site inside a loop without such a clear is reported (second
               iteration re-emits the first), as is a public entry point from which the producer is reached with
               no clear at all (second call on the same object re-emits the first).
This is a necessary condition of round-trip for an object that is used more than once; it says nothing about the bytes.
"""
import re

from vlib.mir import Fn, op_local, op_place
from rules.prune import natural_loops

APPEND = ("extend_from_slice", "push", "extend", "append", "write_all", "resize", "insert")
COPYOUT = ("extend_from_slice", "to_vec", "clone", "write_all", "copy_from_slice", "extend", "to_owned", "from")
CLEAR = ("clear", "truncate", "take", "drain")


def _direct_field(fn, l, pref, depth=0):
    """field of self the reference local l points at (`&mut (*self).F`, `&(*self).F`, deref of those), else None"""
    if l is None or depth > 4:
        return None
    for loc, kind, pl in fn.defs(l):
        if kind == "assign" and pl[2][0] in ("ref", "refmut", "raw"):
            p = pl[2][1] if pl[2][0] != "raw" else pl[2][2]
            if p and p[0] == 1:
                for e in p[1:]:
                    if isinstance(e, str) and e.startswith(pref):
                        return e[len(pref):]
            if p and len(p) >= 1 and p[0] != 1:
                r = _direct_field(fn, p[0], pref, depth + 1)
                if r:
                    return r
        elif kind == "assign" and pl[2][0] == "use":
            r = _direct_field(fn, op_local(pl[2][1]), pref, depth + 1)
            if r:
                return r
        elif kind == "call" and re.search(r"::deref(_mut)?$|::as_slice$|::as_mut_slice$|::as_ref$|::borrow$", pl["f"]) and pl["a"]:
            r = _direct_field(fn, op_local(pl["a"][0]), pref, depth + 1)
            if r:
                return r
    return None


def roles(fn, struct_path):
    """(appended {F: [blocks]}, copied {F: line}, cleared {F: [blocks]})"""
    pref = "." + struct_path + "::"
    app, cop, clr = {}, {}, {}
    copy_blocks = {}
    for b, c in fn.calls():
        last = c["f"].rsplit("::", 1)[-1]
        if not c["a"]:
            continue
        recv = _direct_field(fn, op_local(c["a"][0]), pref)
        if recv and last in CLEAR and ("Vec" in c["f"] or "mem::take" in c["f"]):
            clr.setdefault(recv, []).append(b)
        elif recv and last in APPEND and "Vec" in c["f"]:
            app.setdefault(recv, []).append(b)
        if last in COPYOUT:
            # the whole field read: as a non-receiver argument, or as the receiver of to_vec/clone
            args = c["a"][1:] if last in ("extend_from_slice", "write_all", "copy_from_slice", "extend") else c["a"][:1]
            for a in args:
                f = _direct_field(fn, op_local(a), pref)
                if not f:
                    continue
                if last in ("to_vec", "clone", "to_owned", "from"):
                    # the copy must leave the function: it reaches the return place
                    if not c["d"] or 0 not in fn.forward_locals([c["d"][0]]) | {c["d"][0]}:
                        continue
                elif f == recv:
                    continue
                cop[f] = c["ln"]
                copy_blocks.setdefault(f, []).append(b)
    # a buffer that is emptied right after it was handed on (flush idiom) re-emits nothing: every path from the
    # copy to a successful return passes a clear
    from rules.pair import err_blocks
    eb = err_blocks(fn)
    for f in list(cop):
        cb = clr.get(f, [])
        if cb and all(not any(x in fn.exits() for x in fn.reachable_from(fn.succ(b), avoid=list(cb) + list(eb)))
                      for b in copy_blocks[f]):
            del cop[f]
    return app, cop, clr


def run(ctx, fx, file, struct_path, rule="R-SCRATCH"):
    ids = [fid for fid in fx.fn_ids(file) if "::tests::" not in fid and "{closure" not in fid
           and (fx.raw(fid)["self_ty"] or "").split("<")[0].endswith(struct_path)]
    fns = {fid: Fn(fx.raw(fid)) for fid in ids}
    rl = {fid: roles(fns[fid], struct_path) for fid in ids}
    callers = {}
    for fid in ids:
        for b, c in fns[fid].calls():
            if c["f"] in fns:
                callers.setdefault(c["f"], []).append((fid, b, c["ln"]))
    n = 0
    for fid in ids:
        app, cop, clr = rl[fid]
        for F in sorted(set(app) & set(cop)):
            fn = fns[fid]
            n += 1
            ctx.analysed_fns.add(fid)
            loops = natural_loops(fn)
            inside = [b for b in clr.get(F, []) if all(fn.dominates(b, a) and b != a for a in app[F])
                      and not any(b in body and any(a in body for a in app[F]) for _, body in loops)]
            bad = None
            path = [fid]
            if not inside:
                bad = _up(fx, fns, rl, callers, fid, F, set(), path)
            ctx.obligation(rule, fid, "scratch field %s emptied before each use" % F, bad is None,
                           sample={"producer": fid, "field": F, "copied_out_line": cop[F], "cleared_in_producer": bool(inside),
                                   "callers_walked": path[1:6]})
            if bad:
                ctx.violation(rule, fid, "%s.%s not emptied: %s" % (struct_path.rsplit("::", 1)[-1], F, bad[0]),
                              "%s appends to self.%s and hands out the whole of it (line %d), but %s: what an earlier use left "
                              "in the buffer is emitted again in front of the new output" % (fid.rsplit("::", 1)[-1], F, cop[F], bad[1]),
                              fn.file, bad[2])
    ctx.instance(rule + ".producers", n)
    return n


def _up(fx, fns, rl, callers, fid, F, seen, path):
    """None if every way into fid clears F first, else (key, text, line)"""
    if fid in seen:
        return None
    seen.add(fid)
    rec = fx.raw(fid)
    cs = callers.get(fid, [])
    if rec["vis"] == "pub" or not cs:
        return ("reachable from %s without a clear" % fid.rsplit("::", 1)[-1],
                "the entry point %s reaches it without clearing the field" % fid.rsplit("::", 1)[-1], rec["line"])
    for h, b, ln in cs:
        hf = fns[h]
        path.append(h)
        loops = [body for _, body in natural_loops(hf) if b in body]
        clears = rl[h][2].get(F, [])
        if any(hf.dominates(c, b) and c != b and all(c in body for body in loops) for c in clears):
            continue
        if loops:
            return ("called in a loop of %s without a clear per iteration" % h.rsplit("::", 1)[-1],
                    "%s calls it (line %d) inside a loop that does not clear the field" % (h.rsplit("::", 1)[-1], ln), ln)
        r = _up(fx, fns, rl, callers, h, F, seen, path)
        if r:
            return r
    return None


# ------------------------------------------------------------------ R-FLUSHWHOLE
def partial_flush_then_clear(ctx, fx, files, rule="R-FLUSHWHOLE", only=None):
    """a write buffer that is emptied after a flush was flushed whole: where `write_all(&self.buf[..n])` (a range-indexed
    part of a Vec field) is followed on some path by `self.buf.clear()` / `truncate(0)`, the bytes from n on are thrown
    away. Accepted: writing the whole field, or removing exactly what was written (`drain(..n)`)."""
    n = 0
    for f in files:
        for fid in fx.fn_ids(f):
            if "::tests::" in fid or "{closure" in fid or (only and not only(fid)):
                continue
            rec = fx.raw(fid)
            st = (rec["self_ty"] or "").split("<")[0]
            if not st:
                continue
            pref = "." + st + "::"
            fn = Fn(rec)
            writes = []
            for b, c in fn.calls():
                if c["f"].rsplit("::", 1)[-1] not in ("write_all", "write") or len(c["a"]) < 2:
                    continue
                l = op_local(c["a"][1])
                if l is None:
                    continue
                # the data argument comes from a range index on a field
                for loc, kind, pl in fn.backslice([l], max_nodes=25)[1]:
                    if kind == "call" and pl["f"].rsplit("::", 1)[-1] == "index" and len(pl["a"]) > 1 and \
                            re.search(r"Range", fn.ty(op_local(pl["a"][1])) if op_local(pl["a"][1]) is not None else ""):
                        fld = _direct_field(fn, op_local(pl["a"][0]), pref)
                        if fld and "RangeFull" not in fn.ty(op_local(pl["a"][1])):
                            writes.append((b, c, fld))
            for b, c, fld in writes:
                n += 1
                ctx.analysed_fns.add(fid)
                reach = fn.reachable_from(fn.succ(b))
                bad = None
                for b2, c2 in fn.calls():
                    last = c2["f"].rsplit("::", 1)[-1]
                    if b2 in reach and last in ("clear", "truncate") and c2["a"] and _direct_field(fn, op_local(c2["a"][0]), pref) == fld:
                        bad = c2["ln"]
                ok = bad is None
                ctx.obligation(rule, fid, "partial flush of %s not followed by clear" % fld, ok, sample={"fn": fid, "line": c["ln"], "field": fld})
                if not ok:
                    ctx.violation(rule, fid, "part of %s written, all of it cleared" % fld,
                                  "%s writes a range-indexed part of self.%s (line %d) and then clears the whole buffer (line %d): the bytes "
                                  "beyond the written part never reach the file" % (fid.rsplit("::", 1)[-1], fld, c["ln"], bad), fn.file, bad)
    ctx.instance(rule + ".partial_writes", n)
    return n
