"""R-TAINT-S: a hash value that doubles as an occupancy marker must pass through a sanitiser
that excludes every sentinel before it is stored in, or compared with, the marker field.

sources    : results of Hasher::finish (and crate-local functions that return one unsanitised)
sinks      : stores into the marker field; ==/!= comparisons against a load of the marker field
sentinels  : the integer constants the marker field is compared with anywhere in the file
sanitiser  : a crate-local fn(u64)->u64 that compares its parameter with every sentinel, or an
             inline `| c` / max(c) (c != 0) plus comparison with the remaining sentinels
"""
from collections import defaultdict

from vlib.mir import Fn, op_local, op_place, op_const, rv_operands

MAXU64 = (1 << 64) - 1


def marker_loads(fn, field_key):
    """locals loaded from the marker field"""
    out = set()
    for loc, st in fn.iter_locs():
        if st[0] == "a" and st[2][0] == "use":
            p = op_place(st[2][1])
            if p and len(p) > 1 and p[-1] == "." + field_key and len(st[1]) == 1:
                out.add(st[1][0])
    return out


def discover_sentinels(fns, field_key):
    vals = set()
    for fn in fns:
        ml = marker_loads(fn, field_key)
        if not ml:
            continue
        for loc, st in fn.iter_locs():
            if st[0] == "a" and st[2][0] == "bin" and st[2][1] in ("Eq", "Ne"):
                a, b = st[2][2], st[2][3]
                for x, y in ((a, b), (b, a)):
                    c = op_const(y)
                    if c is not None and isinstance(c[0], int) and op_local(x) in ml:
                        vals.add(c[0])
            # switch directly on the loaded value
        for b in fn.blocks():
            t = fn.term(b)
            if t[0] == "sw" and op_local(t[1]) in ml:
                for v, _ in t[2]:
                    vals.add(int(v))
    return vals


def is_sanitizer(fn, sentinels):
    """fn(u64)->u64 whose parameter is compared against every sentinel"""
    if fn.nargs != 1 or fn.ty(1) != "u64" or fn.ty(0) != "u64":
        return False
    seen = set()
    for loc, st in fn.iter_locs():
        if st[0] == "a" and st[2][0] == "bin" and st[2][1] in ("Eq", "Ne"):
            for x, y in ((st[2][2], st[2][3]), (st[2][3], st[2][2])):
                c = op_const(y)
                if c is not None and op_local(x) is not None and 1 in fn.backslice([op_local(x)])[0]:
                    seen.add(c[0])
    for b in fn.blocks():
        t = fn.term(b)
        if t[0] == "sw":
            l = op_local(t[1])
            if l is not None and 1 in fn.backslice([l])[0]:
                for v, _ in t[2]:
                    seen.add(int(v))
    return sentinels <= seen and bool(sentinels)


def run(ctx, fx, file, field_key, rule="R-TAINT-S"):
    fns = [Fn(fx.raw(fid)) for fid in fx.fn_ids(file) if "::tests::" not in fid]
    byid = {f.id: f for f in fns}
    sentinels = discover_sentinels(fns, field_key)
    ctx.extra["sentinels_" + field_key.rsplit("::", 1)[-1]] = sorted(sentinels)
    sanitizers = {f.id for f in fns if is_sanitizer(f, sentinels)}
    ctx.extra["sanitizers"] = sorted(sanitizers)
    # interprocedural: unsanitised params and returns
    unsan_params = defaultdict(set)
    unsan_ret = set()
    results = {}
    changed = True
    rounds = 0
    while changed and rounds < 8:
        changed = False
        rounds += 1
        for fn in fns:
            U = set(unsan_params.get(fn.id, ()))
            # seeds
            for b, c in fn.calls():
                f = c["f"]
                if f.endswith("Hasher::finish") or (c.get("st", "").endswith("Hasher::finish")) or f in unsan_ret:
                    U.add(c["d"][0])
            # propagate forward, stopping at sanitisers
            def thru(c):
                return c["f"] not in sanitizers and not c["f"].rsplit("::", 1)[-1] in ("len", "is_empty")
            U = fn.forward_locals(U, call_through=thru) if U else set()
            # forward_locals treats sanitiser results as not derived: remove their dests explicitly
            results[fn.id] = U
            if 0 in U and fn.id not in unsan_ret and fn.ty(0) == "u64":
                unsan_ret.add(fn.id)
                changed = True
            for b, c in fn.calls():
                if c["loc"] and c["f"] in byid and c["f"] not in sanitizers:
                    for i, a in enumerate(c["a"]):
                        l = op_local(a)
                        if l is not None and l in U and byid[c["f"]].ty(i + 1) == "u64":
                            if (i + 1) not in unsan_params[c["f"]]:
                                unsan_params[c["f"]].add(i + 1)
                                changed = True
    nsinks = 0
    nsrc = 0
    for fn in fns:
        U = results.get(fn.id, set())
        nsrc += sum(1 for b, c in fn.calls() if c["f"].endswith("Hasher::finish") or c.get("st", "").endswith("Hasher::finish"))
        ml = marker_loads(fn, field_key)
        for loc, st in fn.iter_locs():
            if st[0] != "a":
                continue
            dst, rv = st[1], st[2]
            # store into the marker field
            if len(dst) > 1 and dst[-1] == "." + field_key:
                ops = rv_operands(rv)
                ls = [op_local(o) for o in ops if op_local(o) is not None]
                if any(op_const(o) is not None for o in ops) and not ls:
                    continue
                nsinks += 1
                bad = any(l in U for l in ls)
                ctx.obligation(rule, fn.id, "store marker", not bad,
                               sample={"fn": fn.id, "sink": "store into " + field_key, "line": st[3], "sanitised": not bad})
                if bad:
                    ctx.violation(rule, fn.id, "store of raw hash into " + field_key.rsplit("::", 2)[-2] + "." + field_key.rsplit("::", 1)[-1],
                                  "a hash straight from Hasher::finish is stored in the occupancy marker %s; a hasher that "
                                  "returns %s makes the entry look empty/deleted" % (field_key, sorted(sentinels)),
                                  fn.file, st[3])
            # aggregate construction of the entry with the marker field
            if rv[0] == "agg" and isinstance(rv[1], str) and rv[1].startswith("adt:") and \
                    rv[1][4:].rsplit("::", 1)[0] == field_key.rsplit("::", 1)[0] and field_key.rsplit("::", 1)[1] in rv[3]:
                o = rv[2][rv[3].index(field_key.rsplit("::", 1)[1])]
                l = op_local(o)
                if l is not None:
                    nsinks += 1
                    bad = l in U
                    ctx.obligation(rule, fn.id, "construct marker", not bad)
                    if bad:
                        ctx.violation(rule, fn.id, "entry built with raw hash",
                                      "entry constructed with an unsanitised hash in %s" % field_key, fn.file, st[3])
            if rv[0] == "bin" and rv[1] in ("Eq", "Ne"):
                a, b = op_local(rv[2]), op_local(rv[3])
                for x, y in ((a, b), (b, a)):
                    if x is not None and y is not None and x in ml and y in U:
                        nsinks += 1
                        ctx.obligation(rule, fn.id, "compare marker", False,
                                       sample={"fn": fn.id, "sink": "compare with " + field_key, "line": st[3]})
                        ctx.violation(rule, fn.id, "raw hash compared with " + field_key.rsplit("::", 1)[-1],
                                      "an unsanitised hash is compared with the occupancy marker %s" % field_key,
                                      fn.file, st[3])
                    elif x is not None and y is not None and x in ml and fn.ty(y) == "u64" and y not in ml:
                        nsinks += 1
                        ctx.obligation(rule, fn.id, "compare marker", True)
    ctx.instance(rule + ".sources", nsrc)
    ctx.instance(rule + ".sinks", nsinks)
    ctx.instance(rule + ".sentinels", len(sentinels))
    return sentinels, sanitizers


def completeness(ctx, fx, file, field_key, sentinels, name_rx=r"Iterator>::next$|::iter$|::keys$|::values$|::drain$|::retain$",
                 rule="R-TAINT-S.complete"):
    """enumeration code that inspects the occupancy marker must exclude EVERY sentinel: a function that
    yields entries and compares the marker with only some of the sentinels also yields deleted/empty slots"""
    import re
    rx = re.compile(name_rx)
    n = 0
    for fid in fx.fn_ids(file):
        if "::tests::" in fid or not rx.search(fid):
            continue
        fn = Fn(fx.raw(fid))
        seen = discover_sentinels([fn], field_key)
        if not seen:
            continue
        n += 1
        missing = sorted(sentinels - seen)
        ok = not missing
        ctx.obligation(rule, fid, "excludes all sentinels", ok,
                       sample={"fn": fid, "compares_marker_with": sorted(seen), "sentinels": sorted(sentinels)})
        if not ok:
            ctx.violation(rule, fid, "marker not compared with %s" % missing,
                          "this enumeration checks %s only against %s; slots marked %s (deleted/empty) are yielded as live entries"
                          % (field_key.rsplit("::", 2)[-2] + "." + field_key.rsplit("::", 1)[-1], sorted(seen), missing),
                          fn.file, fn.line)
    ctx.instance(rule + ".enumerators", n)
    return n


def tombstone_value(fns, field_key, sentinels):
    """the sentinel that removal code stores into the marker field as a constant"""
    from vlib.mir import op_const as _oc
    for fn in fns:
        if not fn.id.rsplit("::", 1)[-1].startswith("remove"):
            continue
        for loc, st in fn.iter_locs():
            if st[0] == "a" and len(st[1]) > 1 and st[1][-1] == "." + field_key and st[2][0] == "use":
                c = _oc(st[2][1])
                if c is not None and c[0] in sentinels:
                    return c[0]
    return None


def probe_past_tombstones(ctx, fx, file, field_key, sentinels, name_rx=r"::insert", rule="R-PROBE"):
    """open addressing: an insertion probe may not settle on a deleted slot while the rest of the probe path is
    unsearched. From the edge taken when the slot marker equals the tombstone value, no store into the marker
    field is reachable within the same loop iteration unless the path first takes the 'marker == empty' edge
    (which proves the key is absent)."""
    import re
    rx = re.compile(name_rx)
    fns = [Fn(fx.raw(fid)) for fid in fx.fn_ids(file) if "::tests::" not in fid and "{closure" not in fid]
    tomb = tombstone_value(fns, field_key, sentinels)
    ctx.extra["tombstone_value"] = tomb
    if tomb is None:
        return 0
    empties = set(sentinels) - {tomb}
    n = 0
    for fn in fns:
        if not rx.search(fn.id):
            continue
        ml = marker_loads(fn, field_key)
        if not ml:
            continue
        order = {b: i for i, b in enumerate(fn.rpo())}
        # edges (switch block -> target) for marker == v, per sentinel v
        edges = defaultdict(set)
        for loc, st in fn.iter_locs():
            if st[0] == "a" and st[2][0] == "bin" and st[2][1] in ("Eq", "Ne") and len(st[1]) == 1:
                for x, y in ((st[2][2], st[2][3]), (st[2][3], st[2][2])):
                    c = op_const(y)
                    if c is None or c[0] not in sentinels or op_local(x) not in ml:
                        continue
                    want = 1 if st[2][1] == "Eq" else 0
                    for sb in fn.blocks():
                        t = fn.term(sb)
                        if t[0] == "sw" and op_local(t[1]) == st[1][0]:
                            ev = fn.switch_edge_values(sb)
                            explicit = [int(v) for v, _ in t[2]]
                            for tgt, vals in ev.items():
                                if want in vals or ("otherwise" in vals and want not in explicit):
                                    edges[c[0]].add((sb, tgt))
        for sb in fn.blocks():
            t = fn.term(sb)
            if t[0] == "sw" and op_local(t[1]) in ml:
                for v, tgt in t[2]:
                    if int(v) in sentinels:
                        edges[int(v)].add((sb, tgt))
        if not edges.get(tomb):
            continue
        n += 1
        ctx.analysed_fns.add(fn.id)
        cut = set()
        for e in empties:
            cut |= edges.get(e, set())
        bad = None
        for sb, tgt in sorted(edges[tomb]):
            seen = {tgt}
            work = [tgt]
            while work and bad is None:
                b = work.pop()
                for st in fn.stmts(b):
                    if st[0] == "a" and len(st[1]) > 1 and st[1][-1] == "." + field_key:
                        bad = (b, st[3])
                        break
                for s in fn.succ(b):
                    if (b, s) in cut or s in seen or order.get(s, 0) <= order.get(b, 0):
                        continue            # empty-slot edge, visited, or back edge (next iteration)
                    if fn.term(b)[0] == "call" and s == fn.term(b)[1].get("u"):
                        continue
                    seen.add(s)
                    work.append(s)
        ok = bad is None
        ctx.obligation(rule, fn.id, "tombstone arm keeps probing", ok,
                       sample={"fn": fn.id, "tombstone": tomb, "empty": sorted(empties), "tombstone_edges": len(edges[tomb])})
        if not ok:
            ctx.violation(rule, fn.id, "insert settles on a deleted slot",
                          "the slot marker %s is written (line %s) on a path that starts at the 'marker == %d (deleted)' edge and "
                          "never passes 'marker == empty' in the same probe step: a key stored further along the probe path "
                          "gets a second copy" % (field_key, bad[1], tomb), fn.file, bad[1])
    ctx.instance(rule + ".probes", n)
    return n


def index_reduction_agreement(ctx, fx, file, field_key, hash_fn_rx=r"::hash_key$|::normalize_hash$", rule="R-SIBLING.index",
                              only=None):
    """every function that turns a hash into a slot index must reduce it the same way (`& mask` or `% len`):
    insert/get/get_mut/remove/resize that disagree look in different slots for the same key."""
    import re
    hrx = re.compile(hash_fn_rx)
    kinds = defaultdict(list)       # op -> [(fn id, line)]
    for fid in fx.fn_ids(file):
        if "::tests::" in fid or "{closure" in fid or (only and not only(fid)):
            continue
        fn = Fn(fx.raw(fid))
        src = set()
        for i in range(1, fn.nargs + 1):
            if fn.names.get(i) == "hash" and fn.ty(i) == "u64":
                src.add(i)
        for b, c in fn.calls():
            if hrx.search(c["f"]) and fn.ty(c["d"][0]) == "u64":
                src.add(c["d"][0])
        src |= marker_loads(fn, field_key)
        for l in range(fn.nargs + 1, len(fn.locals)):
            if fn.names.get(l) == "hash" and fn.ty(l) == "u64":
                src.add(l)
        if not src:
            continue
        # close over moves/copies/casts
        der = set(src)
        changed = True
        while changed:
            changed = False
            for loc, st in fn.iter_locs():
                if st[0] == "a" and len(st[1]) == 1 and st[1][0] not in der:
                    rv = st[2]
                    o = rv[1] if rv[0] == "use" else (rv[2] if rv[0] == "cast" else None)
                    if o is not None and op_local(o) in der and len(op_place(o) or [0]) == 1:
                        der.add(st[1][0])
                        changed = True
        for loc, st in fn.iter_locs():
            if st[0] == "a" and st[2][0] == "bin" and st[2][1] in ("BitAnd", "Rem"):
                a, b = st[2][2], st[2][3]
                if op_local(a) in der and fn.ty(op_local(a)) == "usize" and op_const(b) is None:
                    kinds[st[2][1]].append((fid, st[3]))
    total = sum(len(v) for v in kinds.values())
    if not total:
        return 0
    major = max(kinds, key=lambda k: len(kinds[k]))
    for op, sites in kinds.items():
        for fid, line in sites:
            ok = op == major
            ctx.obligation(rule, fid, "hash reduced with %s" % op, ok,
                           sample={"fn": fid, "op": op, "line": line, "majority": major})
            if not ok:
                ctx.violation(rule, fid, "hash reduced with %s" % op,
                              "this function maps a hash to a slot with %s while %d sibling sites (%s) use %s: for any table "
                              "length where the two differ the same key is looked for in different slots"
                              % (op, len(kinds[major]), ", ".join(sorted({f.rsplit("::", 1)[-1] for f, _ in kinds[major]}))[:120], major),
                              file, line)
    ctx.instance(rule + ".sites", total)
    return total
