"""R-SHRINK: a container whose consumers rely on "storage beyond len is zero/cleared" must clear what it vacates.

For the struct's shrinking methods (pop / resize / truncate / clear / remove* / shrink*), every function that stores
to the length field must also write the storage field: an indexed store (`blocks[i] &= mask`), or a reshaping Vec call
(clear / truncate / resize / fill) whose receiver derives from the storage field. A method that only lowers the length
leaves the old bits behind it, and whole-word popcounts (rank/select builders) count them.
"""
import re

from vlib.mir import Fn, op_local
from rules.queue import field_of_receiver

STORAGE_CALLS = ("clear", "truncate", "resize", "fill", "index_mut", "resize_with", "set_len", "pop")


def run(ctx, fx, file, struct_path, len_field, storage_field, name_rx=r"::(pop|resize|truncate|clear|remove\w*|shrink\w*)$",
        rule="R-SHRINK"):
    rx = re.compile(name_rx)
    n = 0
    for fid in fx.fn_ids(file):
        if "::tests::" in fid or "{closure" in fid or not rx.search(fid):
            continue
        rec = fx.raw(fid)
        if not (rec["self_ty"] or "").split("<")[0].endswith(struct_path):
            continue
        fn = Fn(rec)
        lenw = [st[3] for (b, i), st in fn.iter_locs()
                if st[0] == "a" and len(st[1]) > 1 and st[1][-1] == ".%s::%s" % (struct_path, len_field)]
        if not lenw:
            continue
        n += 1
        ctx.analysed_fns.add(fid)
        writes = []
        for (b, i), st in fn.iter_locs():
            if st[0] == "a" and len(st[1]) > 1:
                if ".%s::%s" % (struct_path, storage_field) in st[1][1:]:
                    writes.append(("store", st[3]))
                elif "*" in st[1][1:] or any(isinstance(e, str) and e.startswith("[") for e in st[1][1:]):
                    if storage_field in field_of_receiver(fn, st[1][0], struct_path):
                        writes.append(("store through reference", st[3]))
        for b, c in fn.calls():
            last = c["f"].rsplit("::", 1)[-1]
            if last in STORAGE_CALLS and c["a"] and op_local(c["a"][0]) is not None and last != "index_mut":
                if storage_field in field_of_receiver(fn, op_local(c["a"][0]), struct_path):
                    writes.append((last, c["ln"]))
        ok = bool(writes)
        ctx.obligation(rule, fid, "vacated storage cleared", ok,
                       sample={"fn": fid, "len_stores": lenw[:2], "storage_writes": writes[:3]})
        if not ok:
            ctx.violation(rule, fid, "%s lowered without clearing %s" % (len_field, storage_field),
                          "%s stores to %s (line %s) but never writes %s: the vacated bits stay set behind the new length and "
                          "are counted by consumers that popcount whole words" % (fid.rsplit("::", 1)[-1], len_field, lenw[0], storage_field),
                          fn.file, lenw[0])
    ctx.instance(rule + ".methods", n)
    return n


# ------------------------------------------------------------------ R-EMPTYRANGE
def _copies(fn, l):
    """locals equal to l through plain copies/moves (both directions, single-def locals only)"""
    from vlib.mir import op_place
    cls = {l}
    changed = True
    while changed:
        changed = False
        for loc, st in fn.iter_locs():
            if st[0] == "a" and len(st[1]) == 1 and st[2][0] == "use":
                p = op_place(st[2][1])
                if p and len(p) == 1:
                    a, b = st[1][0], p[0]
                    if (a in cls) != (b in cls) and len(fn.defs(a)) == 1:
                        cls |= {a, b}
                        changed = True
    return cls


def empty_range(ctx, fx, files, rule="R-EMPTYRANGE"):
    """`for i in a..self.f` where the nearest dominating store to `self.f` wrote `a` itself: the loop body (typically
    the destructors of the elements being removed) never runs."""
    from vlib.mir import op_place, op_local
    n = 0
    for f in files:
        for fid in fx.fn_ids(f):
            if "::tests::" in fid:
                continue
            fn = Fn(fx.raw(fid))
            for (b, i), st in fn.iter_locs():
                if st[0] != "a" or st[2][0] != "agg" or not isinstance(st[2][1], str) or not st[2][1].endswith("ops::Range::Range"):
                    continue
                if len(st[2][2]) != 2:
                    continue
                s_l, e_l = op_local(st[2][2][0]), op_local(st[2][2][1])
                if s_l is None or e_l is None:
                    continue
                eds = fn.defs(e_l)
                if len(eds) != 1 or eds[0][1] != "assign" or eds[0][2][2][0] != "use":
                    continue
                ep = op_place(eds[0][2][2][1])
                if not ep or len(ep) < 2 or not isinstance(ep[-1], str) or "::" not in ep[-1]:
                    continue
                n += 1
                ctx.analysed_fns.add(fid)
                field = ep[-1]
                lb, li = eds[0][0]
                stores = []
                for (sb, si), s2 in fn.iter_locs():
                    if s2[0] == "a" and len(s2[1]) >= 2 and s2[1][-1] == field and s2[1][0] == ep[0]:
                        before = (sb == lb and si < li) or (sb != lb and fn.dominates(sb, lb))
                        if before:
                            stores.append(((sb, si), s2))
                bad = None
                if stores:
                    # nearest dominating store: the one dominated by all the others
                    def later(x, y):
                        (xb, xi), (yb, yi) = x[0], y[0]
                        return (xb == yb and xi > yi) or (xb != yb and fn.dominates(yb, xb))
                    last = stores[0]
                    for s3 in stores[1:]:
                        if later(s3, last):
                            last = s3
                    rv = last[1][2]
                    if rv[0] == "use" and op_local(rv[1]) is not None and op_local(rv[1]) in _copies(fn, s_l):
                        bad = last[1][3]
                ctx.obligation(rule, fid, "range@%s not empty by construction" % st[3], bad is None,
                               sample={"fn": fid, "line": st[3], "end_field": field.rsplit("::", 1)[-1]})
                if bad is not None:
                    ctx.violation(rule, fid, "range ends at a field just set to its start",
                                  "the range built at line %s runs from a value to %s, but %s was assigned that very value at line "
                                  "%s: the loop never executes (elements that should be dropped/visited are skipped)"
                                  % (st[3], field.rsplit("::", 1)[-1], field.rsplit("::", 1)[-1], bad), fn.file, st[3])
    ctx.instance(rule + ".ranges", n)
    return n


# ------------------------------------------------------------------ R-PANICSAFE.len
def len_committed_per_item(ctx, fx, files, rule="R-PANICSAFE.len", only=None):
    """a loop that pulls items from a caller-supplied iterator (`Iterator::next` on a generic type: arbitrary user code
    that may panic) and writes them into raw storage keeps the container's length in step: a store to the `len` field
    lies inside the loop. With `len` committed once after the loop, a panic in the iterator leaves the elements already
    moved in outside 0..len - they are neither visible nor dropped."""
    import re as _re
    from rules.prune import natural_loops
    n = 0
    for f in files:
        for fid in fx.fn_ids(f):
            if "::tests::" in fid or "{closure" in fid or (only and not only(fid)):
                continue
            fn = Fn(fx.raw(fid))
            for h, body in natural_loops(fn):
                nxt = [c for b, c in fn.calls() if b in body and c["f"].endswith("Iterator::next")]
                wr = [c for b, c in fn.calls() if b in body and _re.search(r"ptr::write$|::write$|write_unaligned$", c["f"])]
                if not (nxt and wr):
                    continue
                n += 1
                ctx.analysed_fns.add(fid)
                stores = [st[3] for (b, i), st in fn.iter_locs() if b in body and st[0] == "a" and len(st[1]) > 1
                          and isinstance(st[1][-1], str) and _re.search(r"::(len|length|size|count)$", st[1][-1])]
                # a guard object that fixes the length on drop (SetLenOnDrop) is the other accepted form
                guard = any(_re.search(r"SetLenOnDrop|LenGuard|set_len", c["f"]) for b, c in fn.calls() if b in body)
                ok = bool(stores) or guard
                ctx.obligation(rule, fid, "length kept in step with raw writes", ok,
                               sample={"fn": fid, "next_line": nxt[0]["ln"], "write_line": wr[0]["ln"], "len_stores_in_loop": stores[:2]})
                if not ok:
                    ctx.violation(rule, fid, "length committed after the loop",
                                  "%s moves items from a caller-supplied iterator into raw storage (line %d) but stores the length only "
                                  "after the loop: if the iterator panics, the items already written are outside 0..len, invisible and "
                                  "never dropped" % (fid.rsplit("::", 1)[-1], wr[0]["ln"]), fn.file, wr[0]["ln"])
    ctx.instance(rule + ".loops", n)
    return n


# ------------------------------------------------------------------ R-RAWWORDS
def _masks_tail(fn):
    """does the function clear bits of a stored word: `(*elem) = (*elem) & mask` / `elem &= mask`"""
    for loc, st in fn.iter_locs():
        if st[0] == "a" and "*" in st[1][1:] and st[2][0] == "bin" and st[2][1] == "BitAnd":
            return True
    return False


def raw_words_masked(ctx, fx, files, rule="R-RAWWORDS", only=None):
    """A public constructor that receives raw 64-bit words by value together with a bit count does not hand the word vector on
    (to a callee or into the value it builds) unless it, or the receiving callee, clears bits of a stored word: the rank / select
    builders popcount whole words and rely on "bits beyond the length are zero". Reading the words one by one is always fine."""
    n = 0
    for f in files:
        for fid in fx.fn_ids(f):
            if "::tests::" in fid or "{closure" in fid or (only and not only(fid)):
                continue
            rec = fx.raw(fid)
            if rec.get("vis") != "pub":
                continue
            fn = Fn(rec)
            words = [i for i in range(1, fn.nargs + 1) if fn.ty(i).replace(" ", "").startswith("std::vec::Vec<u64")]
            if not words or not any(fn.ty(i) == "usize" for i in range(1, fn.nargs + 1)):
                continue
            n += 1
            ctx.analysed_fns.add(fid)
            own = set(words)
            # by-value rebinding (`mut words`) keeps ownership
            grew = True
            while grew:
                grew = False
                for loc, st in fn.iter_locs():
                    if st[0] == "a" and len(st[1]) == 1 and st[2][0] == "use" and st[2][1][0] == "m" and \
                            st[2][1][1] == [st[2][1][1][0]] and st[2][1][1][0] in own and st[1][0] not in own:
                        own.add(st[1][0])
                        grew = True
            handed = []
            for b, c in fn.calls():
                if any(a[0] == "m" and a[1] == [a[1][0]] and a[1][0] in own for a in c["a"]):
                    if c["f"].endswith("::drop") or "IntoIterator" in c["f"] or c["f"].endswith("::into_iter"):
                        continue
                    ok = bool(c.get("loc")) and fx.has(c["f"]) and _masks_tail(Fn(fx.raw(c["f"])))
                    handed.append((c["f"], c["ln"], ok))
            for loc, st in fn.iter_locs():
                if st[0] == "a" and st[2][0] == "agg" and any(o[0] == "m" and o[1] == [o[1][0]] and o[1][0] in own for o in st[2][2]):
                    handed.append(("the constructed value", st[3], False))
            bad = [h for h in handed if not h[2]] if not _masks_tail(fn) else []
            ctx.obligation(rule, fid, "raw words handed on only behind a tail mask", not bad,
                           sample={"fn": fid, "handed_to": [h[0].rsplit("::", 1)[-1] for h in handed], "masks_itself": _masks_tail(fn)})
            if bad:
                ctx.violation(rule, fid, "raw words handed on unmasked",
                              "%s moves the caller's word vector into %s (line %s) and neither function clears bits of a stored word: set "
                              "bits above the stated length are counted by the popcount-based rank / select index" %
                              (fid.rsplit("::", 1)[-1], bad[0][0].rsplit("::", 1)[-1], bad[0][1]), fn.file, bad[0][1])
    ctx.instance(rule + ".constructors", n)
    return n
