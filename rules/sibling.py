"""R-SIBLING.fallback: an encoder and its decoder choose between the multi-stream layout and the single-stream
fallback by the same test.

For every function that calls a crate-local `*_single` helper on one side of a branch, the deciding comparison is
normalised to the form `lhs OP rhs => single` (operands classified as length / constant / other). Functions are paired
by file and by their name with the encode/decode (compress/decompress) prefix removed; the two sides of a pair must
have the same normalised condition. `len < N` on one side and `len <= N` on the other means that inputs of exactly N
symbols are written in one layout and read in the other.
"""
import re

from vlib.mir import Fn, op_local, op_const, op_place

ROLE = re.compile(r"^(encode|compress|decode|decompress)_?(.*)$")
NEG = {"Lt": "Ge", "Le": "Gt", "Gt": "Le", "Ge": "Lt", "Eq": "Ne", "Ne": "Eq"}


def _classify(fn, o):
    k = op_const(o)
    if k is not None:
        return "const:%s" % (k[0],)
    l = op_local(o)
    for _ in range(6):
        ds = fn.defs(l) if l is not None else []
        if 1 <= (l or 0) <= fn.nargs:
            return "param"
        if len(ds) != 1:
            return "other"
        d = ds[0]
        if d[1] == "call":
            return "len" if d[2]["f"].rsplit("::", 1)[-1] == "len" else "call:" + d[2]["f"].rsplit("::", 1)[-1]
        if d[1] == "assign":
            rv = d[2][2]
            if rv[0] == "use":
                kk = op_const(rv[1])
                if kk is not None:
                    return "const:%s" % (kk[0],)
                p = op_place(rv[1])
                if p and len(p) == 1:
                    l = p[0]
                    continue
                return "field:" + str(p[-1]).rsplit("::", 1)[-1] if p else "other"
            if rv[0] == "cast":
                l = op_local(rv[2])
                continue
            return "expr:" + rv[0] + (":" + rv[1] if rv[0] == "bin" else "")
        return "other"
    return "other"


def fallback_condition(fn, callee_rx=r"_single$"):
    rx = re.compile(callee_rx)
    for b, c in fn.calls():
        if not c["loc"] or not rx.search(c["f"]):
            continue
        # climb single-predecessor chain to the deciding switch
        x = b
        for _ in range(6):
            ps = fn.pred(x)
            if len(ps) != 1:
                break
            p = ps[0]
            t = fn.term(p)
            if t[0] == "sw":
                cl = op_local(t[1])
                ds = fn.defs(cl) if cl is not None else []
                if len(ds) == 1 and ds[0][1] == "assign" and ds[0][2][2][0] == "bin" and ds[0][2][2][1] in NEG:
                    rv = ds[0][2][2]
                    ev = fn.switch_edge_values(p)
                    vals = ev.get(x, set())
                    explicit = [int(v) for v, _ in t[2]]
                    taken_true = 1 in vals or ("otherwise" in vals and 0 in explicit and 1 not in explicit)
                    op = rv[1] if taken_true else NEG[rv[1]]
                    a, bb = _classify(fn, rv[2]), _classify(fn, rv[3])
                    # orient: length/param on the left
                    if a.startswith("const") and not bb.startswith("const"):
                        a, bb = bb, a
                        op = {"Lt": "Gt", "Le": "Ge", "Gt": "Lt", "Ge": "Le"}.get(op, op)
                    if a == "param":
                        a = "len"
                    return (a, op, bb), c["ln"]
                break
            x = p
    return None


def run(ctx, fx, files, rule="R-SIBLING.fallback", only=None):
    groups = {}
    for f in files:
        for fid in fx.fn_ids(f):
            if "::tests::" in fid or "{closure" in fid or (only and not only(fid)):
                continue
            last = fid.rsplit("::", 1)[-1]
            m = ROLE.match(last)
            if not m:
                continue
            fn = Fn(fx.raw(fid))
            r = fallback_condition(fn)
            if r is None:
                continue
            role = "w" if m.group(1) in ("encode", "compress") else "r"
            groups.setdefault((f, m.group(2)), {}).setdefault(role, []).append((fid, r, fn))
    n = 0
    for (f, stem), sides in sorted(groups.items()):
        if "w" not in sides or "r" not in sides:
            continue
        for wf, (wc, wl), wfn in sides["w"]:
            for rf, (rc, rl), rfn in sides["r"]:
                n += 1
                ctx.analysed_fns.update([wf, rf])
                ok = wc == rc
                ctx.obligation(rule, wf, "%s fallback test" % (stem or "-"), ok,
                               sample={"writer": wf, "reader": rf, "writer_test": " ".join(wc), "reader_test": " ".join(rc)})
                if not ok:
                    ctx.violation(rule, rf, "fallback test differs from %s" % wf.rsplit("::", 1)[-1],
                                  "%s takes the single-stream path when `%s` (line %s) but %s when `%s` (line %s): inputs on "
                                  "the boundary are written in one layout and read in the other"
                                  % (wf.rsplit("::", 1)[-1], " ".join(wc), wl, rf.rsplit("::", 1)[-1], " ".join(rc), rl),
                                  rfn.file, rl)
    ctx.instance(rule + ".pairs", n)
    return n


# ------------------------------------------------------------------ R-SIBLING.batch
def _mutated_fields(fx, fn, struct_path, depth=0, seen=None):
    """fields of `struct_path` that fn may mutate: assignments through self, calls whose receiver is a `&mut` borrow (or a
    lock guard) of the field, and - two levels deep - the same for methods of the struct that fn calls"""
    from rules.queue import field_of_receiver
    seen = seen if seen is not None else set()
    out = set()
    if fn.id in seen:
        return out
    seen.add(fn.id)
    pref = "." + struct_path + "::"
    for loc, st in fn.iter_locs():
        if st[0] == "a" and len(st[1]) > 1:
            for e in st[1][1:]:
                if isinstance(e, str) and e.startswith(pref):
                    out.add(e[len(pref):])
                    break
    for b, c in fn.calls():
        if not c["a"]:
            continue
        l = op_local(c["a"][0])
        if l is None:
            continue
        ty = fn.ty(l)
        last = c["f"].rsplit("::", 1)[-1]
        if c.get("loc") and fx.has(c["f"]) and depth < 2:
            rec = fx.raw(c["f"])
            if (rec["self_ty"] or "").split("<")[0].endswith(struct_path.split("<")[0]) or c["f"].startswith("<" + struct_path):
                out |= _mutated_fields(fx, Fn(rec), struct_path, depth + 1, seen)
                continue
        if ty.startswith("&mut ") or "Guard<" in ty or last in ("lock", "write", "borrow_mut", "get_mut", "entry"):
            if last in ("len", "is_empty", "get", "contains", "contains_key", "iter", "capacity", "clone", "as_ref", "deref"):
                continue
            out |= field_of_receiver(fn, l, struct_path)
    return out


def batch_effects(ctx, fx, files, pairs=(("remove", "remove_batch"), ("put", "put_batch")), rule="R-SIBLING.batch"):
    """a batch operation does to the store's state at least what the single-item operation does: every field that
    `remove` may mutate (the storage map, a cache, counters) is also mutated by `remove_batch`, directly or by
    calling `remove`. A batch path that forgets the cache keeps serving records that were removed."""
    n = 0
    ids = set(fx.fn_ids())
    for f in files:
        for fid in fx.fn_ids(f):
            if "::tests::" in fid or "{closure" in fid:
                continue
            for single, batch in pairs:
                if not fid.endswith("::" + single):
                    continue
                rec = fx.raw(fid)
                st = (rec["self_ty"] or "").split("<")[0]
                if not st:
                    continue
                # the batch sibling: same impl, or the BatchBlobStore impl of the same type
                cands = [i for i in ids if i.endswith("::" + batch) and (fx.raw(i)["self_ty"] or "").split("<")[0] == st
                         and "::tests::" not in i]
                for bid in cands:
                    sfn, bfn = Fn(rec), Fn(fx.raw(bid))
                    ms = {x for x in _mutated_fields(fx, sfn, st) if not re.search(r"stats|metrics|counters?$", x)}
                    mb = _mutated_fields(fx, bfn, st)
                    # a batch path that simply loops over the single-item operation inherits all of its effects
                    if any(c["f"] == fid for _, c in bfn.calls()):
                        mb = mb | ms
                    if not ms:
                        continue
                    n += 1
                    ctx.analysed_fns.update([fid, bid])
                    missing = sorted(ms - mb)
                    ok = not missing
                    ctx.obligation(rule, bid, "%s covers %s" % (batch, single), ok,
                                   sample={"single": fid, "batch": bid, "single_mutates": sorted(ms), "batch_mutates": sorted(mb)})
                    if not ok:
                        ctx.violation(rule, bid, "%s leaves %s untouched" % (batch, missing),
                                      "%s mutates %s but %s only mutates %s: state that the single-item path updates (%s) keeps its "
                                      "old contents on the batch path" % (single, sorted(ms), batch, sorted(mb), ", ".join(missing)),
                                      bfn.file, bfn.line)
    ctx.instance(rule + ".pairs", n)
    return n


# ------------------------------------------------------------------ R-DELEGATE
DELEGATED = ("get", "size", "contains", "len", "remove", "put", "is_empty", "flush")


def wrapper_delegation(ctx, fx, trait_suffix="blob_store::traits::BlobStore", inner_field="inner", rule="R-DELEGATE"):
    """a wrapper store (a struct with a field `inner`) answers every BlobStore query from the store it wraps: each of
    get/size/contains/len/remove/put/is_empty/flush reaches a call whose receiver is `self.inner` (directly or through one
    private method of the wrapper). A wrapper that answers `contains`/`size` from bookkeeping of its own disagrees with
    `get` for records that were in the inner store before it was wrapped."""
    from rules.queue import field_of_receiver
    n = 0

    def touches_inner(fn, st, depth=0):
        for b, c in fn.calls():
            if c["a"] and op_local(c["a"][0]) is not None and inner_field in field_of_receiver(fn, op_local(c["a"][0]), st):
                return True
        if depth < 1:
            for b, c in fn.calls():
                if c.get("loc") and fx.has(c["f"]) and (fx.raw(c["f"])["self_ty"] or "").split("<")[0] == st:
                    if touches_inner(Fn(fx.raw(c["f"])), st, depth + 1):
                        return True
        return False
    for imp in fx.impls:
        if not (imp.get("trait") or "").endswith(trait_suffix):
            continue
        st = imp["self_ty"].split("<")[0]
        adt = fx.adts.get(st)
        if not adt or inner_field not in [f[0] for f in adt["variants"][0]["fields"]]:
            continue
        for it in imp["items"]:
            m = it.rsplit("::", 1)[-1]
            if m not in DELEGATED:
                continue
            fn = Fn(fx.raw(it))
            n += 1
            ctx.analysed_fns.add(it)
            ok = touches_inner(fn, st)
            ctx.obligation(rule, it, "%s::%s consults inner" % (st.rsplit("::", 1)[-1], m), ok,
                           sample={"wrapper": st.rsplit("::", 1)[-1], "method": m, "delegates": ok})
            if not ok:
                ctx.violation(rule, it, "%s answered without the wrapped store" % m,
                              "%s::%s never calls into `self.%s`: it answers from the wrapper's own bookkeeping, which knows nothing "
                              "about records that were already in the wrapped store" % (st.rsplit("::", 1)[-1], m, inner_field),
                              fn.file, fn.line)
    ctx.instance(rule + ".methods", n)
    return n


# ------------------------------------------------------------------ R-SIBLING.keylimit
def key_length_limits(ctx, fx, file, rule="R-SIBLING.keylimit", only=None, min_const=16):
    """The functions of one back end that bound the length of a key slice by a constant use the same bound: insert accepting a
    length that lookup refuses leaves a stored key that is reported absent (and is stored again by every re-insert)."""
    found = []
    for fid in fx.fn_ids(file):
        if "::tests::" in fid or "{closure" in fid or (only and not only(fid)):
            continue
        fn = Fn(fx.raw(fid))
        for loc, st in fn.iter_locs():
            if st[0] != "a" or st[2][0] != "bin" or st[2][1] not in ("Gt", "Ge", "Lt", "Le"):
                continue
            op, x, y = st[2][1], st[2][2], st[2][3]
            if op_const(x) is not None and op_const(y) is None:
                x, y = y, x
                op = {"Lt": "Gt", "Le": "Ge", "Gt": "Lt", "Ge": "Le"}[op]
            k, l = op_const(y), op_local(x)
            if not k or not isinstance(k[0], int) or k[0] < min_const or l is None:
                continue
            _, sites = fn.backslice([l])
            calls = [s[2]["f"] for s in sites if s[1] == "call"]
            arith = [s for s in sites if s[1] == "assign" and s[2][2][0] in ("bin", "cast")]
            if len(calls) != 1 or not calls[0].endswith("slice::<impl [T]>::len") or arith:
                continue
            # first length that is refused / not accepted
            n = {"Gt": k[0] + 1, "Ge": k[0], "Lt": k[0], "Le": k[0] + 1}[op]
            found.append((fid, n, st[3], fn.file))
    ctx.instance(rule + ".sites", len(found))
    if len(found) < 2:
        return len(found)
    from collections import Counter
    common = Counter(n for _, n, _, _ in found).most_common(1)[0][0]
    for fid, n, ln, f in found:
        ctx.analysed_fns.add(fid)
        ok = n == common
        ctx.obligation(rule, fid, "key length bound agrees with its siblings", ok,
                       sample={"fn": fid, "line": ln, "first_refused_length": n, "siblings": common})
        if not ok:
            ctx.violation(rule, fid, "key length bound differs from its siblings",
                          "%s draws the line at length %d (line %s) while the other functions of the back end draw it at %d: a key "
                          "of a length in between is accepted by one operation and refused by the other" %
                          (fid.rsplit("::", 1)[-1], n, ln, common), f, ln)
    return len(found)
