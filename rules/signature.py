"""R-SIGNATURE: states merged by minimisation agree on everything a lookup can observe of them.

signature fn : the function that builds the equivalence key of a state (`compute_state_signature`)
getters      : the `&self -> bool` methods of the state struct (flag readers)
observers    : every other non-test function of the file outside the state struct's own impl that calls a getter
rule         : getters called by observers are a subset of the getters called by the signature function. A flag that
               `contains`/`accepts`/the serialiser reads but the signature leaves out lets two states that differ in it
               be merged: one of the two keys then changes its answer.
"""
from vlib.mir import Fn


def run(ctx, fx, file, state_struct, sig_suffix="::compute_state_signature", rule="R-SIGNATURE"):
    getters = set()
    for fid in fx.fn_ids(file):
        rec = fx.raw(fid)
        if (rec["self_ty"] or "").split("<")[0].endswith(state_struct) and "{closure" not in fid:
            fn = Fn(rec)
            if fn.nargs == 1 and fn.ty(0) == "bool" and fn.ty(1).startswith("&") and "mut" not in fn.ty(1).split(" ")[0:2]:
                getters.add(fid)
    # the signature function is found by shape (returns bytes, reads a state flag), its name is only the fallback
    sig = []
    for f in fx.fn_ids(file):
        rec = fx.raw(f)
        if "::tests::" in f or "{closure" in f or (rec["self_ty"] or "").split("<")[0].endswith(state_struct):
            continue
        fn = Fn(rec)
        if "Vec<u8>" in fn.ty(0) and any(c["f"] in getters for b, c in fn.calls()):
            sig.append(f)
    if len(sig) != 1:
        sig = [f for f in fx.fn_ids(file) if f.endswith(sig_suffix)]
    if len(sig) != 1 or not getters:
        from vlib.run import Broken
        raise Broken("%s: cannot identify the state-signature function (%d candidates) or the flag getters of %s in %s"
                     % (rule, len(sig), state_struct, file))
    sig = sig[0]

    def called(fid):
        out = set()
        for k in range(fx.count(fid)):
            for b, c in Fn(fx.raw(fid, k)).calls():
                if c["f"] in getters:
                    out.add(c["f"])
        return out
    in_sig = set()
    observed = {}
    for fid in fx.fn_ids(file):
        if "::tests::" in fid:
            continue
        rec = fx.raw(fid)
        if (rec["self_ty"] or "").split("<")[0].endswith(state_struct):
            continue
        g = called(fid)
        if fid == sig or fid.startswith(sig + "::{"):
            in_sig |= g
        else:
            for x in g:
                observed.setdefault(x, []).append(fid)
    ctx.analysed_fns.add(sig)
    n = 0
    for g in sorted(observed):
        n += 1
        ok = g in in_sig
        ctx.obligation(rule, sig, "flag %s is part of the signature" % g.rsplit("::", 1)[-1], ok,
                       sample={"getter": g, "observers": sorted(set(observed[g]))[:4], "signature_reads": sorted(in_sig)})
        if not ok:
            ctx.violation(rule, sig, "flag %s left out of the state signature" % g.rsplit("::", 1)[-1],
                          "%s reads %s, but %s does not: states that differ only in that flag get the same "
                          "signature and are merged, so one of them changes its answer"
                          % (sorted(set(observed[g]))[0].rsplit("::", 1)[-1], g.rsplit("::", 1)[-1], sig.rsplit("::", 1)[-1]),
                          fx.raw(sig)["file"], fx.raw(sig)["line"])
    ctx.instance(rule + ".flags", n)
    return n
