"""R-SIGNED: byte-ordering kernels must not decide the order of two bytes with a signed lane comparison.

kernels   : crate functions whose name contains cmp/compare/less/order and that call x86 SIMD intrinsics
forbidden : _mm*_cmp{gt,lt,ge,le}_epi8[_mask], _mm*_{min,max}_epi8 (signed 8-bit lanes) - bytes >= 0x80 compare as
            negative, so the sign of the result flips exactly for the inputs the scalar definition (u8 order) gets right
accepted  : the same intrinsic when both vector operands are biased first (xor / add / sub with a splat constant), the
            standard way to get an unsigned comparison out of a signed instruction
"""
import re

from vlib.mir import Fn, op_local

KERNEL_NAME = re.compile(r"cmp|compare|less|order", re.I)
SIGNED8 = re.compile(r"_mm\d*_(cmp(gt|lt|ge|le)_epi8(_mask)?|(min|max)_epi8)$")
BIAS = re.compile(r"_mm\d*_(xor|add|sub)_(si\d+|epi8)$")


def run(ctx, fx, rule="R-SIGNED"):
    n = 0
    for fid in fx.fn_ids():
        if "::tests::" in fid or "{closure" in fid or not KERNEL_NAME.search(fid.rsplit("::", 1)[-1]):
            continue
        rec = fx.raw(fid)
        if not rec["file"].startswith("src/"):
            continue
        fn = Fn(rec)
        intr = [(b, c) for b, c in fn.calls() if "core::arch" in c["f"] or "std::arch" in c["f"] or "core_arch" in c["f"]]
        if not intr:
            continue
        n += 1
        ctx.analysed_fns.add(fid)
        bad = None
        for b, c in intr:
            if not SIGNED8.search(c["f"]):
                continue
            biased = True
            vec_args = [op_local(a) for a in c["a"] if op_local(a) is not None and "__m" in fn.ty(op_local(a))]
            for a in vec_args:
                locs, sites = fn.backslice([a], max_nodes=60)
                if not any(k == "call" and BIAS.search(pl["f"]) for _, k, pl in sites):
                    biased = False
            if not biased or not vec_args:
                bad = (c["f"].rsplit("::", 1)[-1], c["ln"])
        ctx.obligation(rule, fid, "no signed byte ordering", bad is None,
                       sample={"fn": fid, "intrinsics": sorted({c["f"].rsplit("::", 1)[-1] for _, c in intr})[:6]})
        if bad:
            ctx.violation(rule, fid, "byte order decided by %s" % bad[0],
                          "%s compares 8-bit lanes as signed values (line %s) without biasing the operands: two bytes on opposite "
                          "sides of 0x80 are ordered the wrong way round, unlike the scalar (u8) definition" % bad, fn.file, bad[1])
    ctx.instance(rule + ".kernels", n)
    return n


IMPLICIT_LEN = re.compile(r"_mm_cmpistr[icmoasz]$")
MASK64 = re.compile(r"_mm512_\w*(epi8|epu8)_mask$|_mm512_movepi8_mask$|_mm512_test\w*_epi8_mask$")


def byte_kernels(ctx, fx, rule="R-LANES"):
    """two more who-may-call / width rules over every function that calls x86 intrinsics:
    (a) no implicit-length string instruction (PCMPISTR*: operands end at the first 0x00) - the inputs are
        length-delimited byte slices that may contain NUL bytes;
    (b) the 64-bit lane mask of an AVX-512 byte comparison is never narrowed by an integer cast (a `u64 as u32`
        silently drops lanes 32..63)."""
    from vlib.mir import op_place
    n = 0
    for fid in fx.fn_ids():
        if "::tests::" in fid or "{closure" in fid:
            continue
        rec = fx.raw(fid)
        if not rec["file"].startswith("src/"):
            continue
        fn = Fn(rec)
        intr = [(b, c) for b, c in fn.calls() if "core::arch" in c["f"] or "std::arch" in c["f"] or "core_arch" in c["f"]]
        if not intr:
            continue
        n += 1
        ctx.analysed_fns.add(fid)
        bad = None
        for b, c in intr:
            if IMPLICIT_LEN.search(c["f"]):
                bad = ("implicit-length %s" % c["f"].rsplit("::", 1)[-1], c["ln"],
                       "%s stops at the first zero byte of either operand; the kernel works on length-delimited byte slices, so "
                       "a NUL inside the data or the needle hides everything behind it" % c["f"].rsplit("::", 1)[-1])
            if MASK64.search(c["f"]) and fn.ty(c["d"][0]) in ("u64", "__mmask64"):
                cls = {c["d"][0]}
                changed = True
                while changed:
                    changed = False
                    for loc, st in fn.iter_locs():
                        if st[0] == "a" and len(st[1]) == 1 and st[2][0] == "use" and st[1][0] not in cls:
                            p = op_place(st[2][1])
                            if p and len(p) == 1 and p[0] in cls:
                                cls.add(st[1][0])
                                changed = True
                for loc, st in fn.iter_locs():
                    if st[0] == "a" and st[2][0] == "cast" and st[2][1] == "IntToInt" and op_local(st[2][2]) in cls \
                            and st[2][3] in ("u32", "u16", "u8", "i32", "i16", "i8"):
                        bad = ("64-lane mask narrowed to %s" % st[2][3], st[3],
                               "the 64-bit lane mask of %s is cast to %s: matches in lanes beyond the narrow width are lost or "
                               "misplaced" % (c["f"].rsplit("::", 1)[-1], st[2][3]))
        ctx.obligation(rule, fid, "lane discipline", bad is None, sample={"fn": fid, "intrinsic_calls": len(intr)})
        if bad:
            ctx.violation(rule, fid, bad[0], bad[2], fn.file, bad[1])
    ctx.instance(rule + ".functions", n)
    return n


# ------------------------------------------------------------------ R-PADMASK
def padded_mask(ctx, fx, files=None, rule="R-PADMASK", only=None):
    """a kernel that copies `len` valid elements into a zero-filled scratch array and compares the whole register must
    not take the first set bit of the raw movemask: the padding lanes compare equal to key 0. In a function with a
    `usize` length parameter and a zero-repeat scratch array, a `trailing_zeros`/`leading_zeros` of a value derived from
    `_mm*_movemask_*` needs, on the way, a BitAnd with a value derived from the length - or the movemask sits under a
    dominating `len >= / < CONST` branch (the block in which every lane is known to be filled)."""
    import re as _re
    from vlib.mir import Fn, op_local, op_const
    n = 0
    for f in (files or fx.files()):
        for fid in fx.fn_ids(f):
            if "::tests::" in fid or (only and not only(fid)):
                continue
            for k in range(fx.count(fid)):
                fn = Fn(fx.raw(fid, k))
                mm = [(b, c) for b, c in fn.calls() if _re.search(r"_mm\d*_movemask_(epi8|ps|pd)$", c["f"])]
                if not mm:
                    continue
                lens = [i for i in range(1, fn.nargs + 1) if fn.ty(i) == "usize"]
                scratch = any(st[0] == "a" and st[2][0] == "rep" for loc, st in fn.iter_locs())
                if not lens or not scratch:
                    continue
                lenfw = fn.forward_locals(lens) | set(lens)
                len_sw = []
                for loc, st in fn.iter_locs():
                    if st[0] == "a" and st[2][0] == "bin" and st[2][1] in ("Lt", "Le", "Gt", "Ge") and len(st[1]) == 1:
                        x, y = st[2][2], st[2][3]
                        if (op_local(x) in lenfw and op_const(y) is not None) or (op_local(y) in lenfw and op_const(x) is not None):
                            for sb in fn.blocks():
                                t = fn.term(sb)
                                if t[0] == "sw" and op_local(t[1]) == st[1][0]:
                                    len_sw.append(sb)
                for b, c in mm:
                    fw = fn.forward_locals([c["d"][0]]) | {c["d"][0]}
                    tz = [(b2, c2) for b2, c2 in fn.calls() if c2["f"].rsplit("::", 1)[-1] in ("trailing_zeros", "leading_zeros")
                          and c2["a"] and op_local(c2["a"][0]) in fw]
                    if not tz:
                        continue
                    n += 1
                    ctx.analysed_fns.add(fid)
                    masked = any(st[0] == "a" and st[2][0] == "bin" and st[2][1] == "BitAnd" and
                                 ((op_local(st[2][2]) in fw and op_local(st[2][3]) in lenfw) or
                                  (op_local(st[2][3]) in fw and op_local(st[2][2]) in lenfw)) for loc, st in fn.iter_locs())
                    full = any(fn.dominates(sb, b) and sb != b for sb in len_sw)
                    ok = masked or full
                    ctx.obligation(rule, fid, "movemask@%s restricted to the filled lanes" % c["ln"], ok,
                                   sample={"fn": fid, "line": c["ln"], "masked_by_len": masked, "under_len_branch": full})
                    if not ok:
                        ctx.violation(rule, fid, "first set bit of an unmasked movemask over a zero-padded array",
                                      "%s compares a zero-padded scratch array of `len` valid elements in one register and takes "
                                      "trailing_zeros of the raw movemask (line %d): for key 0 a padding lane is the first match, so an index "
                                      ">= len is returned" % (fid.rsplit("::", 1)[-1], c["ln"]), fn.file, c["ln"])
    ctx.instance(rule + ".sites", n)
    return n


# ------------------------------------------------------------------ R-IDENTITY
def ptr_identity_fast_path(ctx, fx, files=None, rule="R-IDENTITY", only=None):
    """"same start address => equal" is only true for slices of the same length. Where a function compares the
    `as_ptr()` of two slice parameters and one outcome of that comparison returns without looking at the contents, the
    lengths of the two slices are compared as well (in the same condition or on a dominating branch). A prefix and the
    whole buffer start at the same address."""
    import re as _re
    from vlib.mir import Fn, op_local
    n = 0
    for f in (files or fx.files()):
        for fid in fx.fn_ids(f):
            if "::tests::" in fid or (only and not only(fid)):
                continue
            for k in range(fx.count(fid)):
                fn = Fn(fx.raw(fid, k))
                slices = [i for i in range(1, fn.nargs + 1) if _re.match(r"&(mut )?\[", fn.ty(i).replace("'{erased} ", ""))]
                if len(slices) < 2:
                    continue
                ptr_of = {}
                for b, c in fn.calls():
                    if c["f"].rsplit("::", 1)[-1] in ("as_ptr", "as_mut_ptr") and c["a"] and op_local(c["a"][0]) is not None:
                        src = set(fn.backslice([op_local(c["a"][0])], max_nodes=12)[0]) | {op_local(c["a"][0])}
                        for s in slices:
                            if s in src:
                                for l in fn.forward_locals([c["d"][0]]) | {c["d"][0]}:
                                    ptr_of.setdefault(l, set()).add(s)
                if not ptr_of:
                    continue
                lens = set()
                for loc, st in fn.iter_locs():
                    if st[0] == "a" and st[2][0] == "un" and st[2][1] == "PtrMetadata" and op_local(st[2][2]) is not None:
                        lens |= fn.forward_locals([st[1][0]]) | {st[1][0]}
                    if st[0] == "call" and st[1]["f"].rsplit("::", 1)[-1] == "len":
                        lens |= fn.forward_locals([st[1]["d"][0]]) | {st[1]["d"][0]}
                for loc, st in fn.iter_locs():
                    if not (st[0] == "a" and st[2][0] == "bin" and st[2][1] in ("Eq", "Ne") and len(st[1]) == 1):
                        continue
                    x, y = op_local(st[2][2]), op_local(st[2][3])
                    if x is None or y is None or not (ptr_of.get(x) and ptr_of.get(y)) or ptr_of[x] == ptr_of[y]:
                        continue
                    if "*" not in fn.ty(x) and "NonNull" not in fn.ty(x):
                        continue
                    n += 1
                    ctx.analysed_fns.add(fid)
                    # a comparison of the lengths somewhere that dominates, or is dominated by, this test
                    ok = False
                    for loc2, s2 in fn.iter_locs():
                        if s2[0] == "a" and s2[2][0] == "bin" and s2[2][1] in ("Eq", "Ne", "Lt", "Le", "Gt", "Ge") and \
                                op_local(s2[2][2]) in lens and op_local(s2[2][3]) in lens:
                            if fn.dominates(loc2[0], loc[0]) or fn.dominates(loc[0], loc2[0]):
                                ok = True
                    ctx.obligation(rule, fid, "pointer identity test accompanied by a length test", ok, sample={"fn": fid, "line": st[3]})
                    if not ok:
                        ctx.violation(rule, fid, "equal start address taken for equal slices",
                                      "%s compares the start addresses of its two slice arguments (line %d) and never compares their "
                                      "lengths: a slice and its own prefix are reported equal" % (fid.rsplit("::", 1)[-1], st[3]), fn.file, st[3])
    ctx.instance(rule + ".tests", n)
    return n
