"""R-SIGNED: byte-ordering kernels must not decide the order of two bytes with a signed lane comparison.

kernels   : crate functions whose name contains cmp/compare/less/order and that call x86 SIMD intrinsics
forbidden : _mm*_cmp{gt,lt,ge,le}_epi8[_mask], _mm*_{min,max}_epi8 (signed 8-bit lanes) - bytes >= 0x80 compare as
            negative, so the sign of the result flips exactly for the inputs the scalar definition (u8 order) gets right
accepted  : the same intrinsic when both vector operands are biased first (xor / add / sub with a splat constant), the
            standard way to get an unsigned comparison out of a signed instruction
"""
import re

from vlib.mir import Fn, op_local

KERNEL_NAME = re.compile(r"cmp|compare|less|order", re.I)
SIGNED8 = re.compile(r"_mm\d*_(cmp(gt|lt|ge|le)_epi8(_mask)?|(min|max)_epi8)$")
BIAS = re.compile(r"_mm\d*_(xor|add|sub)_(si\d+|epi8)$")


def run(ctx, fx, rule="R-SIGNED"):
    n = 0
    for fid in fx.fn_ids():
        if "::tests::" in fid or "{closure" in fid or not KERNEL_NAME.search(fid.rsplit("::", 1)[-1]):
            continue
        rec = fx.raw(fid)
        if not rec["file"].startswith("src/"):
            continue
        fn = Fn(rec)
        intr = [(b, c) for b, c in fn.calls() if "core::arch" in c["f"] or "std::arch" in c["f"] or "core_arch" in c["f"]]
        if not intr:
            continue
        n += 1
        ctx.analysed_fns.add(fid)
        bad = None
        for b, c in intr:
            if not SIGNED8.search(c["f"]):
                continue
            biased = True
            vec_args = [op_local(a) for a in c["a"] if op_local(a) is not None and "__m" in fn.ty(op_local(a))]
            for a in vec_args:
                locs, sites = fn.backslice([a], max_nodes=60)
                if not any(k == "call" and BIAS.search(pl["f"]) for _, k, pl in sites):
                    biased = False
            if not biased or not vec_args:
                bad = (c["f"].rsplit("::", 1)[-1], c["ln"])
        ctx.obligation(rule, fid, "no signed byte ordering", bad is None,
                       sample={"fn": fid, "intrinsics": sorted({c["f"].rsplit("::", 1)[-1] for _, c in intr})[:6]})
        if bad:
            ctx.violation(rule, fid, "byte order decided by %s" % bad[0],
                          "%s compares 8-bit lanes as signed values (line %s) without biasing the operands: two bytes on opposite "
                          "sides of 0x80 are ordered the wrong way round, unlike the scalar (u8) definition" % bad, fn.file, bad[1])
    ctx.instance(rule + ".kernels", n)
    return n


IMPLICIT_LEN = re.compile(r"_mm_cmpistr[icmoasz]$")
MASK64 = re.compile(r"_mm512_\w*(epi8|epu8)_mask$|_mm512_movepi8_mask$|_mm512_test\w*_epi8_mask$")


def byte_kernels(ctx, fx, rule="R-LANES"):
    """two more who-may-call / width rules over every function that calls x86 intrinsics:
    (a) no implicit-length string instruction (PCMPISTR*: operands end at the first 0x00) - the inputs are
        length-delimited byte slices that may contain NUL bytes;
    (b) the 64-bit lane mask of an AVX-512 byte comparison is never narrowed by an integer cast (a `u64 as u32`
        silently drops lanes 32..63)."""
    from vlib.mir import op_place
    n = 0
    for fid in fx.fn_ids():
        if "::tests::" in fid or "{closure" in fid:
            continue
        rec = fx.raw(fid)
        if not rec["file"].startswith("src/"):
            continue
        fn = Fn(rec)
        intr = [(b, c) for b, c in fn.calls() if "core::arch" in c["f"] or "std::arch" in c["f"] or "core_arch" in c["f"]]
        if not intr:
            continue
        n += 1
        ctx.analysed_fns.add(fid)
        bad = None
        for b, c in intr:
            if IMPLICIT_LEN.search(c["f"]):
                bad = ("implicit-length %s" % c["f"].rsplit("::", 1)[-1], c["ln"],
                       "%s stops at the first zero byte of either operand; the kernel works on length-delimited byte slices, so "
                       "a NUL inside the data or the needle hides everything behind it" % c["f"].rsplit("::", 1)[-1])
            if MASK64.search(c["f"]) and fn.ty(c["d"][0]) in ("u64", "__mmask64"):
                cls = {c["d"][0]}
                changed = True
                while changed:
                    changed = False
                    for loc, st in fn.iter_locs():
                        if st[0] == "a" and len(st[1]) == 1 and st[2][0] == "use" and st[1][0] not in cls:
                            p = op_place(st[2][1])
                            if p and len(p) == 1 and p[0] in cls:
                                cls.add(st[1][0])
                                changed = True
                for loc, st in fn.iter_locs():
                    if st[0] == "a" and st[2][0] == "cast" and st[2][1] == "IntToInt" and op_local(st[2][2]) in cls \
                            and st[2][3] in ("u32", "u16", "u8", "i32", "i16", "i8"):
                        bad = ("64-lane mask narrowed to %s" % st[2][3], st[3],
                               "the 64-bit lane mask of %s is cast to %s: matches in lanes beyond the narrow width are lost or "
                               "misplaced" % (c["f"].rsplit("::", 1)[-1], st[2][3]))
        ctx.obligation(rule, fid, "lane discipline", bad is None, sample={"fn": fid, "intrinsic_calls": len(intr)})
        if bad:
            ctx.violation(rule, fid, bad[0], bad[2], fn.file, bad[1])
    ctx.instance(rule + ".functions", n)
    return n
