"""R-SYM: whatever a store/compress path applies to the payload, the load/decompress path inverts.

For a payload source (a byte-slice parameter, or the result of inner.get) and a sink (the
argument of inner.put, or the returned bytes) the analysis computes which *kinds* of def-use
paths exist:
    I  : the bytes reach the sink through copies only (raw / fallback path)
    T  : the bytes pass through at least one transforming call (with the callee's stem)
Verdict for a (store, load) pair: I on the store side needs I on the load side; T on the store
side needs T on the load side with a matching stem; T on the load side needs T on the store side.
"""
import re
from collections import deque

from vlib.mir import Fn, op_local, op_place, rv_operands

IDENT_CALLS = {"to_vec", "to_owned", "clone", "into", "from", "as_ref", "as_slice", "as_mut_slice", "deref", "deref_mut",
               "borrow", "branch", "from_residual", "unwrap", "expect", "unwrap_or_default", "map_err", "ok_or",
               "ok_or_else", "into_boxed_slice", "into_vec", "as_bytes", "into_bytes", "as_mut", "index", "index_mut",
               "extend_from_slice", "copy_from_slice", "push", "extend", "into_iter", "iter", "cloned", "copied",
               "collect", "next", "get", "get_unchecked", "split_at", "ok", "unwrap_or", "unwrap_or_else", "map",
               "from_iter", "as_ptr", "from_raw_parts", "to_bytes", "from_utf8", "into_inner", "write_all", "concat",
               "first", "last", "chunks", "split_first", "split_last", "split_at_checked", "strip_prefix", "get_mut", "by_ref", "take", "skip", "enumerate", "len", "is_empty", "new", "with_capacity",
               "reserve", "truncate", "resize", "set_len", "copy_nonoverlapping", "fast_copy", "and_then", "or_else",
               "as_deref", "to_string", "record_put", "record_get", "fetch_add", "elapsed", "hash", "insert", "log"}
BYTES_TY = re.compile(r"Vec<u8>|\[u8\]|String|Cow<|Bytes|FastVec<u8>|Box<\[u8\]>")
STRIP = re.compile(r"^(en|de)(code|compress)|^(de)?compress|^(en|de)code|^(en|de)crypt|^(un)?pack|^(de)?serialize|^inflate|^deflate")


def stem(name):
    last = name.rsplit("::", 1)[-1]
    s = STRIP.sub("", last).strip("_")
    s = re.sub(r"^(data|bytes|block|payload|internal|impl|all)$", "", s)
    return s


class Flow:
    def __init__(self, fx, depth=2):
        self.fx = fx
        self.depth = depth
        self._sum = {}
        self._devirt = {}

    def kinds(self, fn, sources, sink_pred, level=0):
        """sources: iterable of locals. sink_pred(fn, loc, stmt, local) -> True when `local` is used as
        the sink at that statement. Returns dict kind -> set of stems ('I' -> {''})"""
        fn._build_uses()
        state = {}     # local -> set of frozenset(stems) ; frozenset() == identity
        dq = deque()
        for s in sources:
            state.setdefault(s, set()).add(frozenset())
            dq.append(s)
        out = {}
        # index: which statements read each local
        guard = 0
        while dq and guard < 20000:
            guard += 1
            l = dq.popleft()
            cur = set(state.get(l, ()))
            for loc, p in fn.reads(l):
                st = fn.stmt_at(loc)
                if st[0] == "a":
                    dst = st[1][0]
                    if st[2][0] in ("bin", "disc") and st[2][0] != "use":
                        if st[2][0] == "disc" or st[2][1] in ("Eq", "Ne", "Lt", "Le", "Gt", "Ge"):
                            continue
                    if st[2][0] == "un" and st[2][1] == "PtrMetadata":
                        continue
                    new = cur
                    tgts = [dst] + (list(fn.points_to(dst)) if len(st[1]) > 1 else [])
                    for t in tgts:
                        if not new <= state.setdefault(t, set()):
                            state[t] |= new
                            dq.append(t)
                elif st[0] == "call":
                    c = st[1]
                    if sink_pred(fn, loc, c, l):
                        for k in cur:
                            out.setdefault("T" if k else "I", set()).update(k or {""})
                    last = c["f"].rsplit("::", 1)[-1]
                    dst = c["d"][0]
                    dty = fn.ty(dst)
                    if last in ("len", "is_empty", "capacity", "from_residual"):
                        continue      # lengths are not payload; from_residual only carries the error
                    transform = None
                    if last in IDENT_CALLS or not BYTES_TY.search(dty):
                        # identity helper, or the result carries no bytes (stats, ids, lengths)
                        if not BYTES_TY.search(dty) and last not in IDENT_CALLS:
                            # may still write transformed bytes into a &mut Vec argument
                            transform = self._callee_kind(c, l, fn, level)
                            if transform is None:
                                continue
                        else:
                            transform = "I"
                    else:
                        transform = self._callee_kind(c, l, fn, level) or "T"
                    if transform == "I":
                        new = cur
                    else:
                        new = {frozenset(k | {stem(c["f"])}) for k in cur}
                    tgts = [dst]
                    # out-parameters: &mut Vec<u8> arguments receive the bytes too
                    for a in c["a"]:
                        la = op_local(a)
                        if la is not None and la != l and "&mut" in fn.ty(la) and BYTES_TY.search(fn.ty(la)):
                            tgts += [la] + list(fn.points_to(la))
                    for t in tgts:
                        if BYTES_TY.search(fn.ty(t)) or t == dst:
                            if not new <= state.setdefault(t, set()):
                                state[t] |= new
                                dq.append(t)
            # references: the pointee flows where the reference flows
        # return value as sink
        self._state = state
        return out, state

    def _devirtualise(self, c, fn):
        """for a call through `dyn Trait` whose receiver is a struct field: if every crate-wide
        construction of that field stores one concrete crate type, return that type's method id"""
        if self.fx.has(c["f"]) or not c["a"] or not c.get("loc"):
            return None       # only body-less crate trait methods (virtual / unresolved calls)
        from rules.sync import recv_field
        fld = recv_field(fn, c["a"][0])
        if not fld or "::" not in fld:
            return None
        fld = fld.rstrip("[]")
        if fld in self._devirt:
            ty = self._devirt[fld]
        else:
            adt, fname = fld.rsplit("::", 1)
            types = set()
            nsites = 0
            needle = ("adt:" + adt + "::").encode()
            with open(self.fx.path, "rb") as fh:
                data = fh.read()
            pos = 0
            fids = set()
            while True:
                i = data.find(needle, pos)
                if i < 0:
                    break
                ls = data.rfind(b"\n", 0, i) + 1
                le = data.find(b"\n", i)
                if data[ls:ls + 2] == b"F\t":
                    fids.add(data[ls:ls + 3000].split(b"\t", 3)[2].decode())
                pos = le + 1 if le > 0 else len(data)
            for fid in fids:
                cf = Fn(self.fx.raw(fid))
                for loc, st in cf.iter_locs():
                    if st[0] == "a" and st[2][0] == "agg" and isinstance(st[2][1], str) and \
                            st[2][1][4:].rsplit("::", 1)[0] == adt and fname in st[2][3]:
                        nsites += 1
                        o = st[2][2][st[2][3].index(fname)]
                        lo = op_local(o)
                        found = set()
                        if lo is not None:
                            locs, sites = cf.backslice([lo], max_nodes=80)
                            for loc2, kind2, pl2 in sites:
                                ops = rv_operands(pl2[2]) if kind2 in ("assign", "store") else pl2["a"]
                                for oo in ops:
                                    if oo and oo[0] == "k" and isinstance(oo[2], str) and oo[2] in self.fx.adts:
                                        found.add(oo[2])
                                if kind2 == "assign" and pl2[2][0] == "agg" and isinstance(pl2[2][1], str) and pl2[2][1].startswith("adt:"):
                                    t = pl2[2][1][4:].rsplit("::", 1)[0]
                                    if t in self.fx.adts and t != adt:
                                        found.add(t)
                        types |= found if found else {"?"}
            ty = next(iter(types)) if (len(types) == 1 and "?" not in types and nsites) else None
            self._devirt[fld] = ty
        if ty is None:
            return None
        meth = c["f"].rsplit("::", 1)[-1]
        for imp in self.fx.impls:
            if imp["self_ty"] == ty and imp.get("trait"):
                for it in imp["items"]:
                    if it.endswith("::" + meth):
                        return it
        return None

    def _callee_kind(self, c, l, fn, level):
        """'I' if the crate-local callee only copies the argument through, 'T' if it transforms,
        None if unknown/no bytes"""
        target = c["f"]
        if not self.fx.has(target) or not c.get("r", True):
            dv = self._devirtualise(c, fn)
            if dv:
                target = dv
                c = dict(c, f=dv, loc=True)
        if not c["loc"] or level >= self.depth or not self.fx.has(c["f"]):
            return None
        key = c["f"]
        idx = None
        for i, a in enumerate(c["a"]):
            if op_local(a) == l:
                idx = i + 1
        if idx is None:
            return None
        k = (key, idx)
        if k in self._sum:
            return self._sum[k]
        self._sum[k] = "T"
        cf = Fn(self.fx.raw(key))
        out, state = self.kinds(cf, [idx], lambda f, loc, cc, ll: False, level + 1)
        r0 = state.get(0, set())
        res = None
        if r0:
            res = "I" if all(not x for x in r0) else "T"
        self._sum[k] = res
        return res


def ret_kinds(state):
    r0 = state.get(0, set())
    out = {}
    for k in r0:
        out.setdefault("T" if k else "I", set()).update(k or {""})
    return out


def compare(ctx, rule, label, store_k, load_k, wfn, rfn, match_stems=True):
    problems = []
    if "I" in store_k and "I" not in load_k:
        problems.append("the store path can keep the payload raw (identity / fallback path) but the load path always "
                        "applies %s" % sorted(load_k.get("T", [])))
    if "T" in store_k and "T" not in load_k:
        problems.append("the store path transforms the payload (%s) but the load path returns the stored bytes unchanged"
                        % sorted(store_k["T"]))
    if "T" in load_k and "T" not in store_k:
        problems.append("the load path transforms the bytes (%s) but the store path stores them raw" % sorted(load_k["T"]))
    if match_stems and "T" in store_k and "T" in load_k:
        ws, rs = set(store_k["T"]), set(load_k["T"])
        if (ws - {""} or rs - {""}) and not (ws & rs):
            problems.append("store applies %s but load applies %s (different codec family)" % (sorted(ws), sorted(rs)))
    ok = not problems
    ctx.obligation(rule, wfn.id, label, ok,
                   sample={"pair": label, "store": wfn.id, "load": rfn.id,
                           "store_paths": {k: sorted(v) for k, v in store_k.items()},
                           "load_paths": {k: sorted(v) for k, v in load_k.items()}})
    if not ok:
        ctx.violation(rule, wfn.id, label, problems[0], rfn.file, rfn.line)
    return ok
