"""Synchronisation rules: atomic-site extraction, lock-guard liveness, R-ATOM (non-atomic
check-then-act), R-LOCKCOV (operations that must happen under a named lock), R-ABA."""
import re
from collections import defaultdict

from vlib.mir import Fn, op_local, op_place, op_const, rv_operands, place_fields

ATOMIC_RMW = ("fetch_add", "fetch_sub", "fetch_or", "fetch_and", "fetch_xor", "fetch_max", "fetch_min",
              "fetch_update", "swap", "store", "compare_exchange", "compare_exchange_weak", "compare_and_swap")
ATOMIC_ALL = ATOMIC_RMW + ("load",)
GUARD_TYPES = ("MutexGuard<", "RwLockWriteGuard<", "RwLockReadGuard<", "SpinGuard<", "FutexGuard<",
               "AdaptiveMutexGuard<", "ReentrantMutexGuard<")


def is_atomic_call(c):
    f = c["f"]
    return ("sync::atomic::Atomic" in f) and f.rsplit("::", 1)[-1] in ATOMIC_ALL


def recv_field(fn, op, depth=0):
    """field key (full 'path::Adt::field') of the place a receiver operand refers to, or a
    descriptor for locals/statics; None if unknown"""
    if depth > 10:
        return None
    p = op_place(op)
    if p is None:
        return None
    flds = place_fields(p)
    if flds:
        return flds[-1][1:]
    l = p[0]
    ds = fn.defs(l)
    ds = [d for d in ds if d[1] in ("assign", "call")]
    if len(ds) != 1:
        if l <= fn.nargs and l > 0:
            return "arg%d" % l
        return None
    loc, kind, pl = ds[0]
    if kind == "assign":
        rv = pl[2]
        if rv[0] in ("ref", "refmut", "raw"):
            src = rv[1] if rv[0] != "raw" else rv[2]
            f2 = place_fields(src)
            if f2:
                return f2[-1][1:]
            return recv_field(fn, ["c", [src[0]]], depth + 1) if src[0] != l else None
        if rv[0] in ("use", "cast"):
            o = rv[1] if rv[0] == "use" else rv[2]
            c = op_const(o)
            if c is not None:
                return None
            return recv_field(fn, o, depth + 1)
        if rv[0] == "tls":
            return "static:" + rv[1]
        return None
    # call: Deref::deref / Arc::as_ref / index -> follow first arg
    last = pl["f"].rsplit("::", 1)[-1]
    if last in ("deref", "deref_mut", "as_ref", "as_mut", "borrow", "borrow_mut", "index", "index_mut",
                "get_unchecked", "get_unchecked_mut", "as_ptr", "get", "get_mut", "unwrap", "expect",
                "unwrap_unchecked", "clone", "by_ref", "as_deref") and pl["a"]:
        r = recv_field(fn, pl["a"][0], depth + 1)
        if last in ("index", "index_mut", "get", "get_mut", "get_unchecked", "get_unchecked_mut") and r:
            return r + "[]"
        return r
    return None


def atomic_sites(fn):
    """[(bb, op, field, callrec)]"""
    out = []
    for b, c in fn.calls():
        if is_atomic_call(c) and c["a"]:
            out.append((b, c["f"].rsplit("::", 1)[-1], recv_field(fn, c["a"][0]), c))
    return out


def guard_locals(fn):
    """locals holding a lock guard -> lock field key (or None)"""
    out = {}
    for l, ty in enumerate(fn.locals):
        if any(g in ty for g in GUARD_TYPES) and not ty.startswith("&") and "Result<" not in ty \
                and "PoisonError" not in ty and "Option<" not in ty:
            out[l] = None
    # find which lock each guard came from: backslice to a lock()/write()/read() call
    for l in list(out):
        locs, sites = fn.backslice([l])
        for loc, kind, pl in sites:
            if kind == "call" and pl["f"].rsplit("::", 1)[-1] in ("lock", "write", "read", "try_lock", "try_write",
                                                                   "try_read", "lock_arc") and pl["a"]:
                fld = recv_field(fn, pl["a"][0])
                if fld:
                    out[l] = fld
                    break
    return out


def guard_live_blocks(fn, g):
    """(set of blocks where guard local g is live at block entry, def locs). Liveness: from
    its definition until a Drop terminator / StorageDead / move of g."""
    defs = [d for d in fn.defs(g) if d[1] in ("assign", "call") and len((d[2][1] if d[1] == "assign" else d[2]["d"])) == 1]
    live_at = set()   # (bb, idx) granular is overkill: we answer queries by walking
    return defs


def guard_live_at(fn, g, loc):
    """is guard g live at location loc? walk forward from each def, stopping at kills"""
    key = ("glive", g)
    cache = fn.__dict__.setdefault("_glive", {})
    if key not in cache:
        defs = [d[0] for d in fn.defs(g) if d[1] in ("assign", "call")
                and len((d[2][1] if d[1] == "assign" else d[2]["d"])) == 1]
        live = set()  # set of (bb, idx) locations where g is live *before* executing that location
        work = []
        for (b, i) in defs:
            # live after the defining location
            if i < len(fn.stmts(b)):
                work.append((b, i + 1))
            else:
                for s in fn.succ(b):
                    work.append((s, 0))
        seen = set()
        while work:
            b, i = work.pop()
            if (b, i) in seen:
                continue
            seen.add((b, i))
            st = fn.stmts(b)
            killed = False
            j = i
            while j <= len(st):
                live.add((b, j))
                if j < len(st):
                    s = st[j]
                    if s[0] == "sd" and s[1] == g:
                        killed = True
                        break
                    if s[0] == "a":
                        for o in rv_operands(s[2]):
                            if o[0] == "m" and o[1] == [g]:
                                killed = True
                        if killed:
                            break
                else:
                    t = fn.term(b)
                    if t[0] == "drop" and t[1] == [g]:
                        killed = True
                        break
                    if t[0] == "call":
                        for o in t[1]["a"]:
                            if o[0] == "m" and o[1] == [g]:
                                killed = True
                        if killed:
                            break
                j += 1
            if not killed:
                for s in fn.succ(b):
                    work.append((s, 0))
        cache[key] = live
    return loc in cache[key]


def guards_live_at(fn, loc, guards=None):
    guards = guards if guards is not None else guard_locals(fn)
    return {g: fld for g, fld in guards.items() if guard_live_at(fn, g, loc)}


def term_loc(fn, b):
    return (b, len(fn.stmts(b)))


# ---------------------------------------------------------------- R-ATOM
def check_then_act(ctx, fn, rule="R-ATOM", fields=None):
    """load of atomic X -> branch on the loaded value -> RMW/store on X on a branch, with no
    common live guard and no compare_exchange on X in between."""
    sites = atomic_sites(fn)
    guards = guard_locals(fn)
    loads = [(b, op, fld, c) for b, op, fld, c in sites if op == "load" and fld]
    n = 0
    for b, op, fld, c in loads:
        if fields is not None and fld not in fields:
            continue
        # does the loaded value reach a switch discriminant?
        dst = c["d"][0]
        fwd = fn.forward_locals([dst])
        branches = []
        for bb in fn.blocks():
            t = fn.term(bb)
            if t[0] == "sw":
                l = op_local(t[1])
                if l is not None and l in fwd and fn.dominates(b, bb):
                    branches.append(bb)
        if not branches:
            continue
        acts = [(b2, op2, c2) for b2, op2, f2, c2 in sites
                if f2 == fld and op2 in ATOMIC_RMW and op2 not in ("compare_exchange", "compare_exchange_weak",
                                                                   "fetch_update")]
        for b2, op2, c2 in acts:
            # act must be reachable from a branch block of the check and not be the CAS-loop idiom
            if not any(b2 in fn.reachable_from([br]) and b2 != br for br in branches):
                continue
            # the branch must actually decide whether the act is reached or the function refuses:
            # at least one branch successor avoids the act
            decides = False
            for br in branches:
                for s in fn.succ(br):
                    if b2 not in fn.reachable_from([s]):
                        decides = True
            if not decides:
                continue
            # a CAS on the same field on every path between is the retry idiom
            cas_blocks = [b3 for b3, op3, f3, c3 in sites if f3 == fld and op3.startswith("compare_exchange")]
            if cas_blocks and b2 not in fn.reachable_from([b], avoid=cas_blocks):
                continue
            n += 1
            g1 = guards_live_at(fn, term_loc(fn, b), guards)
            g2 = guards_live_at(fn, term_loc(fn, b2), guards)
            common = set(g1) & set(g2)
            ok = bool(common)
            ctx.obligation(rule, fn.id, "%s:%s->%s" % (fld.rsplit("::", 1)[-1], "load", op2), ok,
                           sample={"fn": fn.id, "atomic": fld, "check": "load@bb%d line %d" % (b, c["ln"]),
                                   "act": "%s line %d" % (op2, c2["ln"]),
                                   "guards_live_across": [guards[g] for g in common]})
            if not ok:
                ctx.violation(rule, fn.id, "load-then-%s on %s" % (op2, fld.rsplit("::", 1)[-1]),
                              "decision taken on a load of %s (line %d) and the %s (line %d) are separate steps with "
                              "no lock held across both: two threads can both pass the check"
                              % (fld, c["ln"], op2, c2["ln"]), fn.file, c["ln"])
    return n


# ---------------------------------------------------------------- R-LOCKCOV
def find_sites(fn, field_suffix, ops):
    return [(b, op, fld, c) for b, op, fld, c in atomic_sites(fn)
            if fld and fld.endswith(field_suffix) and op in ops]


def lockcov(ctx, fn, lock_suffix, field_suffix, ops, rule="R-LOCKCOV", only_reachable_from=None, label=None):
    """every site (field, op) in fn [reachable from an anchor site] has a guard of lock live"""
    guards = guard_locals(fn)
    sites = find_sites(fn, field_suffix, ops)
    anchors = None
    if only_reachable_from is not None:
        af, aops = only_reachable_from
        anchors = [b for b, _, _, _ in find_sites(fn, af, aops)]
    n = 0
    for b, op, fld, c in sites:
        if anchors is not None:
            if not any(b in fn.reachable_from([a]) for a in anchors):
                continue
        n += 1
        live = guards_live_at(fn, term_loc(fn, b), guards)
        ok = any(f and f.endswith(lock_suffix) for f in live.values())
        ctx.obligation(rule, fn.id, "%s.%s under %s" % (field_suffix, op, lock_suffix), ok,
                       sample={"fn": fn.id, "site": "%s.%s line %d" % (field_suffix, op, c["ln"]),
                               "guards_live": sorted(str(v) for v in live.values())})
        if not ok:
            ctx.violation(rule, fn.id, "%s.%s outside %s" % (field_suffix, op, lock_suffix),
                          "%s.%s (line %d) executes without the %s guard live%s"
                          % (field_suffix, op, c["ln"], lock_suffix, (" — " + label) if label else ""),
                          fn.file, c["ln"])
    return n


# ---------------------------------------------------------------- R-ABA
def cas_sites(fn):
    """[(block, field, callrec, loaded_local|None, new_local|None)] for compare_exchange* calls"""
    out = []
    for b, op, fld, c in atomic_sites(fn):
        if not op.startswith("compare_exchange"):
            continue
        cur = op_local(c["a"][1]) if len(c["a"]) > 1 else None
        new = op_local(c["a"][2]) if len(c["a"]) > 2 else None
        out.append((b, fld, c, cur, new))
    return out


def _reads_through(fn, new_local, loaded_roots):
    """does the value `new_local` depend on a memory read through a pointer/offset derived from
    the loaded head value? returns a description or None"""
    if new_local is None:
        return None
    fw = fn.forward_locals(loaded_roots)
    locs, sites = fn.backslice([new_local])
    for loc, kind, pl in sites:
        if kind == "assign":
            for o in rv_operands(pl[2]):
                p = op_place(o)
                if p and "*" in p[1:] and p[0] in fw and (fn.ty(p[0]).startswith("*") or "NonNull" in fn.ty(p[0])):
                    return "(*%s) at line %s" % (fn.local_name(p[0]), pl[3])
        elif kind == "call":
            f = pl["f"]
            last = f.rsplit("::", 1)[-1]
            if last in ("read", "read_unaligned", "read_volatile", "as_ref", "load") and \
                    any(op_local(a) in fw for a in pl["a"]) and ("ptr" in f or "NonNull" in f or "Atomic" in f):
                if "Atomic" in f and last == "load":
                    # loading another atomic through a pointer derived from the head (node.next.load())
                    l0 = op_local(pl["a"][0])
                    if l0 is None or l0 not in fw:
                        continue
                return "%s() at line %s" % (last, pl["ln"])
    return None


def _const_return(fn, l=0, depth=0, seen=None):
    """can the value of local l (default: the return place) be a plain constant on some path? A tag helper that
    returns a canonical constant word for some state (e.g. 'empty list') resets the generation on that path."""
    seen = seen if seen is not None else set()
    if l in seen or depth > 6:
        return False
    seen.add(l)
    for loc, kind, pl in fn.defs(l):
        if kind != "assign" or len(pl[1]) != 1:
            continue
        rv = pl[2]
        if rv[0] == "use":
            if op_const(rv[1]) is not None:
                return True
            p = op_place(rv[1])
            if p and len(p) == 1 and _const_return(fn, p[0], depth + 1, seen):
                return True
        elif rv[0] == "cast":
            if op_const(rv[2]) is not None:
                return True
            ll = op_local(rv[2])
            if ll is not None and _const_return(fn, ll, depth + 1, seen):
                return True
    return False


def _bumps_tag(fn, new_local, loaded_roots, fx=None, depth=0):
    """new value contains (something derived from the loaded value) + 1; the increment may sit in a
    crate-local helper that receives the loaded word (followed two levels deep when facts are given)"""
    if new_local is None:
        return False
    fw = fn.forward_locals(loaded_roots)
    locs, sites = fn.backslice([new_local])
    for loc, kind, pl in sites:
        if kind == "call" and fx is not None and depth < 2 and pl.get("loc") and fx.has(pl["f"]):
            idx = [i + 1 for i, a in enumerate(pl["a"]) if op_local(a) in fw]
            if idx:
                cf = Fn(fx.raw(pl["f"]))
                if _bumps_tag(cf, 0, set(idx), fx, depth + 1) and not _const_return(cf):
                    return True
        if kind == "assign" and pl[2][0] == "bin" and pl[2][1] in ("Add", "AddWithOverflow", "AddUnchecked"):
            a, b = pl[2][2], pl[2][3]
            for x, y in ((a, b), (b, a)):
                cy = op_const(y)
                if cy is not None and cy[0] == 1 and op_local(x) in fw:
                    return True
        if kind == "call" and pl["f"].rsplit("::", 1)[-1] in ("wrapping_add", "checked_add", "saturating_add") and len(pl["a"]) == 2:
            cy = op_const(pl["a"][1])
            if cy is not None and cy[0] == 1 and op_local(pl["a"][0]) in fw:
                return True
    return False


_HELPER_LOAD = {}


def _helper_loads(fx, fid, depth=0):
    """does crate-local `fid` return a value derived from an atomic load it performs?"""
    if fx is None or not fx.has(fid):
        return False
    if fid in _HELPER_LOAD:
        return _HELPER_LOAD[fid]
    _HELPER_LOAD[fid] = False
    cf = Fn(fx.raw(fid))
    locs, sites = cf.backslice([0], max_nodes=200)
    res = any(k == "call" and is_atomic_call(pl) and pl["f"].rsplit("::", 1)[-1] == "load" for _, k, pl in sites)
    if not res and depth < 3:
        res = any(k == "call" and pl.get("loc") and _helper_loads(fx, pl["f"], depth + 1) for _, k, pl in sites)
    _HELPER_LOAD[fid] = res
    return res


def head_loads(fn, l, fx=None):
    """{dest local: line} of the loads of shared state that feed local l: atomic loads in this function and calls of
    crate-local helpers that return a value they loaded atomically"""
    out = {}
    locs, sites = fn.backslice([l])
    for loc, kind, pl in sites:
        if kind != "call":
            continue
        if is_atomic_call(pl) and pl["f"].rsplit("::", 1)[-1] == "load":
            out[pl["d"][0]] = pl["ln"]
        elif pl.get("loc") and _helper_loads(fx, pl["f"]):
            out[pl["d"][0]] = pl["ln"]
    return out


def aba(ctx, fn, rule="R-ABA", fx=None):
    """CAS-pop on an intrusive list must be tag-versioned or lock-covered, and the expected word of the CAS must be
    one snapshot of the head (R-ABA.snapshot): offset and generation taken from two different loads do not date
    from the moment the successor was read"""
    n = 0
    guards = None
    for b, fld, c, cur, new in cas_sites(fn):
        if cur is None or fld is None:
            continue
        # the loaded value(s) that feed `current`
        hl = head_loads(fn, cur, fx)
        loaded = set(hl)
        if not loaded:
            loaded = {cur}
        through = _reads_through(fn, new, loaded)
        if not through:
            continue           # push-style or counter-style CAS: no node read
        n += 1
        tagged = _bumps_tag(fn, new, loaded, fx)
        if guards is None:
            guards = guard_locals(fn)
        locked = bool(guards_live_at(fn, term_loc(fn, b), guards))
        ok = tagged or locked
        if len(hl) > 1 and not locked:
            ctx.obligation(rule + ".snapshot", fn.id, "expected word of CAS on %s" % fld.rsplit("::", 1)[-1], False,
                           sample={"fn": fn.id, "atomic": fld, "loads_feeding_expected": sorted(hl.values())})
            ctx.violation(rule + ".snapshot", fn.id, "CAS expected word assembled from %d loads of %s" % (len(hl), fld.rsplit("::", 1)[-1]),
                          "the value compared by compare_exchange (line %s) is put together from separate loads of the head (lines %s): "
                          "the generation no longer dates from the moment the offset and its successor were read, so pop/pop/push by "
                          "another thread in between goes unnoticed" % (c["ln"], sorted(hl.values())), fn.file, c["ln"])
        elif not locked:
            ctx.obligation(rule + ".snapshot", fn.id, "expected word of CAS on %s" % fld.rsplit("::", 1)[-1], True)
        ctx.obligation(rule, fn.id, "CAS-pop on %s" % fld.rsplit("::", 1)[-1], ok,
                       sample={"fn": fn.id, "atomic": fld, "new_value_reads": through, "version_tag_bumped": tagged,
                               "lock_held": locked, "line": c["ln"]})
        if not ok:
            ctx.violation(rule, fn.id, "untagged CAS-pop on %s" % fld.rsplit("::", 1)[-1],
                          "pop loads %s, reads the successor through it (%s) and installs it with compare_exchange on the bare "
                          "value: if another thread pops and re-pushes the same node in between (ABA) the stale successor is "
                          "installed%s" % (fld, through, ""), fn.file, c["ln"])
    return n


def aba_push_tags(ctx, fns, rule="R-ABA.push", fx=None):
    """for atomics that are popped with a version tag, every other CAS on the same atomic must bump it too"""
    tagged_fields = set()
    allcas = []
    for fn in fns:
        for b, fld, c, cur, new in cas_sites(fn):
            if cur is None or fld is None:
                continue
            loaded = set()
            locs, sites = fn.backslice([cur])
            for loc, kind, pl in sites:
                if kind == "call" and is_atomic_call(pl) and pl["f"].rsplit("::", 1)[-1] == "load":
                    loaded.add(pl["d"][0])
            loaded = loaded or {cur}
            bumps = _bumps_tag(fn, new, loaded, fx)
            pops = bool(_reads_through(fn, new, loaded))
            allcas.append((fn, fld, c, bumps, pops))
            if pops and bumps:
                tagged_fields.add(fld)
    n = 0
    for fn, fld, c, bumps, pops in allcas:
        if fld in tagged_fields and not pops:
            n += 1
            ctx.obligation(rule, fn.id, "CAS on tagged %s" % fld.rsplit("::", 1)[-1], bumps,
                           sample={"fn": fn.id, "atomic": fld, "bumps_tag": bumps, "line": c["ln"]})
            if not bumps:
                ctx.violation(rule, fn.id, "push without tag bump on %s" % fld.rsplit("::", 1)[-1],
                              "%s is popped under a version tag but this compare_exchange installs a new head without "
                              "advancing the tag" % fld, fn.file, c["ln"])
    return n


# ---------------------------------------------------------------- R-LOCKORDER
LOCK_CALLS = {"lock": "w", "write": "w", "read": "r", "lock_arc": "w", "upgradable_read": "w"}


def lock_sites(fn):
    """[(block, lock field, mode, guard local|None, line)] for blocking acquisitions in fn"""
    out = []
    for b, c in fn.calls():
        last = c["f"].rsplit("::", 1)[-1]
        if last not in LOCK_CALLS or not c["a"]:
            continue
        if not re.search(r"Mutex|RwLock|SpinLock|FutexMutex|FutexRwLock", c["f"]):
            continue
        fld = recv_field(fn, c["a"][0])
        if not fld or "::" not in fld:
            continue
        out.append((b, fld, LOCK_CALLS[last], c["d"][0], c["ln"]))
    return out


def _guard_modes(fn, guards):
    """guard local -> mode of the acquisition it came from"""
    modes = {}
    for g in guards:
        locs, sites = fn.backslice([g])
        for loc, kind, pl in sites:
            if kind == "call" and pl["f"].rsplit("::", 1)[-1] in LOCK_CALLS and re.search(r"Mutex|RwLock", pl["f"]):
                modes[g] = LOCK_CALLS[pl["f"].rsplit("::", 1)[-1]]
    return modes


def lock_order(ctx, fx, file, rule="R-LOCKORDER", self_ty_filter=None):
    """lock-order graph of the functions of `file`: an edge A->B means some path acquires B while a
    guard of A is live (directly or through a callee). A cycle whose hold/request modes conflict at
    every lock is a possible deadlock."""
    import re as _re
    fns = {}
    for fid in fx.fn_ids(file):
        if "::tests::" in fid:
            continue
        rec = fx.raw(fid)
        if self_ty_filter and not _re.search(self_ty_filter, rec["self_ty"] or fid):
            continue
        fns[fid] = Fn(rec)
    direct = {fid: lock_sites(fn) for fid, fn in fns.items()}
    # transitive acquire sets (lock, mode)
    acq = {fid: {(l, m) for _, l, m, _, _ in sites} for fid, sites in direct.items()}
    changed = True
    while changed:
        changed = False
        for fid, fn in fns.items():
            for b, c in fn.calls():
                if c["f"] in acq and c["f"] != fid:
                    new = acq[c["f"]] - acq[fid]
                    if new:
                        acq[fid] |= new
                        changed = True
    edges = {}   # (A, B) -> list of (held mode, requested mode, fn, line)
    nacq = 0
    for fid, fn in fns.items():
        guards = guard_locals(fn)
        gm = _guard_modes(fn, guards)
        for b, l2, m2, g2, line in direct[fid]:
            nacq += 1
            live = guards_live_at(fn, term_loc(fn, b), guards)
            for g, l1 in live.items():
                if l1 and l1 != l2:
                    edges.setdefault((l1, l2), []).append((gm.get(g, "w"), m2, fid, line))
        for b, c in fn.calls():
            if c["f"] in acq and c["f"] != fid:
                live = guards_live_at(fn, term_loc(fn, b), guards)
                for g, l1 in live.items():
                    if not l1:
                        continue
                    for l2, m2 in acq[c["f"]]:
                        if l1 != l2:
                            edges.setdefault((l1, l2), []).append((gm.get(g, "w"), m2, fid + " -> " + c["f"].rsplit("::", 1)[-1], c["ln"]))
    ctx.instance(rule + ".acquisitions", nacq)
    ctx.instance(rule + ".order_edges", len(edges))

    def conflict(a, b):
        return not (a == "r" and b == "r")
    reported = set()
    locks = sorted({x for e in edges for x in e})
    for a in locks:
        for b in locks:
            if a >= b or (a, b) not in edges or (b, a) not in edges:
                continue
            for h1, r2, f1, ln1 in edges[(a, b)]:
                for h2, r1, f2, ln2 in edges[(b, a)]:
                    # T1 holds a (h1) wants b (r2); T2 holds b (h2) wants a (r1)
                    if conflict(h1, r1) and conflict(h2, r2):
                        key = (a, b)
                        if key in reported:
                            continue
                        reported.add(key)
                        ctx.obligation(rule, file, "%s <-> %s" % (a.rsplit("::", 1)[-1], b.rsplit("::", 1)[-1]), False,
                                       sample={"lock_a": a, "lock_b": b, "path1": "%s (line %s) holds a[%s] takes b[%s]" % (f1, ln1, h1, r2),
                                               "path2": "%s (line %s) holds b[%s] takes a[%s]" % (f2, ln2, h2, r1)})
                        ctx.violation(rule, f1.split(" -> ")[0], "lock order %s <-> %s" % (a.rsplit("::", 1)[-1], b.rsplit("::", 1)[-1]),
                                      "%s acquires %s while holding %s (line %s) but %s acquires %s while holding %s (line %s): two "
                                      "threads on these paths block each other forever"
                                      % (f1.rsplit("::", 1)[-1], b.rsplit("::", 1)[-1], a.rsplit("::", 1)[-1], ln1,
                                         f2.rsplit("::", 1)[-1], a.rsplit("::", 1)[-1], b.rsplit("::", 1)[-1], ln2), file, ln1)
    for (a, b), es in sorted(edges.items()):
        if (b, a) not in edges:
            ctx.obligation(rule, file, "%s -> %s" % (a.rsplit("::", 1)[-1], b.rsplit("::", 1)[-1]), True, nontrivial=True)
    return edges


# ---------------------------------------------------------------- R-ATOM.lms (load-modify-store)
def load_modify_store(ctx, fns, rule="R-ATOM.lms"):
    """an atomic that is updated somewhere by `store(f(load()))` is only safe if every other
    modification of the same atomic holds a lock in common with it"""
    mods = {}     # field -> [(fn, block, op, locks held, is_lms, line)]
    for fn in fns:
        sites = atomic_sites(fn)
        guards = guard_locals(fn)
        for b, op, fld, c in sites:
            if not fld or op not in ATOMIC_RMW:
                continue
            held = {v for v in guards_live_at(fn, term_loc(fn, b), guards).values() if v}
            is_lms = False
            if op == "store" and len(c["a"]) >= 2:
                l = op_local(c["a"][1])
                if l is not None:
                    locs, ss = fn.backslice([l], max_nodes=60)
                    for loc, kind, pl in ss:
                        # `swap` hands out the old value like a load does: detach-all, keep some, store the rest back
                        if kind == "call" and is_atomic_call(pl) and (pl["f"].endswith("::load") or pl["f"].endswith("::swap")) and \
                                recv_field(fn, pl["a"][0]) == fld:
                            is_lms = True
            mods.setdefault(fld, []).append((fn, b, op, held, is_lms, c["ln"]))
    n = 0
    for fld, ms in mods.items():
        lms = [m for m in ms if m[4]]
        for m in lms:
            n += 1
            others = [o for o in ms if o is not m]
            bad = [o for o in others if not (o[3] & m[3])]
            # with no lock held and a shared (`&self`) receiver the load/store pair also races with itself:
            # two threads running this very function lose each other's update
            shared_self = m[0].nargs >= 1 and m[0].ty(1).startswith("&") and not m[0].ty(1).startswith("&mut")
            if not m[3] and shared_self and not bad:
                bad = [m]
            ok = not bad
            ctx.obligation(rule, m[0].id, "store(load+..) on %s" % fld.rsplit("::", 1)[-1], ok,
                           sample={"fn": m[0].id, "atomic": fld, "line": m[5], "locks_held": sorted(m[3]),
                                   "unsynchronised_writers": [(o[0].id.rsplit("::", 1)[-1], o[2], o[5]) for o in bad][:4]})
            if not ok:
                o = bad[0]
                ctx.violation(rule, m[0].id, "non-atomic increment of %s" % fld.rsplit("::", 1)[-1],
                              "%s is updated by a separate load and store (line %d) while %s performs %s on it (line %d) without "
                              "a common lock: an update that lands between the load and the store is lost"
                              % (fld, m[5], o[0].id.rsplit("::", 1)[-1], o[2], o[5]), m[0].file, m[5])
    return n


# ---------------------------------------------------------------- R-COMMIT
def _callee_refuses_on(fx, cc, fn, fw):
    """crate-local callee that compares the parameter receiving a value from `fw` and can only fail on one outcome"""
    from rules.pair import err_blocks
    if fx is None or not fx.has(cc["f"]):
        return False
    pos = [i for i, a in enumerate(cc["a"]) if op_local(a) is not None and op_local(a) in fw]
    if not pos:
        return False
    hf = Fn(fx.raw(cc["f"]))
    heb = err_blocks(hf)
    for i in pos:
        pw = hf.forward_locals([i + 1]) | {i + 1}
        for loc, st in hf.iter_locs():
            if st[0] == "a" and st[2][0] == "bin" and st[2][1] in ("Lt", "Le", "Gt", "Ge", "Eq", "Ne") and len(st[1]) == 1 and \
                    (op_local(st[2][2]) in pw or op_local(st[2][3]) in pw):
                for sb in hf.blocks():
                    t = hf.term(sb)
                    if t[0] == "sw" and op_local(t[1]) == st[1][0]:
                        succs = hf.succ(sb)
                        if any(x in heb for x in succs) and any(x not in heb for x in succs):
                            return True
    return False


def commit_before_check(ctx, fn, fields_rx=None, rule="R-COMMIT", fx=None):
    """an atomic read-modify-write (fetch_add / fetch_sub / swap) whose returned value then decides a refusal (an edge
    that can only end in Err / None) has already changed the shared state when the refusal is taken: unless the refusing
    path undoes it on the same atomic, a refused request still consumes the resource"""
    import re as _re
    from rules.pair import err_blocks
    frx = _re.compile(fields_rx) if fields_rx else None
    sites = [(b, op, fld, c) for b, op, fld, c in atomic_sites(fn)
             if op in ("fetch_add", "fetch_sub", "swap", "fetch_or", "fetch_and") and (frx is None or (fld and frx.search(fld)))]
    if not sites:
        return 0
    eb = err_blocks(fn)
    # also blocks that build Option::None for the return place
    n = 0
    for b, op, fld, c in sites:
        d = c["d"][0]
        # the decision may be delegated to a crate-local helper that turns the value into a Result / Option / bool
        # (a helper that merely receives the value and fails for other reasons - an allocation - does not count)
        plain = fn.forward_locals([d], call_through=lambda cc: not cc.get("loc")) | {d}

        def _thru(cc):
            return not cc.get("loc") or _callee_refuses_on(fx, cc, fn, plain)
        fw = fn.forward_locals([d], call_through=_thru)
        decides = None
        for sb in fn.blocks():
            t = fn.term(sb)
            if t[0] != "sw" or sb == b:
                continue
            l = op_local(t[1])
            if l is None:
                continue
            if l not in fw and not (fn.backslice([l], call_through=_thru, max_nodes=60)[0] & (fw | {d})):
                continue
            if not fn.reachable_from([c["t"]] if c.get("t") is not None else fn.succ(b)).__contains__(sb):
                continue
            succs = fn.succ(sb)
            refusing = [s for s in succs if s in eb]
            passing = [s for s in succs if s not in eb]
            if refusing and passing:
                decides = (sb, refusing, t[4] if len(t) > 4 else None)
                break
        if decides is None:
            continue
        n += 1
        sb, refusing, line = decides
        region = fn.reachable_from(refusing)
        undone = False
        for b2, op2, fld2, c2 in atomic_sites(fn):
            if b2 in region and fld2 == fld and op2 in ("fetch_sub", "fetch_add", "store", "compare_exchange", "compare_exchange_weak", "swap"):
                undone = True
        ctx.obligation(rule, fn.id, "%s on %s decides a refusal" % (op, (fld or "?").rsplit("::", 1)[-1]), undone,
                       sample={"fn": fn.id, "atomic": fld, "op": op, "line": c["ln"], "refusal_line": line, "undone_on_refusal": undone})
        if not undone:
            ctx.violation(rule, fn.id, "%s on %s committed before the capacity test" % (op, (fld or "?").rsplit("::", 1)[-1]),
                          "%s.%s (line %s) has already advanced the shared value when the test at line %s refuses the request, and "
                          "the refusing path does not undo it: refused requests consume the resource and repeated refusals can wrap "
                          "the cursor back onto live blocks" % ((fld or "?").rsplit("::", 1)[-1], op, c["ln"], line), fn.file, c["ln"])
    return n


# ---------------------------------------------------------------- R-ABA.relink
def push_relink(ctx, fn, rule="R-ABA.relink", fx=None):
    """CAS-push on an intrusive list: the freed node's link must be rewritten with the head value of *this* attempt.
    For every push-style compare_exchange that sits in a retry loop, a store of a head-derived value into memory
    (`node.next = head`, `*ptr = offset_of(head)`) must lie inside that loop. Written once before the loop, the link
    still names the head of the first attempt after a retry: the nodes pushed or popped in between are lost or
    handed out twice."""
    from rules.prune import natural_loops
    n = 0
    loops = None
    for b, fld, c, cur, new in cas_sites(fn):
        if cur is None or fld is None:
            continue
        hl = head_loads(fn, cur, fx)
        loaded = set(hl) or {cur}
        if _reads_through(fn, new, loaded):
            continue            # pop-style
        if loops is None:
            loops = natural_loops(fn)
        inside = [(h, body) for h, body in loops if b in body]
        if not inside:
            continue
        fw = fn.forward_locals(loaded | {cur})
        links = []
        for (sb, i), st in fn.iter_locs():
            if st[0] == "a" and len(st[1]) > 1 and "*" in st[1][1:]:
                for o in rv_operands(st[2]):
                    if op_local(o) in fw and op_const(o) is None:
                        links.append((sb, st[3]))
            elif st[0] == "call":
                cc = st[1]
                last = cc["f"].rsplit("::", 1)[-1]
                if last in ("write", "write_unaligned", "write_volatile", "store") and len(cc["a"]) >= 2 and not (
                        is_atomic_call(cc) and recv_field(fn, cc["a"][0]) == fld):
                    if op_local(cc["a"][1]) in fw:
                        links.append((sb, cc["ln"]))
        if not links:
            continue
        n += 1
        body = set().union(*[bd for _, bd in inside])
        ok = any(sb in body for sb, _ in links)
        ctx.obligation(rule, fn.id, "push on %s relinks inside the retry loop" % fld.rsplit("::", 1)[-1], ok,
                       sample={"fn": fn.id, "atomic": fld, "link_store_lines": sorted({ln for _, ln in links})[:4], "cas_line": c["ln"]})
        if not ok:
            ctx.violation(rule, fn.id, "link written outside the CAS retry loop of %s" % fld.rsplit("::", 1)[-1],
                          "the pushed node's link (line %s) is written once before the compare_exchange loop (CAS at line %s): after a "
                          "failed attempt the node still points at the head of the first attempt" % (links[0][1], c["ln"]),
                          fn.file, links[0][1])
    return n


# ---------------------------------------------------------------- R-LOCKSPLIT
def lock_split(ctx, fn, rule="R-LOCKSPLIT", fx=None):
    """check-then-act across two critical sections of one lock: a value read under a guard of lock L decides a branch,
    the guard is released, and the branch re-acquires L to write. Two threads can both see the old value and both act
    (double initialisation). The read, the decision and the write have to sit under one guard."""
    sites = lock_sites(fn)
    byf = {}
    for b, fld, mode, g, line in sites:
        byf.setdefault(fld, []).append((b, mode, g, line))
    # a crate-local `&self` helper that takes the lock, reads and returns a plain value (`self.stats()`) is a first
    # critical section too: the value it returns was read under a guard that is gone when the caller looks at it
    if fx is not None and byf:
        for b, c in fn.calls():
            if not (c.get("loc") and fx.has(c["f"]) and c["a"]) or "Guard" in fn.ty(c["d"][0]):
                continue
            a0 = op_local(c["a"][0])
            if a0 is None or not (a0 == 1 or 1 in fn.backslice([a0], max_nodes=8)[0]):
                continue
            hf = Fn(fx.raw(c["f"]))
            for hb, hfld, hmode, hg, hline in lock_sites(hf):
                if hfld in byf:
                    byf[hfld].append((b, "r", c["d"][0], c["ln"]))
    n = 0
    guards = None
    for fld, ss in byf.items():
        if len(ss) < 2:
            continue
        for b1, m1, g1, l1 in ss:
            for b2, m2, g2, l2 in ss:
                if b1 == b2 or not fn.dominates(b1, b2) or m2 != "w":
                    continue
                # value(s) read through the first guard
                fw = fn.forward_locals([g1]) if g1 is not None else set()
                if not fw:
                    continue
                decides = None
                for sb in fn.blocks():
                    t = fn.term(sb)
                    if t[0] != "sw" or not fn.dominates(b1, sb) or not fn.dominates(sb, b2) or sb in (b1, b2):
                        continue
                    l = op_local(t[1])
                    if l is None or l not in fw or fn.ty(l) not in ("bool", "u8", "u32", "u64", "usize", "isize"):
                        continue
                    # a discriminant of the lock() Result itself (poison check) is not a decision on protected data
                    ds = fn.defs(l)
                    if ds and all(d[1] == "assign" and d[2][2][0] == "disc" for d in ds):
                        continue
                    decides = sb
                if decides is None:
                    continue
                if guards is None:
                    guards = guard_locals(fn)
                live = guards_live_at(fn, term_loc(fn, b2), guards)
                still_held = any(f == fld for g, f in live.items() if g != g2)
                n += 1
                ok = still_held
                ctx.obligation(rule, fn.id, "second lock of %s (line %s)" % (fld.rsplit("::", 1)[-1], l2), ok,
                               sample={"fn": fn.id, "lock": fld, "first_line": l1, "second_line": l2, "first_guard_still_held": still_held})
                if not ok:
                    ctx.violation(rule, fn.id, "check under %s, act under a second acquisition" % fld.rsplit("::", 1)[-1],
                                  "a value read under the guard taken at line %s decides a branch; the guard is released and the branch "
                                  "takes %s again at line %s to write: two threads can both pass the check before either writes"
                                  % (l1, fld.rsplit("::", 1)[-1], l2), fn.file, l2)
    return n


# ---------------------------------------------------------------- R-INFLIGHT
def inc_dec_pairing(ctx, fn, rule="R-INFLIGHT", fields_rx=None):
    """an in-flight counter that a function both increments and decrements (fetch_add / fetch_sub on the same atomic)
    is decremented on every path from the increment to the next increment, to a normal return or to the loop's exit:
    a `continue`/`break` taken between the two leaves the counter up for good (the executor never looks idle again)."""
    import re as _re
    frx = _re.compile(fields_rx) if fields_rx else None
    sites = atomic_sites(fn)
    by = {}
    for b, op, fld, c in sites:
        if fld and op in ("fetch_add", "fetch_sub") and (frx is None or frx.search(fld)):
            k = op_const(c["a"][1]) if len(c["a"]) > 1 else None
            if k is not None and k[0] == 1:
                by.setdefault(fld, {"fetch_add": [], "fetch_sub": []})[op].append((b, c))
    n = 0
    rets = [b for b in fn.blocks() if fn.term(b)[0] == "ret"]
    for fld, d in by.items():
        if not d["fetch_add"] or not d["fetch_sub"]:
            continue
        subs = [b for b, _ in d["fetch_sub"]]
        for a, c in d["fetch_add"]:
            n += 1
            start = [c["t"]] if c.get("t") is not None else fn.succ(a)
            reach = fn.reachable_from(start, avoid=subs)
            bad = None
            if a in reach:
                bad = "the next iteration"
            elif any(r in reach for r in rets):
                bad = "a return"
            ctx.obligation(rule, fn.id, "%s incremented@%s is decremented on every path" % (fld.rsplit("::", 1)[-1], c["ln"]), bad is None,
                           sample={"fn": fn.id, "counter": fld, "inc_line": c["ln"], "dec_lines": sorted(cc["ln"] for _, cc in d["fetch_sub"])})
            if bad:
                ctx.violation(rule, fn.id, "%s left incremented" % fld.rsplit("::", 1)[-1],
                              "%s is incremented at line %s and a path reaches %s without passing any of its decrements (lines %s): "
                              "the count of items in flight never returns to zero" %
                              (fld.rsplit("::", 1)[-1], c["ln"], bad, sorted(cc["ln"] for _, cc in d["fetch_sub"])), fn.file, c["ln"])
    return n


# ------------------------------------------------------------------ R-COUNT.rmw
def counter_only_rmw(ctx, fx, file, struct_path, fields, rule="R-COUNT.rmw", only=None, constructors=("new", "default")):
    """A counter of live objects (one +1 per acquire, one -1 per release) is only ever changed by read-modify-write steps.
    A plain `store` / `swap` of a value into it outside the constructor overwrites the contribution of every other live
    object: the reported count no longer equals the number of live tokens and whatever is derived from `count == 0`
    (advancing the reclamation threshold) fires while tokens are live."""
    from rules.queue import field_of_receiver
    rmw = n = 0
    for fid in fx.fn_ids(file):
        last = fid.rsplit("::", 1)[-1]
        if "::tests::" in fid or (only and not only(fid)):
            continue
        fn = Fn(fx.raw(fid))
        for b, c in fn.calls():
            m = re.search(r"atomic::Atomic\w*(::<[^>]*>)?::(\w+)$", c["f"])
            if not m or not c["a"]:
                continue
            r = op_local(c["a"][0])
            if r is None:
                continue
            flds = field_of_receiver(fn, r, struct_path) & set(fields)
            if not flds:
                continue
            op = m.group(2)
            if op in ("fetch_add", "fetch_sub", "compare_exchange", "compare_exchange_weak", "fetch_update"):
                rmw += 1
                continue
            if op not in ("store", "swap") or last in constructors:
                continue
            n += 1
            ctx.analysed_fns.add(fid)
            f = sorted(flds)[0]
            ctx.obligation(rule, fid, "%s changed by RMW only" % f, False, sample={"fn": fid, "field": f, "op": op, "line": c["ln"]})
            ctx.violation(rule, fid, "%s overwritten with %s()" % (f, op),
                          "%s counts live tokens (+1 per acquire, -1 per release); %s() at line %s overwrites the contribution of every "
                          "other live token, so the count - and the minimum version advanced when it reads 0 - is wrong as soon as two "
                          "tokens are live" % (f, op, c["ln"]), fn.file, c["ln"])
    ctx.instance(rule + ".rmw_sites", rmw)
    ctx.instance(rule + ".plain_writes", n)
    if rmw:
        ctx.obligation(rule, struct_path, "counters %s: %d RMW sites, %d plain writes" % ("/".join(fields), rmw, n), n == 0,
                       sample={"struct": struct_path, "fields": list(fields), "rmw_sites": rmw, "plain_writes": n})
    return rmw
