"""R-TAGKIND: in a tagged frame the tag byte says what was done to the payload, so tag and payload kind must go together.

sites   : calls to the framing helper (`tagged(tag, payload)`) in the file, reached directly or through one more
          crate-local helper that forwards its byte parameter as the payload
kind    : I when the payload reaches the site through copies / identity codecs only, T when it passed a transforming
          call (rules/sym.py path kinds; `dyn` fields devirtualised by who-may-write)
tag     : the constant(s) the tag operand can hold at the site
rule    : the relation {(tag, kind)} over all sites is a function in both directions. A helper that picks the tag from
          object state while its callers pass both raw and compressed payloads produces (COMPRESSED, I): the reader then
          hands raw bytes to the decompressor. A tag that depends on a parameter of the helper is left to the callers
          (not reported).
"""
import re

from vlib.mir import Fn, op_local, op_const, op_place
from rules import sym


def _consts(fn, l, depth=0):
    """set of integer constants local l can hold, or None if it is not a pure choice between constants;
    'param' if it derives from a parameter"""
    if l is None or depth > 6:
        return None
    if 1 <= l <= fn.nargs:
        return "param"
    out = set()
    for loc, kind, pl in fn.defs(l):
        if kind != "assign" or len(pl[1]) != 1:
            return None
        rv = pl[2]
        if rv[0] == "use":
            k = op_const(rv[1])
            if k is not None and isinstance(k[0], int):
                out.add(k[0])
                continue
            p = op_place(rv[1])
            if p and len(p) == 1:
                r = _consts(fn, p[0], depth + 1)
                if r == "param" or r is None:
                    return r
                out |= r
                continue
        return None
    return out or None


def _kinds_of(state, l):
    ks = set()
    for k in state.get(l, ()):
        ks.add("T" if k else "I")
    return ks


def run(ctx, fx, file, framer_rx=r"::tagged$", rule="R-TAGKIND", only=None):
    fl = sym.Flow(fx)
    rx = re.compile(framer_rx)
    fns = {}
    for fid in fx.fn_ids(file):
        if "::tests::" in fid or (only and not only(fid)):
            continue
        for k in range(fx.count(fid)):
            fns[(fid, k)] = Fn(fx.raw(fid, k))

    def byte_sources(fn):
        return [l for l in range(1, len(fn.locals)) if fn.ty(l) in ("&[u8]", "&'{erased} [u8]") and
                (l <= fn.nargs or not fn.defs(l) or all(d[1] != "call" for d in fn.defs(l)))]

    def site_kinds(fn, payload_local):
        src = [l for l in range(1, len(fn.locals)) if fn.ty(l) == "&[u8]" and (l <= fn.nargs or l in _env_like(fn))]
        if not src:
            src = byte_sources(fn)
        _, state = fl.kinds(fn, src, lambda *a: False)
        return _kinds_of(state, payload_local), src

    def _env_like(fn):
        # coroutine bodies load their captured &[u8] from the environment: locals of type &[u8] defined by a field load
        out = set()
        for l in range(fn.nargs + 1, len(fn.locals)):
            if fn.ty(l) == "&[u8]":
                ds = fn.defs(l)
                if ds and all(d[1] == "assign" and d[2][2][0] == "use" and op_place(d[2][2][1]) and len(op_place(d[2][2][1])) > 1
                              for d in ds):
                    out.add(l)
        return out

    pairs = []      # (tag, kind, fn id, line)
    nsites = 0
    for (fid, k), fn in fns.items():
        for b, c in fn.calls():
            if not rx.search(c["f"]) or len(c["a"]) < 2:
                continue
            nsites += 1
            ctx.analysed_fns.add(fid)
            tk = op_const(c["a"][0])
            tags = {tk[0]} if tk is not None else _consts(fn, op_local(c["a"][0]))
            pl = op_local(c["a"][1])
            kinds, src = site_kinds(fn, pl)
            forwards_param = pl is not None and any(1 <= s <= fn.nargs for s in src) and kinds == {"I"} and \
                any(s in fn.backslice([pl], max_nodes=60)[0] for s in src if 1 <= s <= fn.nargs) and "{closure" not in fid
            if tags == "param":
                ctx.note("%s: tag is a parameter of %s, correlation left to its callers" % (rule, fid))
                continue
            if tags is None:
                pairs.append(("?", "?", fid, c["ln"]))
                continue
            if forwards_param and len(tags) > 1:
                # helper that frames its parameter: the payload kinds are those of its callers
                ck = set()
                for (cfid, ck_), cfn in fns.items():
                    for b2, c2 in cfn.calls():
                        if c2["f"] == fid:
                            for a in c2["a"]:
                                la = op_local(a)
                                if la is not None and "[u8]" in cfn.ty(la):
                                    ks, _ = site_kinds(cfn, la)
                                    ck |= ks
                kinds = ck or kinds
            for t in sorted(tags):
                for kd in sorted(kinds) or ["?"]:
                    pairs.append((t, kd, fid, c["ln"]))
    by_tag, by_kind = {}, {}
    for t, kd, fid, ln in pairs:
        by_tag.setdefault(t, set()).add(kd)
        by_kind.setdefault(kd, set()).add(t)
    bad = [(t, ks) for t, ks in by_tag.items() if len(ks) > 1 or "?" in ks or t == "?"]
    bad2 = [(kd, ts) for kd, ts in by_kind.items() if len(ts) > 1 and kd != "?"]
    ok = not bad and not bad2 and bool(pairs)
    ctx.obligation(rule, file, "tag <-> payload kind is one-to-one", ok,
                   sample={"file": file, "sites": nsites, "pairs": sorted({(str(t), kd) for t, kd, _, _ in pairs})})
    if not ok and pairs:
        t, ks = (bad or [(None, None)])[0]
        where = [(fid, ln) for tt, kd, fid, ln in pairs if tt == t] or [(pairs[0][2], pairs[0][3])]
        msg = ("tag %s is written in front of payloads of kinds %s" % (t, sorted(ks))) if bad else \
            ("payload kind %s is written under tags %s" % (bad2[0][0], sorted(bad2[0][1])))
        ctx.violation(rule, where[0][0], "tag does not determine the payload kind",
                      "%s (I = raw/identity, T = transformed by a codec): the reader picks the inverse by the tag alone, so one of "
                      "these frames is decoded with the wrong codec" % msg, file, where[0][1])
    ctx.instance(rule + ".sites", nsites)
    return nsites
