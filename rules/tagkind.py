"""R-TAGKIND: in a tagged frame the tag byte says what was done to the payload, so tag and payload kind must go together.

sites   : calls to the framing helper (`tagged(tag, payload)`) in the file, reached directly or through one more
          crate-local helper that forwards its byte parameter as the payload
kind    : I when the payload reaches the site through copies / identity codecs only, T when it passed a transforming
          call (rules/sym.py path kinds; `dyn` fields devirtualised by who-may-write)
tag     : the constant(s) the tag operand can hold at the site
rule    : the relation {(tag, kind)} over all sites is a function in both directions. A helper that picks the tag from
          object state while its callers pass both raw and compressed payloads produces (COMPRESSED, I): the reader then
          hands raw bytes to the decompressor. A tag that depends on a parameter of the helper is left to the callers
          (not reported).
"""
import re

from vlib.mir import Fn, op_local, op_const, op_place
from rules import sym


def _consts(fn, l, depth=0):
    """set of integer constants local l can hold, or None if it is not a pure choice between constants;
    'param' if it derives from a parameter"""
    if l is None or depth > 6:
        return None
    if 1 <= l <= fn.nargs:
        return "param"
    out = set()
    for loc, kind, pl in fn.defs(l):
        if kind != "assign" or len(pl[1]) != 1:
            return None
        rv = pl[2]
        if rv[0] == "use":
            k = op_const(rv[1])
            if k is not None and isinstance(k[0], int):
                out.add(k[0])
                continue
            p = op_place(rv[1])
            if p and len(p) == 1:
                r = _consts(fn, p[0], depth + 1)
                if r == "param" or r is None:
                    return r
                out |= r
                continue
        return None
    return out or None


def _kinds_of(state, l):
    ks = set()
    for k in state.get(l, ()):
        ks.add("T" if k else "I")
    return ks


def run(ctx, fx, file, framer_rx=r"::tagged$", rule="R-TAGKIND", only=None):
    fl = sym.Flow(fx)
    rx = re.compile(framer_rx)
    fns = {}
    for fid in fx.fn_ids(file):
        if "::tests::" in fid or (only and not only(fid)):
            continue
        for k in range(fx.count(fid)):
            fns[(fid, k)] = Fn(fx.raw(fid, k))

    def byte_sources(fn):
        return [l for l in range(1, len(fn.locals)) if fn.ty(l) in ("&[u8]", "&'{erased} [u8]") and
                (l <= fn.nargs or not fn.defs(l) or all(d[1] != "call" for d in fn.defs(l)))]

    def site_kinds(fn, payload_local):
        src = [l for l in range(1, len(fn.locals)) if fn.ty(l) == "&[u8]" and (l <= fn.nargs or l in _env_like(fn))]
        if not src:
            src = byte_sources(fn)
        _, state = fl.kinds(fn, src, lambda *a: False)
        return _kinds_of(state, payload_local), src

    def _env_like(fn):
        # coroutine bodies load their captured &[u8] from the environment: locals of type &[u8] defined by a field load
        out = set()
        for l in range(fn.nargs + 1, len(fn.locals)):
            if fn.ty(l) == "&[u8]":
                ds = fn.defs(l)
                if ds and all(d[1] == "assign" and d[2][2][0] == "use" and op_place(d[2][2][1]) and len(op_place(d[2][2][1])) > 1
                              for d in ds):
                    out.add(l)
        return out

    pairs = []      # (tag, kind, fn id, line)
    nsites = 0
    for (fid, k), fn in fns.items():
        for b, c in fn.calls():
            if not rx.search(c["f"]) or len(c["a"]) < 2:
                continue
            nsites += 1
            ctx.analysed_fns.add(fid)
            tk = op_const(c["a"][0])
            tags = {tk[0]} if tk is not None else _consts(fn, op_local(c["a"][0]))
            pl = op_local(c["a"][1])
            kinds, src = site_kinds(fn, pl)
            forwards_param = pl is not None and any(1 <= s <= fn.nargs for s in src) and kinds == {"I"} and \
                any(s in fn.backslice([pl], max_nodes=60)[0] for s in src if 1 <= s <= fn.nargs) and "{closure" not in fid
            if tags == "param":
                ctx.note("%s: tag is a parameter of %s, correlation left to its callers" % (rule, fid))
                continue
            if tags is None:
                pairs.append(("?", "?", fid, c["ln"]))
                continue
            if forwards_param and len(tags) > 1:
                # helper that frames its parameter: the payload kinds are those of its callers
                ck = set()
                for (cfid, ck_), cfn in fns.items():
                    for b2, c2 in cfn.calls():
                        if c2["f"] == fid:
                            for a in c2["a"]:
                                la = op_local(a)
                                if la is not None and "[u8]" in cfn.ty(la):
                                    ks, _ = site_kinds(cfn, la)
                                    ck |= ks
                kinds = ck or kinds
            for t in sorted(tags):
                for kd in sorted(kinds) or ["?"]:
                    pairs.append((t, kd, fid, c["ln"]))
    by_tag, by_kind = {}, {}
    for t, kd, fid, ln in pairs:
        by_tag.setdefault(t, set()).add(kd)
        by_kind.setdefault(kd, set()).add(t)
    bad = [(t, ks) for t, ks in by_tag.items() if len(ks) > 1 or "?" in ks or t == "?"]
    bad2 = [(kd, ts) for kd, ts in by_kind.items() if len(ts) > 1 and kd != "?"]
    ok = not bad and not bad2 and bool(pairs)
    ctx.obligation(rule, file, "tag <-> payload kind is one-to-one", ok,
                   sample={"file": file, "sites": nsites, "pairs": sorted({(str(t), kd) for t, kd, _, _ in pairs})})
    if not ok and pairs:
        t, ks = (bad or [(None, None)])[0]
        where = [(fid, ln) for tt, kd, fid, ln in pairs if tt == t] or [(pairs[0][2], pairs[0][3])]
        msg = ("tag %s is written in front of payloads of kinds %s" % (t, sorted(ks))) if bad else \
            ("payload kind %s is written under tags %s" % (bad2[0][0], sorted(bad2[0][1])))
        ctx.violation(rule, where[0][0], "tag does not determine the payload kind",
                      "%s (I = raw/identity, T = transformed by a codec): the reader picks the inverse by the tag alone, so one of "
                      "these frames is decoded with the wrong codec" % msg, file, where[0][1])
    ctx.instance(rule + ".sites", nsites)
    return nsites


# ------------------------------------------------------------------ R-TAGKIND.record
def _canon(fn, l, depth=0):
    """root local of a chain of plain copies"""
    while l is not None and depth < 8:
        ds = fn.defs(l)
        if len(ds) == 1 and ds[0][1] == "assign" and ds[0][2][2][0] == "use" and len(ds[0][2][1]) == 1:
            p = op_place(ds[0][2][2][1])
            if p and len(p) == 1:
                l = p[0]
                depth += 1
                continue
        break
    return l


def _gate(fn, x):
    """for a local with several defs, each under a different outcome of one switch: (cond root, {value: def}); else None"""
    ds = [d for d in fn.defs(x) if d[1] in ("assign", "call")]
    if len(ds) < 2:
        return None
    for s in fn.blocks():
        t = fn.term(s)
        if t[0] != "sw":
            continue
        edges = [(int(v), tgt) for v, tgt in t[2]] + [("else", t[3])]
        got = {}
        for d in ds:
            b = d[0][0]
            under = [v for v, tgt in edges if len(fn.pred(tgt)) == 1 and fn.dominates(tgt, b)]
            if len(under) != 1:
                got = None
                break
            if under[0] in got:
                got = None
                break
            got[under[0]] = d
        if got:
            c = _canon(fn, op_local(t[1]))
            # a two-way switch on a bool: the `else` edge is the value the explicit edge is not
            vals = {v for v, _ in edges if v != "else"}
            if "else" in got and vals <= {0, 1} and len(vals) == 1:
                got[1 - next(iter(vals))] = got.pop("else")
            return c, got
    return None


def record_sites(ctx, fx, fid, struct_path, payload_field, tag_fields, rule="R-TAGKIND.record"):
    """the record a store keeps per blob carries the payload next to flags that say how to undo it. Over every place the
    record is built in `fid` - split by the outcome of the conditions that select its operands, so that
    `if c { a } else { b }` fields are correlated - a payload that is the caller's bytes unchanged (kind I) goes with
    constant flags, the same at every such place, and no transformed payload (kind T) is filed under those flags."""
    if "/" in fid:
        # a file: every function in it that builds the record from a byte-slice parameter is a site holder
        # (the construction may have been moved out of `put` into a helper)
        n = 0
        for f2 in fx.fn_ids(fid):
            if "::tests::" in f2 or "{closure" in f2:
                continue
            f2n = Fn(fx.raw(f2))
            if not any(f2n.ty(l) in ("&[u8]", "&'{erased} [u8]") for l in range(1, f2n.nargs + 1)):
                continue
            if any(st[0] == "a" and st[2][0] == "agg" and isinstance(st[2][1], str) and st[2][1].startswith("adt:" + struct_path + "::")
                   for loc, st in f2n.iter_locs()):
                n += record_sites(ctx, fx, f2, struct_path, payload_field, tag_fields, rule)
        return n
    fn = Fn(fx.raw(fid))
    adt = fx.adts.get(struct_path)
    names = [f[0] for f in adt["variants"][0]["fields"]]
    pi = names.index(payload_field)
    tis = [names.index(t) for t in tag_fields]
    fl = sym.Flow(fx)
    src = [l for l in range(1, fn.nargs + 1) if fn.ty(l) in ("&[u8]", "&'{erased} [u8]")]
    _, state = fl.kinds(fn, src, lambda *a: False)

    def kinds_of_local(l):
        return {"T" if k else "I" for k in state.get(l, ())}

    def resolve(o, A, want, depth=0):
        """want='tag' -> ('const', v) | ('var', None);  want='kind' -> set of kinds. A: assumptions {cond root: value}"""
        k = op_const(o)
        if k is not None:
            return ("const", k[0]) if want == "tag" else set()
        l = op_local(o)
        if l is None or depth > 10:
            return ("var", None) if want == "tag" else set()
        if want == "tag" and _canon(fn, l) in A:
            return ("const", A[_canon(fn, l)])
        g = _gate(fn, l)
        ds = fn.defs(l)
        if g and g[0] in A and A[g[0]] in g[1]:
            ds = [g[1][A[g[0]]]]
        if len(ds) != 1:
            return ("var", None) if want == "tag" else kinds_of_local(l)
        d = ds[0]
        if d[1] == "assign":
            rv = d[2][2]
            if rv[0] == "use":
                return resolve(rv[1], A, want, depth + 1)
            if rv[0] == "agg" and isinstance(rv[1], str) and not rv[2]:
                return ("const", rv[1].rsplit("::", 1)[-1]) if want == "tag" else set()
            return ("var", None) if want == "tag" else kinds_of_local(l)
        if d[1] == "call":
            if want == "tag":
                return ("var", None)
            c = d[2]
            if c["f"].rsplit("::", 1)[-1] in sym.IDENT_CALLS and c["a"]:
                return resolve(c["a"][0], A, want, depth + 1)
            return kinds_of_local(l)
        return ("var", None) if want == "tag" else kinds_of_local(l)

    def gates_under(o, seen, depth=0):
        l = op_local(o)
        if l is None or l in seen or depth > 10:
            return {}
        seen.add(l)
        out = {}
        g = _gate(fn, l)
        if g:
            out[g[0]] = set(g[1])
            for d in g[1].values():
                if d[1] == "assign" and d[2][2][0] == "use":
                    out.update(gates_under(d[2][2][1], seen, depth + 1))
        else:
            for d in fn.defs(l):
                if d[1] == "assign" and d[2][2][0] == "use":
                    out.update(gates_under(d[2][2][1], seen, depth + 1))
        return out

    sites = []
    for loc, st in fn.iter_locs():
        if not (st[0] == "a" and st[2][0] == "agg" and isinstance(st[2][1], str) and st[2][1].startswith("adt:" + struct_path + "::")):
            continue
        ops = st[2][2]
        if len(ops) != len(names):
            continue
        gs = {}
        for i in [pi] + tis:
            gs.update(gates_under(ops[i], set()))
        conds = sorted(gs, key=str)
        combos = [{}]
        for c in conds:
            combos = [{**A, c: v} for A in combos for v in sorted(gs[c], key=str)]
        for A in combos[:16]:
            kinds = resolve(ops[pi], A, "kind")
            tags = tuple(resolve(ops[i], A, "tag") for i in tis)
            sites.append((st[3], A, frozenset(kinds), tags))
    ctx.analysed_fns.add(fid)
    ident = [s for s in sites if s[2] == frozenset({"I"})]
    bad = None
    for ln, A, kinds, tags in sites:
        if "I" in kinds and any(t[0] != "const" for t in tags):
            which = [tag_fields[i] for i, t in enumerate(tags) if t[0] != "const"]
            bad = (ln, "the caller's bytes are stored unchanged%s but %s is not a constant there"
                   % (" (when %s)" % ", ".join("%s = %s" % (fn.local_name(c) or c, v) for c, v in A.items()) if A else "", "/".join(which)))
            break
    if bad is None and ident:
        ref = ident[0][3]
        for ln, A, kinds, tags in sites:
            if kinds == frozenset({"I"}) and tags != ref:
                bad = (ln, "raw payloads are filed under different flags at different places (%s vs %s)" % (tags, ref))
                break
            if kinds == frozenset({"T"}) and tags == ref:
                bad = (ln, "a transformed payload is filed under the flags of a raw one %s" % (ref,))
                break
    ok = bad is None and bool(sites)
    ctx.obligation(rule, fid, "flags of %s determine what was done to %s" % (struct_path.rsplit("::", 1)[-1], payload_field), ok,
                   sample={"fn": fid, "sites": [(ln, sorted(k), [t[1] if t[0] == "const" else "var" for t in tags]) for ln, A, k, tags in sites][:8]})
    if not ok:
        ctx.violation(rule, fid, "flags do not follow the payload",
                      "%s builds %s where %s: the reader undoes the payload by the flags alone and applies the wrong inverse"
                      % (fid.rsplit("::", 1)[-1], struct_path.rsplit("::", 1)[-1], bad[1] if bad else "no construction site was found"),
                      fn.file, bad[0] if bad else fn.line)
    ctx.instance(rule + ".sites", len(sites))
    return len(sites)
