"""Tag agreement: a function mapping an integer tag to an enum variant must map k to the variant
whose discriminant is k (the writer emits `variant as u8`)."""
from vlib.mir import Fn, op_local, op_const


def check(ctx, fx, fn, enum_id, rule="R-PAIR.tag"):
    adt = fx.adts.get(enum_id)
    if adt is None:
        return 0
    discr = {v["name"]: (int(v["discr"]) if v["discr"] is not None else i) for i, v in enumerate(adt["variants"])}
    n = 0
    for b in fn.blocks():
        t = fn.term(b)
        if t[0] != "sw" or len(t[2]) < 3:
            continue
        l = op_local(t[1])
        if l is None or fn.ty(l) not in ("u8", "u16", "u32", "u64", "usize", "i32"):
            continue
        arms = []
        for v, tgt in t[2]:
            # the variant constructed in the arm's first blocks
            built = None
            seen = set()
            work = [tgt]
            steps = 0
            while work and steps < 6 and built is None:
                x = work.pop()
                steps += 1
                if x in seen:
                    continue
                seen.add(x)
                for s in fn.stmts(x):
                    if s[0] == "a" and s[2][0] == "agg" and isinstance(s[2][1], str) and s[2][1].startswith("adt:" + enum_id + "::"):
                        built = s[2][1].rsplit("::", 1)[-1]
                        break
                if built is None and len(fn.succ(x)) == 1:
                    work.append(fn.succ(x)[0])
            if built is not None:
                arms.append((int(v), built))
        if len(arms) < 3:
            continue
        for k, name in arms:
            n += 1
            ok = discr.get(name) == k
            ctx.obligation(rule, fn.id, "tag %d" % k, ok, sample={"fn": fn.id, "tag": k, "variant": name, "discriminant": discr.get(name)})
            if not ok:
                ctx.violation(rule, fn.id, "tag %d -> %s" % (k, name),
                              "tag %d is decoded as %s whose discriminant (the value the writer emits) is %s"
                              % (k, name, discr.get(name)), fn.file, t[4])
    return n
