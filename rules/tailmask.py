"""R-TAILMASK: `(1 << (n % W)) - 1` is the mask of the valid bits of the word at index `n / W`. Applied to the word at
index `(n - 1) / W` (the last word of an n-bit sequence) it is wrong exactly when n is a multiple of W: the mask is 0
and the whole last word is discarded. Such a use needs a dominating test of `n % W` against 0.
"""
from vlib.mir import Fn, op_local, op_const, op_place, rv_operands

WIDTHS = {8: 8, 16: 16, 32: 32, 64: 64}
MASKS = {7: 8, 15: 16, 31: 32, 63: 64}


def _copy_back(fn, l, depth=0):
    """follow plain copies/casts backwards to the originating local(s)"""
    out = {l}
    if depth > 6:
        return out
    for loc, kind, pl in fn.defs(l):
        if kind == "assign" and len(pl[1]) == 1:
            rv = pl[2]
            o = rv[1] if rv[0] == "use" else (rv[2] if rv[0] == "cast" else None)
            if o is not None:
                p = op_place(o)
                if p and len(p) == 1:
                    out |= _copy_back(fn, p[0], depth + 1)
                elif p:
                    out.add(("place", tuple(str(e) for e in p)))
    return out


def run(ctx, fx, files, rule="R-TAILMASK"):
    n = 0
    for f in files:
        for fid in fx.fn_ids(f):
            if "::tests::" in fid or "::test_" in fid:
                continue
            fn = Fn(fx.raw(fid))
            rems = {}       # rem local -> (source local of n, width, line)
            for loc, st in fn.iter_locs():
                if st[0] == "a" and st[2][0] == "bin" and len(st[1]) == 1:
                    op, a, b = st[2][1], st[2][2], st[2][3]
                    kb = op_const(b)
                    if kb is None or op_local(a) is None:
                        continue
                    w = WIDTHS.get(kb[0]) if op == "Rem" else (MASKS.get(kb[0]) if op == "BitAnd" else None)
                    if w:
                        rems[st[1][0]] = (op_local(a), w, st[3])
            if not rems:
                continue
            for r, (src, w, line) in rems.items():
                fr = fn.forward_locals([r])
                # mask = (1 << r) - 1
                masks = set()
                for loc, st in fn.iter_locs():
                    if st[0] == "a" and st[2][0] == "bin" and st[2][1] in ("Shl", "ShlUnchecked") and op_const(st[2][2]) is not None \
                            and op_const(st[2][2])[0] == 1 and op_local(st[2][3]) in fr:
                        f2 = fn.forward_locals([st[1][0]])
                        for loc2, s2 in fn.iter_locs():
                            if s2[0] == "a" and s2[2][0] == "bin" and s2[2][1].startswith("Sub") and op_local(s2[2][2]) in f2 \
                                    and op_const(s2[2][3]) is not None and op_const(s2[2][3])[0] == 1:
                                masks.add(s2[1][0])
                if not masks:
                    continue
                # locals that hold the mask itself (plain copies of the subtraction result, incl. the `.0` of a checked sub)
                fm = set(masks)
                changed = True
                while changed:
                    changed = False
                    for loc, st in fn.iter_locs():
                        if st[0] == "a" and len(st[1]) == 1 and st[2][0] == "use" and st[1][0] not in fm:
                            p = op_place(st[2][1])
                            if p and p[0] in fm and all(e in (".0",) for e in p[1:]):
                                fm.add(st[1][0])
                                changed = True
                nsrc = _copy_back(fn, src)
                for (b, i), st in fn.iter_locs():
                    if st[0] != "a" or st[2][0] != "bin" or st[2][1] != "BitAnd":
                        continue
                    ops = [st[2][2], st[2][3]]
                    if not any(op_local(o) in fm for o in ops):
                        continue
                    word = [o for o in ops if op_local(o) not in fm]
                    if not word or op_local(word[0]) is None:
                        continue
                    n += 1
                    ctx.analysed_fns.add(fid)
                    # index of the word: look for ((n' - 1) / W) in the backward slice of the word operand
                    locs, sites = fn.backslice([op_local(word[0])], max_nodes=120)
                    minus_one = False
                    for loc2, kind, pl in sites:
                        if kind == "assign" and pl[2][0] == "bin" and pl[2][1].startswith("Sub"):
                            k = op_const(pl[2][3])
                            x = op_local(pl[2][2])
                            if k is not None and k[0] == 1 and x is not None and (_copy_back(fn, x) & nsrc):
                                # ... and that difference is divided by W / shifted to form an index
                                fx_ = fn.forward_locals([pl[1][0]])
                                for loc3, s3 in fn.iter_locs():
                                    if s3[0] == "a" and s3[2][0] == "bin" and s3[2][1] in ("Div", "Shr", "ShrUnchecked") \
                                            and op_local(s3[2][2]) in fx_ and s3[1][0] in locs:
                                        minus_one = True
                    if not minus_one:
                        # or the masked word is selected by a comparison `index == (n - 1) / W`
                        for wb in fn.blocks():
                            t = fn.term(wb)
                            if t[0] != "sw" or wb == b or not fn.dominates(wb, b):
                                continue
                            cl = op_local(t[1])
                            for dl, kind, pl in (fn.defs(cl) if cl is not None else ()):
                                if kind == "assign" and pl[2][0] == "bin" and pl[2][1] in ("Eq", "Ne"):
                                    for o in (pl[2][2], pl[2][3]):
                                        lo = op_local(o)
                                        if lo is None:
                                            continue
                                        l2, s2 = fn.backslice([lo], max_nodes=60)
                                        has_div = any(k2 == "assign" and p2[2][0] == "bin" and p2[2][1] in ("Div", "Shr", "ShrUnchecked") for _, k2, p2 in s2)
                                        has_sub = any(k2 == "assign" and p2[2][0] == "bin" and p2[2][1].startswith("Sub") and op_const(p2[2][3]) is not None
                                                      and op_const(p2[2][3])[0] == 1 and op_local(p2[2][2]) is not None
                                                      and (_copy_back(fn, op_local(p2[2][2])) & nsrc) for _, k2, p2 in s2)
                                        if has_div and has_sub:
                                            minus_one = True
                    guarded = False
                    if minus_one:
                        for wb in fn.blocks():
                            t = fn.term(wb)
                            if t[0] == "sw" and fn.dominates(wb, b) and wb != b:
                                l = op_local(t[1])
                                if l is None:
                                    continue
                                if l == r or l in fr:
                                    guarded = True
                                else:
                                    for dl, kind, pl in fn.defs(l):
                                        if kind == "assign" and pl[2][0] == "bin" and pl[2][1] in ("Eq", "Ne", "Gt", "Lt", "Ge", "Le") and \
                                                any(op_local(o) in fr or op_local(o) == r for o in (pl[2][2], pl[2][3])):
                                            guarded = True
                    ok = (not minus_one) or guarded
                    ctx.obligation(rule, fid, "mask@%s" % st[3], ok,
                                   sample={"fn": fid, "line": st[3], "word_index_uses_n_minus_1": minus_one, "zero_remainder_tested": guarded})
                    if not ok:
                        ctx.violation(rule, fid, "last-word mask from n %% %d without a zero test" % w,
                                      "the word at index (n - 1) / %d is masked with (1 << (n %% %d)) - 1 (line %s): when n is a multiple of "
                                      "%d the mask is 0 and the whole last word is dropped" % (w, w, st[3], w), fn.file, st[3])
    ctx.instance(rule + ".masks", n)
    return n
